"""C15 — HTTP/3 applications only ever see well-formed messages.

proof:   AQ.Props.C15 (+ AQ.Proofs.H3Validate) built and audited
tie:     T2 correspondence of AQ.Model.H3Validate (compiled driver) against
         validate_header_name / validate_header_value / validate_*_headers /
         int(bytes) and against a real H3Connection fed real QPACK-encoded
         HEADERS / PUSH_PROMISE / DATA frames over a fake QUIC connection
oracle:  `well_formed` and the content-length bookkeeping below are written
         from the property text (plain Python, no aioquic import) and are
         evaluated on the implementation's own outputs
"""
import itertools
import re

from harness import core, lean, rng, tree

ALPHA = [0x00, 0x09, 0x0A, 0x0D, 0x20, 0x21, 0x3A, 0x41, 0x5A, 0x61, 0x7F, 0x80, 0xFF]
KINDS = ("req", "resp", "trl", "push")


def hx(b):
    return bytes(b).hex() if b else "-"


def fmt_headers(hs):
    if not hs:
        return "-"
    return ",".join(f"{bytes(n).hex()}:{bytes(v).hex()}" for n, v in hs)


def parse_headers(tok):
    if tok == "-":
        return []
    return [tuple(bytes.fromhex(x) for x in item.split(":")) for item in tok.split(",")]


# ------------------------------------------------------------------ the oracle
KNOWN_PSEUDO = {
    "req": {b":method", b":scheme", b":authority", b":path", b":protocol"},
    "resp": {b":status"},
    "trl": set(),
    "push": {b":method", b":scheme", b":authority", b":path"},
}
NEEDED = {"req": {b":method"}, "resp": {b":status"}, "trl": set(), "push": {b":method"}}


def well_formed(kind, hs):
    """None when the header list obeys every rule of the property text, else the
    name of the first broken rule."""
    seen = set()
    regular_seen = False
    for name, value in hs:
        for c in name:
            if 0x41 <= c <= 0x5A:
                return "name-upper"
            if c < 0x20 or c == 0x7F:
                return "name-control"
            if c == 0x20:
                return "name-space"
            if c >= 0x80:
                return "name-non-ascii"
        for c in value:
            if c in (0x00, 0x0D, 0x0A):
                return "value-nul-cr-lf"
        if value and (value[0] in (0x20, 0x09) or value[-1] in (0x20, 0x09)):
            return "value-outer-whitespace"
        if name[:1] == b":":
            if regular_seen:
                return "pseudo-after-regular"
            if name in seen:
                return "pseudo-repeated"
            if name not in KNOWN_PSEUDO[kind]:
                return "pseudo-unknown"
            seen.add(name)
        else:
            regular_seen = True
    if not NEEDED[kind] <= seen:
        return "pseudo-missing"
    return None


INT_RE = re.compile(rb"\A[\t\n\x0b\x0c\r ]*([+-]?)([0-9]+(?:_[0-9]+)*)[\t\n\x0b\x0c\r ]*\Z")


def declared_lengths(hs):
    """every content-length declaration of a header list, as numbers"""
    res = []
    for name, value in hs:
        if name == b"content-length":
            m = INT_RE.match(value)
            if m is None:
                res.append(None)
            else:
                digits = m.group(2).replace(b"_", b"").lstrip(b"0") or b"0"
                if len(digits) > 4000:
                    res.append(None)      # beyond what the oracle itself can convert
                    continue
                v = int(digits.decode())
                res.append(-v if m.group(1) == b"-" else v)
    return res


def conflicting_lengths(hs):
    """a block declaring two different content-lengths cannot satisfy "a declared
    content-length equals the number of body bytes delivered": it must be rejected"""
    decl = [d for d in declared_lengths(hs) if d is not None]
    return len(set(decl)) > 1


def oracle_function(op, out):
    """oracle for a function-level op; returns (problem, signature) or None"""
    t = op.split()
    if t[0] == "h3v.headers":
        hs = parse_headers(t[2])
        why = well_formed(t[1], hs)
        if conflicting_lengths(hs) and out != "err H3Error(270)":
            return (f"{t[1]} header list declaring content-lengths {declared_lengths(hs)} gave {out!r}, not H3_MESSAGE_ERROR",
                    {"oracle": "content-length", "rule": "duplicate-differs"})
        if out.startswith("ok") and why is not None:
            return f"{t[1]} header list accepted although it breaks rule {why}", {"oracle": "well-formed", "rule": why}
        if why is not None and out != "err H3Error(270)":
            return f"{t[1]} header list breaking rule {why} gave {out!r}, not H3_MESSAGE_ERROR", {"oracle": "well-formed-error", "rule": why}
    elif t[0] == "h3v.name":
        b = b"" if t[1] == "-" else bytes.fromhex(t[1])
        why = well_formed("trl", [(b, b"v")])
        # a leading colon makes it a pseudo-header, judged by validate_headers, not here
        if out == "ok" and why is not None and not why.startswith("pseudo"):
            return f"name {b!r} accepted although it breaks rule {why}", {"oracle": "name", "rule": why}
    elif t[0] == "h3v.value":
        b = b"" if t[1] == "-" else bytes.fromhex(t[1])
        why = well_formed("trl", [(b"n", b)])
        if (out == "ok") != (why is None):
            return f"value {b!r}: {out!r} but rule check says {why}", {"oracle": "value", "rule": str(why)}
    return None


EV_RE = re.compile(r"([HDP])\(([^)]*)\)")


def oracle_stream(case, outs):
    """walk one implementation trace of stream ops; returns list of (problem, signature)"""
    problems = []
    is_client = None
    n_headers = 0
    first = None          # header list of the first HeadersReceived
    body = 0
    fin_seen = False
    closed = False
    deferred = []         # header blocks received but not decoded yet (QPACK-blocked stream)
    fin_deferred = False
    for op, out in zip(case, outs):
        t = op.split()
        if t[0] == "h3v.new":
            is_client = t[1] == "1"
            continue
        if out == "bad-op" or closed:
            continue
        head = out.partition(" | ")[0]
        carries_fin = t[0] == "h3v.fin" or (t[0] != "h3v.fin" and t[-1] == "1")
        fin_seen = fin_seen or carries_fin
        # what the peer sent, judged by the rules once it is decoded: a block on a
        # QPACK-blocked stream is judged when the encoder stream unblocks it
        if t[0] in ("h3v.hdr", "h3v.hdrdata", "h3v.hdrb"):
            deferred.append(("hdr", parse_headers(t[1])))
        elif t[0] in ("h3v.pp", "h3v.ppb"):
            deferred.append(("pp", parse_headers(t[1])))
        if head.startswith("err"):
            closed = True
            continue
        still_blocked = " blk=1 " in out
        sent = []
        if not still_blocked:
            k = n_headers
            for typ_, hs_ in deferred:
                if typ_ == "pp":
                    sent.append(("push", hs_))
                else:
                    sent.append((("resp" if is_client else "req") if k == 0 else "trl", hs_))
                    k += 1
            deferred = []
        # no error: every header block sent in this op must have been acceptable
        for kind, hs in sent:
            why = well_formed(kind, hs)
            if why is not None:
                problems.append((f"{kind} header block breaking rule {why} did not close the connection ({op!r} -> {out!r})",
                                 {"oracle": "well-formed", "rule": why}))
            if conflicting_lengths(hs):
                problems.append((f"{kind} header block declaring content-lengths {declared_lengths(hs)} did not close the connection ({op!r} -> {out!r})",
                                 {"oracle": "content-length", "rule": "duplicate-differs"}))
        for m in EV_RE.finditer(head[3:]):
            typ, body_s = m.group(1), m.group(2)
            if typ == "H":
                hs_s, _, end_s = body_s.rpartition(",end=")
                hs = parse_headers(hs_s)
                kind = ("resp" if is_client else "req") if n_headers == 0 else "trl"
                n_headers += 1
                if first is None:
                    first = hs
                why = well_formed(kind, hs)
                if why is not None:
                    problems.append((f"HeadersReceived({kind}) breaks rule {why}", {"oracle": "well-formed", "rule": why}))
                ended = end_s == "1"
            elif typ == "P":
                hs = parse_headers(body_s)
                why = well_formed("push", hs)
                if why is not None:
                    problems.append((f"PushPromiseReceived breaks rule {why}", {"oracle": "well-formed", "rule": why}))
                ended = False
            else:
                n_s, _, end_s = body_s.partition(",end=")
                body += int(n_s[2:])
                ended = end_s == "1"
            if ended and first is not None:
                decl = declared_lengths(first)
                bad = [d for d in decl if d != body]
                if bad:
                    rule = "duplicate-differs" if len(set(decl)) > 1 else "mismatch"
                    problems.append((f"event with stream_ended=True after {body} body bytes but content-length declared {decl}",
                                     {"oracle": "content-length", "rule": rule}))
        # "when a stream ends": the step that carries the FIN either closes the
        # connection or reports the end of the stream
        if still_blocked:
            fin_deferred = fin_deferred or carries_fin
            continue
        if (carries_fin or fin_deferred) and not any(m.group(2).endswith("end=1") for m in EV_RE.finditer(head[3:])):
            problems.append((f"FIN received, connection not closed, no event with stream_ended=True ({op!r} -> {out!r})",
                             {"oracle": "stream-end", "rule": "fin-unreported"}))
        fin_deferred = False
        # the stream has ended (FIN seen), the connection is still open
        if fin_seen and first is not None:
            decl = declared_lengths(first)
            if decl and len(set(decl)) == 1 and decl[0] != body:
                last = {"other": "non-body-frame", "pp": "non-body-frame"}.get(t[0][4:], "data-fragment")
                problems.append((f"FIN received, content-length {decl[0]} declared, {body} body bytes delivered, connection not closed (last op {op!r})",
                                 {"oracle": "content-length", "rule": "fin-unchecked", "last": last}))
                fin_seen = False    # report once per case
                first = None
    return problems


# ------------------------------------------------------------------ generators
def strings_upto(alpha, n):
    for k in range(n + 1):
        for tup in itertools.product(alpha, repeat=k):
            yield bytes(tup)


def small_headers(total):
    """all (name, value) over ALPHA with len(name)+len(value) <= total"""
    strs = {k: [bytes(t) for t in itertools.product(ALPHA, repeat=k)] for k in range(total + 1)}
    res = []
    for a in range(total + 1):
        for b in range(total + 1 - a):
            for n in strs[a]:
                for v in strs[b]:
                    res.append((n, v))
    return res


GOOD_PREFIX = {
    "req": [(b":method", b"GET"), (b":authority", b"x")],
    "resp": [(b":status", b"200")],
    "trl": [],
    "push": [(b":method", b"GET"), (b":scheme", b"https"), (b":authority", b"x"), (b":path", b"/")],
}


def gen_chars():
    lines = []
    for c in range(256):
        lines.append(f"h3v.name {bytes([c]).hex()}")
        lines.append(f"h3v.value {bytes([c]).hex()}")
        lines.append(f"h3v.name 61{bytes([c]).hex()}")
        lines.append(f"h3v.value 61{bytes([c]).hex()}61")
        for k in KINDS:
            lines.append(f"h3v.headers {k} {fmt_headers(GOOD_PREFIX[k] + [(bytes([c]), b'v')])}")
            lines.append(f"h3v.headers {k} {fmt_headers(GOOD_PREFIX[k] + [(b'n', bytes([c]))])}")
            lines.append(f"h3v.headers {k} {fmt_headers(GOOD_PREFIX[k] + [(b'n' + bytes([c]), b'v' + bytes([c]) + b'w')])}")
    lines.append("h3v.name -")
    lines.append("h3v.value -")
    for s in strings_upto(ALPHA, 3):
        if s:
            lines.append(f"h3v.name {s.hex()}")
            lines.append(f"h3v.value {s.hex()}")
    return lines


def gen_small_lists(r, thorough):
    lines = []
    one = small_headers(3)
    for h in one:
        for k in KINDS:
            lines.append(f"h3v.headers {k} {fmt_headers([h])}")
            if GOOD_PREFIX[k]:
                lines.append(f"h3v.headers {k} {fmt_headers(GOOD_PREFIX[k] + [h])}")
    two = small_headers(2)
    pairs = itertools.product(two, repeat=2)
    if not thorough:
        pairs = [(r.choice(two), r.choice(two)) for _ in range(12000)]
        pairs += [(r.choice(one), r.choice(one)) for _ in range(6000)]
    for a, b in pairs:
        k = r.choice(KINDS) if not thorough else None
        for kk in ([k] if k else KINDS):
            lines.append(f"h3v.headers {kk} {fmt_headers(GOOD_PREFIX[kk] + [a, b])}")
            if GOOD_PREFIX[kk] and (thorough or r.random() < 0.3):
                lines.append(f"h3v.headers {kk} {fmt_headers([a, b])}")
    if thorough:
        for _ in range(1200000):
            a, b = r.choice(one), r.choice(one)
            kk = r.choice(KINDS)
            lines.append(f"h3v.headers {kk} {fmt_headers(GOOD_PREFIX[kk] + [a, b])}")
    return lines


PSEUDO = [b":method", b":scheme", b":authority", b":path", b":protocol", b":status", b":x"]
DEFAULT_VAL = {b":method": b"GET", b":scheme": b"https", b":authority": b"x", b":path": b"/",
               b":protocol": b"websocket", b":status": b"200", b":x": b"y", b"a": b"b"}


def gen_pseudo(thorough):
    lines = []
    syms = PSEUDO + [b"a"]
    for n in range(0, 5 if not thorough else 6):
        for seq in itertools.product(syms, repeat=n):
            hs = [(s, DEFAULT_VAL[s]) for s in seq]
            for k in KINDS:
                lines.append(f"h3v.headers {k} {fmt_headers(hs)}")
    # scheme / authority / path interplay, every order of every subset
    four = [b":method", b":scheme", b":authority", b":path"]
    for n in range(0, 5):
        for seq in itertools.permutations(four, n):
            for scheme in (b"http", b"https", b"ftp", b"", b"HTTP", b"httpss"):
                for auth in (b"", b"x"):
                    for path in (b"", b"/"):
                        vals = {b":method": b"GET", b":scheme": scheme, b":authority": auth, b":path": path}
                        hs = [(s, vals[s]) for s in seq]
                        for k in ("req", "push"):
                            lines.append(f"h3v.headers {k} {fmt_headers(hs)}")
    for te in (b"trailers", b"chunked", b"", b"Trailers", b"trailers "):
        for k in KINDS:
            lines.append(f"h3v.headers {k} {fmt_headers(GOOD_PREFIX[k] + [(b'transfer-encoding', te)])}")
    # every kind of regular header the code treats specially, as THE regular
    # header standing before late pseudo-headers
    for sep in SEPARATORS:
        for n in range(0, 4 if not thorough else 5):
            for seq in itertools.product(PSEUDO + [None], repeat=n):
                if None not in seq:
                    continue
                hs = [sep if x is None else (x, DEFAULT_VAL[x]) for x in seq]
                for k in KINDS:
                    lines.append(f"h3v.headers {k} {fmt_headers(hs)}")
        # complete valid pseudo-header sets with the separator inserted at every position
        for k, full in (("req", four + [b":protocol"]), ("push", four), ("resp", [b":status"]), ("trl", [])):
            for m in range(0, len(full) + 1):
                if m == 5 and not thorough:
                    continue
                for seq in itertools.permutations(full, m):
                    for i in range(m + 1):
                        hs = [(x, DEFAULT_VAL[x]) for x in seq]
                        hs.insert(i, sep)
                        lines.append(f"h3v.headers {k} {fmt_headers(hs)}")
    return lines


SEPARATORS = [
    (b"content-length", b"0"), (b"content-length", b"+5"), (b"content-length", b"x"), (b"content-length", b""),
    (b"transfer-encoding", b"trailers"), (b"transfer-encoding", b"chunked"),
    (b"", b"v"), (b"a", b"b"), (b"te", b"trailers"),
]


def gen_late_pseudo_streams():
    """the same through real frames: HeadersReceived / PushPromiseReceived must not carry a
    pseudo-header after any kind of regular header"""
    cases = []
    for sep in SEPARATORS:
        if not sep[0]:
            continue        # QPACK cannot carry an empty name
        S = [sep]
        req = [(b":method", b"GET"), (b":scheme", b"https"), (b":path", b"/")]
        auth = [(b":authority", b"x")]
        for fin in (0, 1):
            cases.append(["h3v.new 0 0", f"h3v.hdr {fmt_headers(req + S + auth)} {fin}"])
            cases.append(["h3v.new 0 0", f"h3v.hdr {fmt_headers(req + auth + S)} {fin}"])
            cases.append(["h3v.new 0 0", f"h3v.hdr {fmt_headers(S + req + auth)} {fin}"])
            cases.append(["h3v.new 1 0", f"h3v.hdr {fmt_headers(S + RESP)} {fin}"])
            cases.append(["h3v.new 1 0", f"h3v.hdr {fmt_headers(RESP + S)} {fin}"])
            cases.append(["h3v.new 1 1", f"h3v.hdr {fmt_headers(S + RESP)} {fin}"])
            cases.append(["h3v.new 1 0", f"h3v.pp {fmt_headers(req + S + auth)} {fin}"])
            cases.append(["h3v.new 1 0", f"h3v.pp {fmt_headers(req + auth + S)} {fin}"])
            cases.append(["h3v.new 1 0", f"h3v.hdr {fmt_headers(RESP)} 0", f"h3v.hdr {fmt_headers(S + RESP)} {fin}"])
            cases.append(["h3v.new 0 0", f"h3v.hdr {fmt_headers(req + auth)} 0", f"h3v.hdr {fmt_headers(S + [(b':path', b'/')])} {fin}"])
    return cases


SPELLINGS = [
    b"0", b"5", b"05", b"+5", b"-0", b"-1", b"5 ", b" 5", b"1_0", b"", "٥".encode(), b"5\x00",
    b"\x0b5", b"5\x0c", b"\x0b 5 \x0c", b"\x0b\t5", b"1__0", b"_1", b"1_", b"+_1", b"+ 5", b"++5", b"\x1c5",
    b"0x5", b"5.0", b"1e1", b"0_0", b"00", b"-00", b"+0", b"10", b"6", b"4", b"5a", b"a", b"+", b"-", b"_",
    b"\x0b", b"5\x0b\x0b", b"5\x0b6", b"5 6", b"18446744073709551616", b"-\x0b5", b"5_", b"\xa05", b"5\x85",
    b"0" * 4299 + b"5", b"0" * 4300 + b"5",
]


def gen_int(thorough):
    lines = [f"h3v.int {hx(s)}" for s in SPELLINGS]
    ia = [0x09, 0x0B, 0x20, 0x2B, 0x2D, 0x30, 0x35, 0x39, 0x5F, 0x00, 0x61, 0x2F, 0x3A]
    for s in strings_upto(ia, 4 if not thorough else 5):
        lines.append(f"h3v.int {hx(s)}")
    for c in range(256):
        lines.append(f"h3v.int {bytes([c]).hex()}")
        lines.append(f"h3v.int {bytes([c]).hex()}35")
        lines.append(f"h3v.int 35{bytes([c]).hex()}")
        lines.append(f"h3v.int 35{bytes([c]).hex()}36")
    for k in ("req", "resp", "trl", "push"):
        for s in SPELLINGS:
            lines.append(f"h3v.headers {k} {fmt_headers(GOOD_PREFIX[k] + [(b'content-length', s)])}")
            lines.append(f"h3v.headers {k} {fmt_headers(GOOD_PREFIX[k] + [(b'content-length', b'3'), (b'content-length', s)])}")
    return lines


REQ = [(b":method", b"POST"), (b":scheme", b"https"), (b":authority", b"x"), (b":path", b"/")]
RESP = [(b":status", b"200")]


def body_scenarios(first, t, trailer_cl):
    """op lists delivering `t` body bytes after the header block `first` in every way the receive path distinguishes"""
    H = fmt_headers(first)
    T = fmt_headers([(b"x-t", b"1")])
    T2 = fmt_headers([(b"content-length", trailer_cl)])
    PP = fmt_headers(REQ)
    sc = [
        [f"h3v.hdr {H} 1"],
        [f"h3v.hdr {H} 0", "h3v.fin"],
        [f"h3v.hdr {H} 0", f"h3v.data {t} {t} 1"],
        [f"h3v.hdr {H} 0", f"h3v.data {t} {t} 0", "h3v.fin"],
        [f"h3v.hdrdata {H} {t} 1"],
        [f"h3v.hdrdata {H} {t} 0", "h3v.fin"],
        [f"h3v.hdr {H} 0", f"h3v.data {t} {t} 0", f"h3v.hdr {T} 1"],
        [f"h3v.hdr {H} 0", f"h3v.data {t} {t} 0", f"h3v.hdr {T2} 1"],
        [f"h3v.hdr {H} 0", f"h3v.data {t} {t} 0", f"h3v.hdr {T} 0", "h3v.fin"],
        [f"h3v.hdr {H} 0", f"h3v.data {t} {t} 0", "h3v.other 33 1"],
        [f"h3v.hdr {H} 0", f"h3v.data {t} {t} 0", "h3v.other 33 0", "h3v.fin"],
        [f"h3v.hdr {H} 0", f"h3v.data {t} {t} 0", f"h3v.pp {PP} 1"],
        [f"h3v.hdr {H} 0", f"h3v.data 0 0 0", f"h3v.data {t} {t} 0", f"h3v.data 0 0 1"],
    ]
    for a in sorted({0, 1, t // 2, max(t - 1, 0)}):
        if a > t:
            continue
        sc.append([f"h3v.hdr {H} 0", f"h3v.data {a} {a} 0", f"h3v.data {t - a} {t - a} 1"])
        sc.append([f"h3v.hdr {H} 0", f"h3v.data {t} {a} 0", f"h3v.frag {t - a} 1"])
        sc.append([f"h3v.hdr {H} 0", f"h3v.data {t} {a} 0", f"h3v.frag {t - a} 0", "h3v.fin"])
        # FIN inside a DATA frame (truncated frame)
        sc.append([f"h3v.hdr {H} 0", f"h3v.data {t + 3} {a} 1"])
        sc.append([f"h3v.hdr {H} 0", f"h3v.data {t + 3} {a} 0", f"h3v.frag {t - a} 1"])
        sc.append([f"h3v.hdr {H} 0", f"h3v.data {t + 3} {a} 0", f"h3v.frag {t - a} 0", "h3v.fin"])
        if t - a >= 2:
            b = (t - a) // 2
            sc.append([f"h3v.hdr {H} 0", f"h3v.data {t} {a} 0", f"h3v.frag {b} 0", f"h3v.frag {t - a - b} 1"])
    return sc


def gen_content_length(thorough):
    cases = []
    totals = [0, 1, 5, 10] if not thorough else [0, 1, 2, 4, 5, 6, 10, 11]
    for sp in SPELLINGS:
        if len(sp) > 100:
            continue      # larger than the test-side QPACK encoder's buffer; covered by h3v.headers / h3v.int
        totals_here = totals
        for (c, p, base) in ((0, 0, REQ), (1, 0, RESP), (1, 1, RESP)):
            firsts = [base + [(b"content-length", sp)]]
            if sp in (b"5", b"0", b"10", b"+5"):
                firsts.append(base + [(b"content-length", b"5"), (b"content-length", sp)])
                firsts.append(base + [(b"content-length", sp), (b"content-length", b"5")])
            for first in firsts:
                for t in totals_here:
                    for sc in body_scenarios(first, t, b"7"):
                        cases.append([f"h3v.new {c} {p}"] + sc)
    # a content-length in the TRAILERS must not replace the one of the first HEADERS:
    # every combination of declared / delivered / trailer value, incl. trailers that
    # match the body while the first HEADERS declared something else (and the reverse)
    vals = [0, 3, 5] if not thorough else [0, 1, 3, 5, 10]
    for (c, p, base) in ((0, 0, REQ), (1, 0, RESP), (1, 1, RESP)):
        for decl in [None] + vals:
            first = base + ([(b"content-length", str(decl).encode())] if decl is not None else [])
            H = fmt_headers(first)
            for body in vals:
                for tcl in vals:
                    for tr in ([(b"content-length", str(tcl).encode())],
                               [(b"x-t", b"1"), (b"content-length", str(tcl).encode())],
                               [(b"content-length", str(tcl).encode()), (b"content-length", b"+" + str(tcl).encode())]):
                        T = fmt_headers(tr)
                        a = body // 2
                        cases.append([f"h3v.new {c} {p}", f"h3v.hdr {H} 0", f"h3v.data {body} {body} 0", f"h3v.hdr {T} 1"])
                        cases.append([f"h3v.new {c} {p}", f"h3v.hdr {H} 0", f"h3v.data {body} {body} 0", f"h3v.hdr {T} 0", "h3v.fin"])
                        cases.append([f"h3v.new {c} {p}", f"h3v.hdrdata {H} {body} 0", f"h3v.hdr {T} 1"])
                        if body:
                            cases.append([f"h3v.new {c} {p}", f"h3v.hdr {H} 0", f"h3v.data {body} {a} 0", f"h3v.frag {body - a} 0",
                                          f"h3v.hdr {T} 0", "h3v.other 33 1"])
    # no content-length at all
    for (c, p, base) in ((0, 0, REQ), (1, 0, RESP), (1, 1, RESP), (0, 1, REQ)):
        for t in (0, 3):
            for sc in body_scenarios(base, t, b"3"):
                cases.append([f"h3v.new {c} {p}"] + sc)
    return cases


NAME_POOL = [b"a", b"content-length", b"transfer-encoding", b"x-y", b"A", b"a b", b"a:b", b"\x7f", b"caf\xc3\xa9",
             b"te", b"cookie", b"a\x00", b"~", b"!", b"[", b"@", b"`", b"{", b"a\x1f", b"a\x20", b"a!"]
VALUE_POOL = [b"", b"1", b"5", b"trailers", b"chunked", b" x", b"x ", b"x\ty", b"\tx", b"x\t", b"x\ny", b"x\ry", b"x\x00",
              b"\x7f", b"\xff", b"a b", b"3", b"+3", b"0", b"x\x0b", b"\x0c3"]


def rand_bytes(r, n, alpha=None):
    return bytes(r.choice(alpha) if alpha else r.randrange(256) for _ in range(n))


def rand_header(r):
    x = r.random()
    if x < 0.35:
        return (r.choice(PSEUDO), r.choice([b"GET", b"https", b"http", b"x", b"/", b"", b"200", b" x", b"a\n"]))
    if x < 0.75:
        return (r.choice(NAME_POOL), r.choice(VALUE_POOL))
    if x < 0.9:
        return (rand_bytes(r, r.randrange(0, 5), ALPHA), rand_bytes(r, r.randrange(0, 5), ALPHA))
    return (rand_bytes(r, r.randrange(1, 12), list(range(0x61, 0x7B)) + [0x2D]), rand_bytes(r, r.randrange(0, 12)))


def rand_list(r, kind):
    x = r.random()
    hs = []
    if x < 0.6:
        hs = list(GOOD_PREFIX[kind])
        if r.random() < 0.3:
            r.shuffle(hs)
        if kind == "req" and r.random() < 0.5:
            hs += [(b":scheme", r.choice([b"https", b"http", b"ftp"])), (b":path", r.choice([b"/", b""]))]
    for _ in range(r.randrange(0, 7)):
        hs.append(rand_header(r) if r.random() < 0.5 else (r.choice(NAME_POOL[:4] + NAME_POOL[9:11]), r.choice(VALUE_POOL[:5] + [b"3", b"0"])))
    return hs


def gen_random_lists(r, n):
    lines = []
    for _ in range(n):
        k = r.choice(KINDS)
        lines.append(f"h3v.headers {k} {fmt_headers(rand_list(r, k))}")
    return lines


def gen_random_streams(r, n):
    cases = []
    for _ in range(n):
        c = r.choice([0, 1])
        p = r.choice([0, 0, 1])
        case = [f"h3v.new {c} {p}"]
        kind = "resp" if c else "req"
        rem = 0
        for _ in range(r.randrange(1, 9)):
            x = r.random()
            fin = 1 if r.random() < 0.2 else 0
            if rem and x < 0.8:
                n_ = r.choice([0, 1, rem, max(rem - 1, 0), r.randrange(rem + 1)])
                case.append(f"h3v.frag {n_} {fin}")
                rem -= n_
            elif x < 0.3:
                hs = rand_list(r, kind if r.random() < 0.7 else "trl")
                if r.random() < 0.5:
                    hs = [h for h in hs if h[0] and well_formed(kind, [h]) in (None, "pseudo-missing", "pseudo-unknown")]
                if r.random() < 0.6:
                    hs.append((b"content-length", r.choice([b"0", b"3", b"5", b"+3", b"x"])))
                case.append(f"h3v.hdr {fmt_headers(hs)} {fin}")
                kind = "trl"
            elif x < 0.36:
                hs = list(GOOD_PREFIX[kind]) + [(b"content-length", r.choice([b"0", b"3", b"5"]))] if r.random() < 0.6 else rand_list(r, kind)
                hs = [h for h in hs if h[0]] or [(b"x", b"y")]
                case.append(f"h3v.{r.choice(['hdrb', 'hdrb', 'ppb'])} {fmt_headers(hs if r.random() < 0.8 else REQ)} {fin}")
                kind = "trl"
            elif x < 0.42:
                case.append("h3v.unblock")
            elif x < 0.6:
                tot = r.choice([0, 1, 2, 3, 5, 8])
                pres = r.choice([tot, tot, r.randrange(tot + 1)])
                case.append(f"h3v.data {tot} {pres} {fin}")
                rem = tot - pres
            elif x < 0.7:
                case.append("h3v.fin")
            elif x < 0.8:
                case.append(f"h3v.pp {fmt_headers(rand_list(r, 'push'))} {fin}")
            elif x < 0.9:
                case.append(f"h3v.other {r.choice([33, 2, 3, 4, 7, 13, 14, 64, 6, 9])} {fin}")
            else:
                hs = list(GOOD_PREFIX[kind]) + [(b"content-length", r.choice([b"0", b"3", b"5"]))]
                case.append(f"h3v.hdrdata {fmt_headers(hs)} {r.choice([0, 3, 5])} {fin}")
                kind = "trl"
        cases.append(case)
    return cases


def gen_blocked_streams(thorough):
    """messages whose HEADERS / trailers / PUSH_PROMISE are QPACK-blocked when they (and the
    FIN) arrive and are resumed by the late encoder stream, x declared / delivered lengths"""
    cases = []
    vals = [0, 3, 5] if not thorough else [0, 1, 3, 5, 10]
    T = fmt_headers([(b"x-t", b"1")])
    PP = fmt_headers(REQ)
    for (c, p, base) in ((0, 0, REQ), (1, 0, RESP), (1, 1, RESP)):
        new = f"h3v.new {c} {p}"
        for decl in [None] + vals:
            first = base + ([(b"content-length", str(decl).encode())] if decl is not None else [])
            H = fmt_headers(first)
            # headers-only message, FIN with the blocked HEADERS or alone behind it
            cases.append([new, f"h3v.hdrb {H} 1", "h3v.unblock"])
            cases.append([new, f"h3v.hdrb {H} 0", "h3v.fin", "h3v.unblock"])
            cases.append([new, f"h3v.hdrb {H} 0", "h3v.unblock", "h3v.fin"])
            for body in vals:
                a = body // 2
                # blocked first HEADERS, body (+ trailers) buffered behind it
                cases.append([new, f"h3v.hdrb {H} 0", f"h3v.data {body} {body} 1", "h3v.unblock"])
                cases.append([new, f"h3v.hdrb {H} 0", f"h3v.data {a} {a} 0", f"h3v.data {body - a} {body - a} 0", "h3v.fin", "h3v.unblock"])
                cases.append([new, f"h3v.hdrb {H} 0", f"h3v.data {body} {body} 0", f"h3v.hdr {T} 1", "h3v.unblock"])
                cases.append([new, f"h3v.hdrb {H} 0", f"h3v.data {body} {body} 0", "h3v.other 33 1", "h3v.unblock"])
                cases.append([new, f"h3v.hdrb {H} 0", f"h3v.data {body} {body} 0", "h3v.unblock", "h3v.fin"])
                # HEADERS + DATA delivered, blocked trailers carry the FIN
                cases.append([new, f"h3v.hdr {H} 0", f"h3v.data {body} {body} 0", f"h3v.hdrb {T} 1", "h3v.unblock"])
                cases.append([new, f"h3v.hdrdata {H} {body} 0", f"h3v.hdrb {T} 0", "h3v.fin", "h3v.unblock"])
                cases.append([new, f"h3v.hdr {H} 0", f"h3v.data {body} {a} 0", f"h3v.frag {body - a} 0",
                              f"h3v.hdrb {fmt_headers([(b'content-length', str(body).encode())])} 1", "h3v.unblock"])
                if c == 1 and p == 0:
                    # blocked PUSH_PROMISE as last frame of a response
                    cases.append([new, f"h3v.hdr {H} 0", f"h3v.data {body} {body} 0", f"h3v.ppb {PP} 1", "h3v.unblock"])
                    cases.append([new, f"h3v.hdr {H} 0", f"h3v.ppb {PP} 0", f"h3v.data {body} {body} 1", "h3v.unblock"])
    for bad in ([(b":status", b"200"), (b"A", b"1")], [(b"a", b"1"), (b":status", b"200")], [(b":status", b"200"), (b"a", b" x")]):
        cases.append(["h3v.new 1 0", f"h3v.hdrb {fmt_headers(bad)} 0", "h3v.unblock"])
        cases.append(["h3v.new 1 0", f"h3v.hdr {fmt_headers(RESP)} 0", f"h3v.hdrb {fmt_headers(bad)} 1", "h3v.unblock"])
        cases.append(["h3v.new 1 0", f"h3v.hdrb {fmt_headers(RESP)} 0", f"h3v.hdr {fmt_headers(bad)} 1", "h3v.unblock"])
    return cases


def genuine_blocked(ctx, thorough):
    """oracle only, no model: a real sender H3Connection whose pylsqpack encoder uses the
    dynamic table (header lists repeated so that it inserts); the receiver gets the request
    stream incl. FIN BEFORE the encoder stream.  Every stream_ended event must satisfy
    declared content-length = body bytes, else the connection must be closed."""
    from aioquic.h3.connection import H3Connection
    from aioquic.h3.events import DataReceived, HeadersReceived
    from aioquic.quic.events import StreamDataReceived
    from harness.impl_h3validate import FakeQuic
    n_blocked = 0
    filler = (b"x-filler", b"a-long-value-which-goes-to-the-qpack-dynamic-table")
    for client_sends in (True, False):
        for decl in (0, 3, 5):
            for body in (0, 3, 5):
                for shape in ("headers-only", "trailers", "trailers-blocked-last"):
                    if shape == "headers-only" and body:
                        continue
                    sq, rq = FakeQuic(client_sends), FakeQuic(not client_sends)
                    sender, receiver = H3Connection(sq), H3Connection(rq)
                    for sid, d, f in rq.sent:
                        sender.handle_event(StreamDataReceived(stream_id=sid, data=d, end_stream=f))
                    rq.sent.clear()
                    for sid, d, f in sq.sent:      # the sender's control / QPACK streams
                        receiver.handle_event(StreamDataReceived(stream_id=sid, data=d, end_stream=f))
                    first = ([(b":method", b"POST"), (b":scheme", b"https"), (b":authority", b"x"), (b":path", b"/")]
                             if client_sends else [(b":status", b"200")]) + [(b"content-length", str(decl).encode()), filler]
                    trailers = [(b"x-trailer", b"another-long-value-for-the-qpack-dynamic-table")]
                    # warm-up streams, delivered in order: ls-qpack inserts a field the second
                    # time it sees it, so a field seen once is inserted (and referenced) by the
                    # message under test; with two warm-ups the first HEADERS does not block
                    for warm in ((0, 4) if shape == "trailers-blocked-last" else (0,)):
                        sq.sent.clear()
                        sender.send_headers(warm, [h for h in first if h[0] != b"content-length"], end_stream=(warm == 4))
                        if warm == 0:
                            sender.send_headers(warm, trailers, end_stream=True)
                        for sid, d, f in sq.sent:
                            receiver.handle_event(StreamDataReceived(stream_id=sid, data=d, end_stream=f))
                    sq.sent.clear()
                    sid0 = 8
                    sender.send_headers(sid0, first, end_stream=(shape == "headers-only"))
                    if shape != "headers-only":
                        if body:
                            sender.send_data(sid0, bytes(body), end_stream=False)
                        sender.send_headers(sid0, trailers, end_stream=True)
                    late = [x for x in sq.sent if x[0] != sid0]
                    msg = [x for x in sq.sent if x[0] == sid0]
                    events = []
                    for sid, d, f in msg:
                        events += receiver.handle_event(StreamDataReceived(stream_id=sid, data=d, end_stream=f))
                    st = receiver._stream.get(sid0)
                    n_blocked += bool(st is not None and st.blocked)
                    for sid, d, f in late:
                        events += receiver.handle_event(StreamDataReceived(stream_id=sid, data=d, end_stream=f))
                    got = sum(len(e.data) for e in events if isinstance(e, DataReceived) and e.stream_id == sid0)
                    ended = [e for e in events if getattr(e, "stream_ended", False) and e.stream_id == sid0]
                    ctx.count(("genuine-blocked", client_sends, decl, body, shape), True)
                    if ended and got != decl and rq.closed is None:
                        ctx.witness(
                            f"QPACK-blocked {shape} message (genuine pylsqpack encoder, request stream + FIN delivered before the encoder "
                            f"stream): event with stream_ended=True after {got} body bytes but content-length {decl} declared, connection not closed",
                            {"ops": ["(genuine encoder scenario, see checks/c15.py genuine_blocked)"], "client_sends": client_sends,
                             "declared": decl, "body": body, "shape": shape,
                             "deliveries": [(sid, d.hex(), f) for sid, d, f in msg + late]},
                            {"oracle": "content-length", "rule": "mismatch"})
                    if got == decl and (rq.closed is not None or not ended):
                        ctx.witness(f"QPACK-blocked {shape} message with matching content-length {decl}: closed={rq.closed}, ended events={len(ended)}",
                                    {"ops": [], "client_sends": client_sends, "declared": decl, "body": body, "shape": shape},
                                    {"oracle": "stream-end", "rule": "blocked-good-message-lost"})
    ctx.notes["genuine_encoder_messages_with_late_encoder_stream"] = n_blocked


# ------------------------------------------------------------------ the check
def run_function_lines(ctx, name, lines, Impl):
    impl = Impl()
    outs = [impl.step(l) for l in lines]
    seen_sig = set()
    for l, o in zip(lines, outs):
        ctx.count(l, o.startswith("ok") and l.startswith("h3v.headers") and l.count(",") >= 1)
        p = oracle_function(l, o)
        if p:
            key = tuple(sorted(p[1].items()))
            if key in seen_sig:
                continue          # one witness per distinct rule and generator
            seen_sig.add(key)
            ctx.witness(p[0], {"ops": [l], "impl_output": [o]}, p[1])
    model = lean.run_driver(lines)
    cases = [[l] for l in lines]
    for m in core.diff_streams(ctx, name, cases, outs, model)[:3]:
        if m[0] >= 0:
            ctx.disagreement(name, cases[m[0]], m[3], m[2], m[1])
    ctx.cov["traces_validated_against_impl"] += len(lines)
    return outs


def run_stream_cases(ctx, name, cases, Impl):
    impl_lines = []
    seen_sig = set()
    for case in cases:
        impl = Impl()
        outs = [impl.step(l) for l in case]
        impl_lines += outs
        ctx.count(tuple(case), any("end=1" in o for o in outs) or any(o.startswith("err") for o in outs))
        for what, sig in oracle_stream(case, outs):
            key = tuple(sorted(sig.items()))
            if key in seen_sig:
                continue          # one witness per distinct rule and generator
            seen_sig.add(key)
            ctx.witness(what, {"ops": case, "impl_output": outs}, sig)
    model = lean.run_driver([l for c in cases for l in c])
    for m in core.diff_streams(ctx, name, cases, impl_lines, model)[:3]:
        if m[0] >= 0:
            ctx.disagreement(name, cases[m[0]][: m[1] + 1], m[3], m[2], m[1])
    ctx.cov["traces_validated_against_impl"] += len(cases)


def replay(path):
    """re-run the ops of a replay file on the implementation and the model; 1 if the problem shows again"""
    import json
    tree.activate()
    from harness.impl_h3validate import H3ValidateImpl
    j = json.load(open(path))
    ops = j.get("replay", {}).get("ops") or (j.get("broken") or [{}])[0].get("ops") or []
    impl = H3ValidateImpl()
    outs = [impl.step(l) for l in ops]
    model = lean.run_driver(ops)
    bad = 0
    for l, o, m in zip(ops, outs, model):
        print(f"{l}\n   impl : {o}\n   model: {m}")
        bad |= o != m
        p = oracle_function(l, o)
        if p:
            print("ORACLE:", p[0])
            bad = 1
    for what, sig in oracle_stream(ops, outs):
        print("ORACLE:", what, sig)
        bad = 1
    return 1 if bad else 0


def main(tier):
    ctx = core.Ctx("C15", tier)
    tree.activate()
    from harness.impl_h3validate import H3ValidateImpl

    ctx.prove(["AQ.Props.C15"], [])
    ctx.cov["trusted_base"] = [
        "Lean 4.33.0 kernel (+ leanchecker in thorough tier)",
        "axioms: subset of {propext, Classical.choice, Quot.sound} (audited by #print axioms)",
        "hand-written model AQ.Model.H3Validate tied by differential correspondence (this run) to h3/connection.py validators, "
        "CPython int(bytes) and the request/push stream receive path of a real H3Connection",
        "pylsqpack (QPACK) is outside the model: stream steps take the decoded header list; ls-qpack cannot carry an empty list or an empty name",
        "harness/impl_h3validate.py canonicalisation",
    ]
    ctx.assumptions = [
        "sys.get_int_max_str_digits() is CPython's default 4300",
        "stream ops describe well-framed input: complete HEADERS/PUSH_PROMISE frames, DATA frames possibly split; QPACK never blocks (no dynamic table)",
    ]
    r = rng.make("c15")
    thorough = tier == "thorough"

    lines = gen_chars()
    run_function_lines(ctx, "chars", lines, H3ValidateImpl)
    ctx.sample({"chars": lines[6]})
    lines = gen_small_lists(r, thorough)
    run_function_lines(ctx, "small-lists", lines, H3ValidateImpl)
    ctx.sample({"small-lists": lines[len(lines) // 2]})
    lines = gen_pseudo(thorough)
    run_function_lines(ctx, "pseudo", lines, H3ValidateImpl)
    ctx.sample({"pseudo": lines[len(lines) // 3]})
    lines = gen_int(thorough)
    run_function_lines(ctx, "int", lines, H3ValidateImpl)
    ctx.sample({"int": lines[3]})
    lines = gen_random_lists(r, 20000 if not thorough else 400000)
    run_function_lines(ctx, "random-lists", lines, H3ValidateImpl)
    ctx.sample({"random-lists": lines[0]})

    cases = gen_content_length(thorough)
    run_stream_cases(ctx, "content-length", cases, H3ValidateImpl)
    ctx.sample({"content-length": cases[len(cases) // 2]})
    cases = gen_random_streams(r, 4000 if not thorough else 80000)
    run_stream_cases(ctx, "random-streams", cases, H3ValidateImpl)
    ctx.sample({"random-streams": cases[0]})
    # stream-level replays of small header lists through real QPACK frames
    one = [h for h in small_headers(2) if h[0]]
    cases = []
    for h in one:
        for (c, p) in ((0, 0), (1, 0)):
            base = RESP if c else REQ[:1] + REQ[2:3]
            cases.append([f"h3v.new {c} {p}", f"h3v.hdr {fmt_headers(base + [h])} 1"])
            cases.append([f"h3v.new {c} {p}", f"h3v.hdr {fmt_headers(base)} 0", f"h3v.hdr {fmt_headers([h])} 1"])
        cases.append(["h3v.new 1 0", f"h3v.pp {fmt_headers(REQ + [h])} 0"])
    run_stream_cases(ctx, "stream-small-lists", cases, H3ValidateImpl)
    cases = gen_late_pseudo_streams()
    run_stream_cases(ctx, "stream-late-pseudo", cases, H3ValidateImpl)
    cases = gen_blocked_streams(thorough)
    run_stream_cases(ctx, "stream-blocked", cases, H3ValidateImpl)
    ctx.sample({"stream-blocked": cases[0]})
    genuine_blocked(ctx, thorough)

    ctx.cov["rule"] = (
        "validators: all 256 bytes in names/values (alone, after a valid byte, inside each of the 4 kinds), all strings of <=3 boundary bytes, "
        "all single headers with <=3 boundary bytes and pairs of headers with <=2 (sampled in quick, exhaustive in thorough) bare and after the kind's "
        "valid pseudo-headers, all sequences of <=4 (thorough 5) of 7 pseudo-headers + 1 regular header for the 4 kinds, all orders of all subsets of "
        "method/scheme/authority/path x scheme/authority/path values, int(bytes) on all strings of <=4 (5) bytes over a 13-byte alphabet, random lists; "
        "streams: every content-length spelling x body totals x every delivery path (DATA whole/split/fragment shortcut/lone FIN/trailers/FIN inside a frame/"
        "FIN after PUSH_PROMISE or unknown frame) and every declared x delivered x trailer-content-length combination for request, response and push streams through real QPACK frames, random op sequences. "
        "Non-trivial = accepted list of >=2 headers, or a stream trace with an ended event or an error; distinct by op hash."
    )
    ctx.cov["exhaustive"] = True
    return ctx.finish()
