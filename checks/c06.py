"""C06 — the sender never exceeds the peer's flow-control and stream-count limits.

proof:   AQ.Props.C06 (invariants of AQ.Model.FlowSend/FlowRecv over all op
         sequences: credit ledger, per-stream and connection limit, stream
         count at emission, retransmissions free, progress after a raise)
tie:     the op lines observed on a REAL QuicConnection (harness/impl_flow.py
         wraps every modelled function of connection.py, after a real
         handshake through harness/sim.py) are replayed on the compiled model
         and the projected state compared after every call
oracle:  SendOracle — decrypted frames the endpoint emitted against the limits
         it had received (transport parameters + MAX_* frames that
         authenticated), ledger `_remote_max_data_used == Σ highest`, progress
         after every limit is raised
"""
import itertools

from harness import core, rng, tree

from . import flow_common as fc


# ------------------------------------------------------------- generators
def small_alphabet():
    return [
        ("send", 0, 2, False), ("send", 0, 1, True), ("send", 4, 2, False), ("send", 2, 2, True),
        ("reset", 0), ("tx",), ("ackall",), ("lose",),
        ("md+",), ("msd0+",), ("ms+",),
    ]


def concretise(script, tp):
    """turn relative limit raises into absolute frames (peer raises by 1 or 2)"""
    md, msd, ms = tp["max_data"], {}, tp["streams_bidi"]
    out = []
    for a in script:
        if a[0] == "md+":
            md += 2
            out.append(("md", md))
        elif a[0] == "msd0+":
            msd[0] = msd.get(0, tp["bidi_remote"]) + 1
            out.append(("msd", 0, msd[0]))
        elif a[0] == "ms+":
            ms += 1
            out.append(("ms", 0, ms))
        else:
            out.append(a)
    return out


def exhaustive_cases(k, configs):
    alpha = small_alphabet()
    for (d, m, b) in configs:
        cfg = {"seed": 1, "e_is_client": True, "p_opts": {"max_data": d, "max_stream_data": m}, "p_streams": (b, 1)}
        tp = {"max_data": d, "bidi_remote": m, "streams_bidi": b}
        for seq in itertools.product(alpha, repeat=k):
            yield cfg, concretise(list(seq), tp)


def random_script(r, e_is_client, tp, n_ops):
    """PRNG schedule of writes, limit updates, acks, losses, timers; the peer
    raises limits by small steps so that E sits at a limit most of the time"""
    mine = [0, 4, 8, 2, 6] if e_is_client else [1, 5, 9, 3, 7]
    theirs = [1, 5] if e_is_client else [0, 4]
    md = tp["max_data"]
    msd = {}
    ms = {0: tp["streams_bidi"], 1: tp["streams_uni"]}
    opened_theirs = []
    script = []
    for _ in range(n_ops):
        x = r.random()
        if x < 0.22:
            sid = r.choice(mine + opened_theirs) if r.random() < 0.9 else r.choice(theirs + [2 if not e_is_client else 3])
            script.append(("send", sid, r.choice([0, 1, 1, 2, 3, 5, 9, 40]), r.random() < 0.15))
        elif x < 0.27:
            script.append(("reset", r.choice(mine + opened_theirs)))
        elif x < 0.30:
            script.append(("stop", r.choice(mine[:3] + opened_theirs)))
        elif x < 0.50:
            script.append(("tx",))
        elif x < 0.58:
            if r.random() < 0.03:
                # extreme values: 2^62-1 bytes, 2^60 and 2^60+1 streams (the latter is a frame encoding error)
                script.append(r.choice([("md", (1 << 62) - 1), ("msd", r.choice(mine), (1 << 62) - 1),
                                        ("ms", r.choice([0, 1]), 1 << 60), ("ms", r.choice([0, 1]), (1 << 60) + 1)]))
                if script[-1][0] == "md":
                    md = (1 << 62) - 1
                continue
            md = min(md + r.choice([0, 1, 1, 2, 3, 10]), (1 << 62) - 1)
            script.append(("md", md if r.random() < 0.9 else max(0, md - r.randrange(5))))
        elif x < 0.68:
            sid = r.choice(mine + opened_theirs)
            init = tp["uni"] if sid & 2 else tp["bidi_remote"] if sid in mine else tp["bidi_local"]
            msd[sid] = min(msd.get(sid, init) + r.choice([0, 1, 1, 2, 5]), (1 << 62) - 1)
            script.append(("msd", sid, msd[sid] if r.random() < 0.9 else max(0, msd[sid] - r.randrange(4))))
        elif x < 0.74:
            u = r.choice([0, 0, 1])
            ms[u] += r.choice([0, 1, 1, 2])
            script.append(("ms", u, ms[u]))
        elif x < 0.84:
            script.append(r.choice([("ackall",), ("acknewest",), ("ackall",)]))
        elif x < 0.90:
            script.append(("lose",))
        elif x < 0.93:
            script.append(("timer",))
        elif x < 0.95:
            script.append(("adv", r.choice([0.001, 0.05, 0.4])))
        elif x < 0.98:
            sid = r.choice(theirs)
            if sid not in opened_theirs:
                opened_theirs.append(sid)
            script.append(("pstream", sid, 0, r.choice([0, 1, 3]), r.random() < 0.3))
        else:
            script.append(("pstop", r.choice(mine[:3] + opened_theirs)))
    return script


def random_cfg(r, i):
    e_is_client = r.random() < 0.6
    return {
        "seed": i, "e_is_client": e_is_client,
        "p_opts": {"max_data": r.choice([0, 1, 2, 3, 5, 20, 1000]), "max_stream_data": r.choice([0, 1, 2, 3, 8, 1000])},
        "p_streams": (r.choice([0, 1, 2, 3, 128]), r.choice([0, 1, 2, 128])),
        "e_opts": {"max_data": r.choice([10, 1000]), "max_stream_data": r.choice([10, 1000])},
    }


# ------------------------------------------------------------- evaluation
def evaluate(ctx, name, cfg, script, res, cases, impl_outs, drain):
    pu = res["pu"]
    if not res.get("handshake"):
        ctx.broken.append({"kind": "harness", "error": "handshake failed", "cfg": cfg})
        return
    so = pu.send_oracle
    replay = {"cfg": cfg, "script": script, "drain": drain}
    for p in so.problems[:1]:
        ctx.witness(p, replay, {"oracle": "wire-send"})
    for p in fc.ledger_problems(pu.obs.outs)[:1]:
        ctx.witness(p, replay, {"oracle": "ledger"})
    for p in res["progress"][:1]:
        ctx.witness(p, replay, {"oracle": "progress"})
    for ex in pu.E.raised:
        if type(ex[1]).__name__ not in ("ValueError", "AssertionError"):
            ctx.notes.setdefault("unexpected_exceptions", []).append(f"{ex[0]}: {ex[1]!r}")
    cases.append(pu.obs.lines)
    impl_outs.append(pu.obs.outs)
    ctx.__dict__.setdefault("flow_inputs", {})[id(pu.obs.lines)] = (cfg, script)
    fc.note_hyp(ctx, pu.obs)
    nontrivial = so.at_limit > 0 and (so.retransmissions > 0 or res["unblocked"])
    ctx.count((name, repr(cfg), repr(script)), nontrivial)
    for k in ("frames_checked", "retransmissions", "at_limit"):
        ctx.notes[k] = ctx.notes.get(k, 0) + getattr(so, k)
    if res["unblocked"]:
        ctx.notes["unblocked_cases"] = ctx.notes.get("unblocked_cases", 0) + 1


def gen_two_real(r):
    n_act = r.randrange(20, 120)
    acts = []
    for _ in range(n_act):
        x = r.random()
        if x < 0.3:
            side = r.choice(["client", "server"])
            ids = [0, 4, 8, 2, 1, 5, 3] if side == "client" else [1, 5, 9, 3, 0, 4, 2]
            acts.append(("send", side, r.choice(ids), r.choice([0, 1, 2, 7, 30, 200]), r.random() < 0.2))
        elif x < 0.35:
            acts.append(("reset", r.choice(["client", "server"]), r.choice([0, 4, 1, 5, 2, 3])))
        else:
            acts.append(("step",))
    return {"two_real": True, "seed": r.randrange(1 << 30),
            "client_options": {"max_data": r.choice([1, 5, 50, 1000]), "max_stream_data": r.choice([1, 4, 30, 1000])},
            "server_options": {"max_data": r.choice([1, 5, 50, 1000]), "max_stream_data": r.choice([1, 4, 30, 1000])},
            "client_streams": [r.choice([1, 2, 128]), r.choice([0, 1, 128])],
            "server_streams": [r.choice([1, 2, 128]), r.choice([0, 1, 128])], "acts": acts}


def exec_two_real(p):
    """both endpoints real, adversarial network (deterministic given `p`): each
    sender is checked by its own SendOracle; a real (C06-compliant) sender must
    never be accused by the real receiver.  Returns (problems, observers, oracles)."""
    from harness import sim as simmod
    from harness.impl_flow import FlowObserver, PacketLog, SendOracle, fast_certs, limits_of, set_stream_count_limits
    fast_certs()
    log = PacketLog()
    s = simmod.Sim(p["seed"], client_options=dict(p["client_options"]), server_options=dict(p["server_options"]), monitors=[log])
    set_stream_count_limits(s.client.conn, *p["client_streams"])
    set_stream_count_limits(s.server.conn, *p["server_streams"])
    tpc, tps = limits_of(s.client.conn), limits_of(s.server.conn)
    oc, os_ = FlowObserver(s.client.conn, name="client"), FlowObserver(s.server.conn, name="server")
    orc, ors = SendOracle("client", True, tps), SendOracle("server", False, tpc)
    log.listeners += [orc, ors]
    problems = []
    try:
        if not s.handshake():
            return None
        eps = {"client": s.client, "server": s.server}
        for a in p["acts"]:
            a = tuple(a)
            if a[0] == "send":
                s.api(eps[a[1]], "send_stream_data", a[2], bytes(a[3]), a[4])
                s.transmit(eps[a[1]])
            elif a[0] == "reset":
                s.api(eps[a[1]], "reset_stream", a[2], 1)
                s.transmit(eps[a[1]])
            else:
                s.adversarial_step(p_drop=0.2, p_dup=0.05)
        s.fair_phase(max_steps=300, done=lambda: not s.pending and all(
            c.conn._loss.bytes_in_flight == 0 for c in s.endpoints))
    finally:
        s.close_taps()
    for o, ob in ((orc, oc), (ors, os_)):
        for q in o.problems[:1]:
            problems.append((q, {"oracle": "wire-send"}))
        for q in fc.ledger_problems(ob.outs)[:1]:
            problems.append((q, {"oracle": "ledger"}))
    for ep in s.endpoints:
        ce = ep.conn._close_event
        if ce is not None and int(ce.error_code) in (3, 4, 6):
            problems.append((f"{ep.name} accused its real (aioquic) peer: close code {int(ce.error_code)} {ce.reason_phrase!r}",
                             {"oracle": "real-peer-accused"}))
    return problems, (oc, os_), (orc, ors)


def two_real(ctx, r, n, cases, impl_outs):
    for i in range(n):
        p = gen_two_real(r)
        res = exec_two_real(p)
        if res is None:
            continue
        problems, obs, oracles = res
        for what, sig in problems:
            ctx.witness(what, p, sig)
        for o, ob in zip(oracles, obs):
            fc.note_hyp(ctx, ob)
            cases.append(ob.lines)
            impl_outs.append(ob.outs)
            ctx.count(("two-real", p["seed"], ob.name), o.at_limit > 0 and o.retransmissions > 0)
            for k in ("frames_checked", "retransmissions", "at_limit"):
                ctx.notes[k] = ctx.notes.get(k, 0) + getattr(o, k)


def gen_zero_rtt(r):
    l1 = {"max_data": r.choice([0, 1, 3, 10]), "max_stream_data": r.choice([0, 1, 2, 5])}
    l2 = {"max_data": l1["max_data"] + r.choice([0, 1, 5]), "max_stream_data": l1["max_stream_data"] + r.choice([0, 1, 4])}
    sc1 = [r.choice([0, 1, 2]), r.choice([0, 1])]
    sc2 = [sc1[0] + r.choice([0, 1]), sc1[1] + r.choice([0, 1])]
    early = [("send", r.choice([0, 4, 2, 8]), r.choice([0, 1, 2, 3, 7]), r.random() < 0.3) for _ in range(r.randrange(1, 6))]
    acts = []
    for _ in range(r.randrange(10, 60)):
        if r.random() < 0.25:
            acts.append(("send", r.choice([0, 4, 2, 8, 12]), r.choice([0, 1, 2, 9]), r.random() < 0.2))
        else:
            acts.append(("step",))
    return {"zero_rtt": True, "seed": r.randrange(1 << 30), "l1": l1, "l2": l2, "sc1": sc1, "sc2": sc2,
            "early": early, "acts": acts}


def exec_zero_rtt(p):
    """0-RTT with remembered limits (deterministic given `p`): a first connection
    obtains a session ticket (the server's limits L1 are remembered with it); on
    the second connection the client writes before the handshake completes, i.e.
    under the remembered limits, then receives the real transport parameters
    L2 >= L1.  Returns (problems, observer, oracle, early_frames) or None."""
    from harness import sim as simmod
    from harness.impl_flow import FlowObserver, PacketLog, SendOracle, fast_certs, limits_of, set_stream_count_limits
    fast_certs()
    l1, l2, sc1, sc2, seed = p["l1"], p["l2"], p["sc1"], p["sc2"], p["seed"]
    tickets = {}
    saved = []
    s1 = simmod.Sim(seed, client_options={}, server_options=dict(l1))
    set_stream_count_limits(s1.server.conn, *sc1)
    s1.client.conn._session_ticket_handler = saved.append
    s1.server.conn._session_ticket_handler = lambda t: tickets.__setitem__(t.ticket, t)
    try:
        ok = s1.handshake() and s1.fair_phase(max_steps=60, done=lambda: bool(saved))
    finally:
        s1.close_taps()
    if not ok or not saved:
        return None
    log = PacketLog()
    s = simmod.Sim(seed + 1, client_options={"session_ticket": saved[-1]}, server_options=dict(l2), monitors=[log])
    set_stream_count_limits(s.server.conn, *sc2)
    s.server.conn._session_ticket_fetcher = lambda label: tickets.pop(label, None)
    remembered = {"max_data": l1["max_data"], "bidi_local": l1["max_stream_data"], "bidi_remote": l1["max_stream_data"],
                  "uni": l1["max_stream_data"], "streams_bidi": sc1[0], "streams_uni": sc1[1]}
    oc = FlowObserver(s.client.conn, name="client")
    orc = SendOracle("client", True, remembered)
    log.listeners.append(orc)
    early = 0
    try:
        s.api(s.client, "connect", simmod.SERVER_ADDR, now=s.now)
        for a in p["early"]:
            s.api(s.client, "send_stream_data", a[1], bytes(a[2]), a[3])
        s.transmit(s.client)
        early = sum(1 for ep, pn, fr in log.built.get("client", []) if ep == "ZERO_RTT"
                    for f in fr if f["name"] == "STREAM")
        # from here on the real parameters L2 (>= L1) are in force as soon as they arrive
        real = limits_of(s.server.conn)
        for k in orc.tp:
            orc.tp[k] = max(orc.tp[k], real[k])
        orc.max_data = max(orc.max_data, real["max_data"])
        orc.max_streams = {False: max(orc.max_streams[False], real["streams_bidi"]),
                           True: max(orc.max_streams[True], real["streams_uni"])}
        for a in p["acts"]:
            if a[0] == "send":
                s.api(s.client, "send_stream_data", a[1], bytes(a[2]), a[3])
                s.transmit(s.client)
            else:
                s.adversarial_step(p_drop=0.15, p_dup=0.05)
        s.fair_phase(max_steps=300, done=lambda: not s.pending and s.client.conn._loss.bytes_in_flight == 0)
    finally:
        s.close_taps()
    problems = [(q, {"oracle": "wire-send-0rtt"}) for q in orc.problems[:1]]
    problems += [(q, {"oracle": "ledger"}) for q in fc.ledger_problems(oc.outs)[:1]]
    ce = s.server.conn._close_event
    if ce is not None and int(ce.error_code) in (3, 4, 6):
        problems.append((f"server accused the 0-RTT client: close code {int(ce.error_code)} {ce.reason_phrase!r}",
                         {"oracle": "real-peer-accused"}))
    return problems, oc, orc, early


def gen_lowered(r):
    """0-RTT where the server's handshake parameters are SMALLER than the remembered ones: the server
    accepts the early data (forbidden by RFC 9000 7.4.1: the client must refuse) or rejects it (allowed)"""
    l1 = {"max_data": r.choice([2000, 10000]), "max_stream_data": r.choice([1000, 5000])}
    which = r.choice(["max_data", "max_stream_data", "streams", "all"])
    l2, sc1, sc2 = dict(l1), [4, 4], [4, 4]
    if which in ("max_data", "all"):
        l2["max_data"] = r.choice([0, 10, 100])
    if which in ("max_stream_data", "all"):
        l2["max_stream_data"] = r.choice([0, 5, 50])
    if which in ("streams", "all"):
        sc2 = [1, 1]
    early = [("send", sid, r.choice([300, 700]), False) for sid in r.sample([0, 4, 2, 8], r.randrange(0, 4))]
    later = [("send", r.choice([0, 4, 2, 8, 12, 6]), r.choice([100, 400, 3000]), False) for _ in range(r.randrange(1, 5))]
    return {"lowered": True, "seed": r.randrange(1 << 30), "l1": l1, "l2": l2, "sc1": sc1, "sc2": sc2,
            "early": early, "later": later, "which": which, "reject": r.random() < 0.4,
            "lose_early": r.random() < 0.6}


CLOSE_ONLY = {"TRANSPORT_CLOSE", "APPLICATION_CLOSE", "PADDING"}


def exec_lowered(p):
    """deterministic given `p`: a first connection obtains a ticket under L1; on the second the client writes
    0-RTT data under the remembered L1; the server (limits L2 below L1) accepts the early data, or rejects it
    (`reject`: it no longer knows the ticket); the 0-RTT datagrams may be lost.  Oracle = the property, on the
    wire: in every packet the client builds AFTER it has processed the server's handshake parameters, no
    STREAM / RESET_STREAM byte lies beyond the latest per-stream limit, the highest offsets sum up within the
    latest connection limit, no frame is for a stream beyond the latest stream count (latest = handshake
    parameters and MAX_* frames the server put on the wire); an open connection whose 0-RTT data was accepted
    never has sent more than the latest connection limit; after a close nothing but CONNECTION_CLOSE."""
    from harness import sim as simmod
    from harness.impl_flow import FlowObserver, PacketLog, fast_certs, set_stream_count_limits
    fast_certs()
    l1, l2, sc1, sc2, seed = p["l1"], p["l2"], p["sc1"], p["sc2"], p["seed"]
    tickets, saved = {}, []
    s1 = simmod.Sim(seed, client_options={}, server_options=dict(l1))
    set_stream_count_limits(s1.server.conn, *sc1)
    s1.client.conn._session_ticket_handler = saved.append
    s1.server.conn._session_ticket_handler = lambda t: tickets.__setitem__(t.ticket, t)
    try:
        ok = s1.handshake() and s1.fair_phase(max_steps=60, done=lambda: bool(saved))
    finally:
        s1.close_taps()
    if not ok or not saved:
        return None
    log = PacketLog()
    s = simmod.Sim(seed + 1, client_options={"session_ticket": saved[-1]}, server_options=dict(l2), monitors=[log])
    set_stream_count_limits(s.server.conn, *sc2)
    s.server.conn._session_ticket_fetcher = (lambda label: None) if p.get("reject") else (lambda label: tickets.pop(label, None))
    c = s.client.conn
    oc = FlowObserver(c, name="client")
    problems = []

    class Latest:
        """the latest limits the client has received, in the order of the events on the wire"""
        def __init__(self):
            self.active = False       # the server's handshake parameters have been processed
            self.closed = False
            self.hi = {}              # highest offsets that count (0-RTT data counts once it is accepted)
            self.early = {}
            self.msd, self.md, self.ms = {}, l2["max_data"], {False: sc2[0], True: sc2[1]}

        def on_auth(self, name, epoch, pn, frames):
            if name != "client":
                return
            for f in frames:
                if f["name"] == "MAX_STREAM_DATA":
                    self.msd[f["stream_id"]] = max(self.msd.get(f["stream_id"], 0), f["value"])
                elif f["name"] == "MAX_DATA":
                    self.md = max(self.md, f["value"])
                elif f["name"] in ("MAX_STREAMS_BIDI", "MAX_STREAMS_UNI"):
                    self.ms[f["name"].endswith("UNI")] = max(self.ms[f["name"].endswith("UNI")], f["value"])

        def on_built(self, name, epoch, pn, frames):
            if name != "client":
                return
            names = {f["name"] for f in frames}
            if self.closed and not names <= CLOSE_ONLY:
                problems.append((f"packet {pn} built after the connection was closed carries {sorted(names - CLOSE_ONLY)}", None))
            if names & {"TRANSPORT_CLOSE", "APPLICATION_CLOSE"}:
                self.closed = True
            for f in frames:
                if f["name"] not in ("STREAM", "RESET_STREAM"):
                    continue
                sid = f["stream_id"]
                end = f["final_size"] if f["name"] == "RESET_STREAM" else f["offset"] + len(f["data"])
                if not self.active:
                    self.early[sid] = max(self.early.get(sid, 0), end)
                    continue
                self.hi[sid] = max(self.hi.get(sid, 0), end)
                lim = max(l2["max_stream_data"], self.msd.get(sid, 0))
                what = "accepted" if c.tls.early_data_accepted else "rejected"
                head = f"{epoch} packet {pn} built after the server's handshake parameters (0-RTT {what}): "
                # the recorded finding C06-0rtt-rejected-limits is about streams OPENED IN 0-RTT (their remembered per-stream
                # limit / unblocked state survives the rejection); anything else - a stream opened after the handshake, the
                # connection limit, a run without early data - is the latest limits simply not being applied
                known = (not c.tls.early_data_accepted) and sid in self.early
                tag = "0rtt-rejected" if known else None
                if end > lim:
                    problems.append((head + f"{f['name']} on stream {sid} up to offset {end} beyond the latest per-stream limit {lim} "
                                     f"(remembered: {l1['max_stream_data']}; stream {'opened in 0-RTT' if sid in self.early else 'opened after the handshake'})", tag))
                elif sid // 4 >= self.ms[bool(sid & 2)]:
                    problems.append((head + f"{f['name']} on stream {sid} beyond the latest stream count {self.ms[bool(sid & 2)]} "
                                     f"(remembered: {sc1}; stream {'opened in 0-RTT' if sid in self.early else 'opened after the handshake'})", tag))
                elif sum(self.hi.values()) > self.md:
                    problems.append((head + f"sum of highest offsets {sum(self.hi.values())} beyond the latest connection limit {self.md} "
                                     f"(remembered: {l1['max_data']})", None))

    lat = Latest()
    log.listeners.append(lat)
    inner = c._parse_transport_parameters

    def parse_tp(data, from_session_ticket=False):
        try:
            inner(data, from_session_ticket=from_session_ticket)
        finally:
            if not from_session_ticket:
                lat.active = True
                if c.tls.early_data_accepted:      # what was sent in 0-RTT counts: the server accepted it
                    lat.hi = dict(lat.early)
    c._parse_transport_parameters = parse_tp
    try:
        s.api(s.client, "connect", simmod.SERVER_ADDR, now=s.now)
        s.transmit(s.client)                      # the Initial packet
        keep = len(s.pending)
        for a in p["early"]:
            s.api(s.client, "send_stream_data", a[1], bytes(a[2]), a[3])
        s.transmit(s.client)
        if p.get("lose_early", True):
            del s.pending[keep:]                  # every 0-RTT datagram is lost
        s.fair_phase(max_steps=300, done=lambda: c._handshake_complete or c._close_event is not None)
        for a in p["later"]:
            s.api(s.client, "send_stream_data", a[1], bytes(a[2]), a[3])
            s.transmit(s.client)
        s.fair_phase(max_steps=400, done=lambda: not s.pending and (c._close_event is not None or c._loss.bytes_in_flight == 0))
    finally:
        s.close_taps()
    accepted = bool(c.tls.early_data_accepted)
    ce = c._close_event
    if accepted and lat.active and ce is None and sum(lat.hi.values()) > lat.md:
        problems.append((f"0-RTT accepted, the connection stays open although the bytes sent ({sum(lat.hi.values())}) exceed the latest "
                         f"connection limit {lat.md} of the server's handshake parameters (remembered: {l1['max_data']})", None))
    if not accepted and lat.active and ce is None and s.server.conn._close_event is None:
        # 0-RTT rejected: the server received nothing of it; what the latest limits allow must get through
        delivered = sum(st.receiver.highest_offset for st in s.server.conn._streams.values())
        written = {a[1] for a in p["early"] + p["later"] if a[2] > 0}
        allowed = [sid for sid in written if sid // 4 < lat.ms[bool(sid & 2)]
                   and min(lat.md, max(l2["max_stream_data"], lat.msd.get(sid, 0))) > 0]
        if delivered == 0 and allowed:
            # the recorded finding explains a stall only when rejected 0-RTT bytes are counted against the new limit
            problems.append((f"0-RTT rejected: no stream byte reaches the server although its limits (connection {lat.md}, stream "
                             f"{l2['max_stream_data']}, count {sc2}) allow data on streams {sorted(allowed)} "
                             f"(bytes sent in 0-RTT: {sum(lat.early.values())}; used {c._remote_max_data_used}, limit {c._remote_max_data})",
                             "0rtt-rejected" if sum(lat.early.values()) > 0 else None))
    state = {"closed": None if ce is None else int(ce.error_code), "accepted": accepted,
             "remote_max_data": c._remote_max_data, "used": c._remote_max_data_used}
    default = "server-lowered-params" if accepted else "latest-limits-not-applied"
    out, seen = [], set()
    for q, tag in problems:                    # the first problem of every cause
        cause = tag or default
        if cause not in seen:
            seen.add(cause)
            out.append((q, {"oracle": "wire-send-0rtt", "cause": cause}))
    return out, oc, state


def lowered_params(ctx, r, n, cases, impl_outs):
    """section 5: the server's handshake parameters are below the remembered ones"""
    base = {"lowered": True, "seed": 77, "l1": {"max_data": 10000, "max_stream_data": 5000}, "sc1": [4, 4], "sc2": [4, 4],
            "early": [("send", 0, 3000, False), ("send", 4, 2000, False)], "later": [("send", 0, 1000, False)],
            "which": "directed", "reject": False, "lose_early": True}
    directed = [dict(base, l2={"max_data": 10000, "max_stream_data": 50}),
                dict(base, l2={"max_data": 100, "max_stream_data": 5000}),
                dict(base, l2={"max_data": 10000, "max_stream_data": 5000}, sc2=[1, 1]),
                dict(base, l2={"max_data": 10000, "max_stream_data": 50}, reject=True, lose_early=False),
                dict(base, l2={"max_data": 10000, "max_stream_data": 5000}, sc2=[1, 1], reject=True),
                # resumed x rejected x NO early data x writes only after the handshake: the latest limits apply
                dict(base, l2={"max_data": 20000, "max_stream_data": 1000}, l1={"max_data": 20000, "max_stream_data": 8000},
                     reject=True, early=[], later=[("send", 0, 7004, False)]),
                dict(base, l2={"max_data": 500, "max_stream_data": 5000}, reject=True, early=[], later=[("send", 0, 3000, False)]),
                dict(base, sc2=[1, 1], l2={"max_data": 10000, "max_stream_data": 5000}, reject=True, early=[],
                     later=[("send", 0, 100, False), ("send", 8, 100, False), ("send", 6, 100, False)]),
                # ... and with early data on one stream: the streams opened AFTER the handshake still obey the latest limits
                dict(base, l2={"max_data": 10000, "max_stream_data": 50}, reject=True, lose_early=False,
                     early=[("send", 0, 300, False)], later=[("send", 4, 3000, False), ("send", 2, 3000, False)]),
                dict(base, l2={"max_data": 10000, "max_stream_data": 50}, reject=False, early=[],
                     later=[("send", 0, 3000, False)])]
    closed = refused = 0
    for i in range(n):
        p = directed[i] if i < len(directed) else gen_lowered(r)
        res = exec_lowered(p)
        if res is None:
            ctx.broken.append({"kind": "harness", "error": "no session ticket obtained", "seed": p["seed"]})
            continue
        problems, oc, state = res
        for what, sig in problems:
            ctx.witness(what, p, sig)
        cases.append(oc.lines)
        impl_outs.append(oc.outs)
        refused += state["closed"] == 10
        ctx.count(("0rtt-lowered", repr(p)), state["closed"] == 10 or not state["accepted"])
    ctx.notes["lowered_params_runs"] = n
    ctx.notes["lowered_params_refused_with_protocol_violation"] = refused


def zero_rtt(ctx, r, n, cases, impl_outs):
    for i in range(n):
        p = gen_zero_rtt(r)
        res = exec_zero_rtt(p)
        if res is None:
            ctx.broken.append({"kind": "harness", "error": "no session ticket obtained", "seed": p["seed"]})
            continue
        problems, oc, orc, early = res
        for what, sig in problems:
            ctx.witness(what, p, sig)
        cases.append(oc.lines)
        impl_outs.append(oc.outs)
        fc.note_hyp(ctx, oc)
        ctx.count(("0rtt", p["seed"]), early > 0)
        ctx.notes["zero_rtt_stream_frames"] = ctx.notes.get("zero_rtt_stream_frames", 0) + early
        for k in ("frames_checked", "retransmissions", "at_limit"):
            ctx.notes[k] = ctx.notes.get(k, 0) + getattr(orc, k)


def main(tier):
    ctx = core.Ctx("C06", tier)
    tree.activate()
    ctx.prove(["AQ.Props.C06"], [])
    ctx.cov["trusted_base"] = [
        "Lean 4.33.0 kernel (+ leanchecker in thorough tier)",
        "axioms: subset of {propext, Classical.choice, Quot.sound} (audited by #print axioms)",
        "hand-written model AQ.Model.FlowSend / FlowRecv (on AQ.Model.Stream) tied by differential correspondence (this run) to "
        "connection.py: every modelled function of a real QuicConnection is wrapped by harness/impl_flow.py and replayed on the model",
        "harness/impl_flow.py observation wrappers (instrumented _streams_queue, start_frame outcome as input), harness/sim.py, "
        "harness/inject.py, harness/frames.py (independent RFC 9000 parser) and CPython semantics between compared observations",
    ]
    ctx.assumptions = [
        "stream ids / offsets / limits are non-negative integers (decoded varints)",
        "the packet builder is an input: remaining_flight_space and whether start_frame raises are arbitrary; "
        "remaining_flight_space <= remaining_buffer_space (so start_frame cannot raise after the overhead check of _write_stream_frame)",
        "limits received in MAX_* frames are monotone by construction (the handlers take the max, remote_limits_monotone); transport "
        "parameters: the first application (limits still 0) is monotone by itself; the handshake parameters of a server that ACCEPTED "
        "0-RTT are compared with the remembered ones by the code, which closes with PROTOCOL_VIOLATION when one is smaller "
        "(AQ.Props.C06.invariant_resumed_accepted: no hypothesis on the peer; section 5 of this check drives such servers against "
        "the real client); only for a server that REJECTED 0-RTT are the new parameters assigned without comparison and without "
        "resetting the streams: conn_limit / stream_limit assume they are not below the remembered ones there "
        "(AQ.Props.C06.tp_rejected_counterexample; the real client violates the property in that case, section 5)",
        "delivery reports name frames emitted earlier for that stream and not yet reported (GWFRun; guaranteed by recovery, C08; "
        "validated on every real trace of this run: notes.delivery_reports_checked)",
    ]
    thorough = tier == "thorough"
    r = rng.make("c06")
    cases, impl_outs = [], []

    def search():
        """failing-input search (a correspondence / obligation broke, no witness yet).  Every packet of every
        correspondence run is already judged by the wire oracle (SendOracle), the ledger and - in drained runs - the
        progress oracle.  Order: (0) the inputs on which model and implementation disagreed, re-run DRAINED (every
        limit raised, everything acknowledged: progress oracle) and followed by retransmission pressure (loss, timer);
        (1) the exhaustive enumeration unstrided on more boundary configurations; (2) more PRNG schedules.
        Stops at the first concrete witness, 60 s at most."""
        import time
        t0 = time.time()

        def tryit(name, cfg, script, drain):
            res = fc.run_puppet(cfg, script, drain=drain)
            evaluate(ctx, name, cfg, script, res, [], [], drain)
            return bool(ctx.witnesses) or time.time() - t0 > 60

        for cfg, script in getattr(ctx, "disagreeing_inputs", [])[:200]:
            script = [tuple(a) for a in script]
            for variant, drain in ((script, True), (script + [("lose",), ("adv", 0.4), ("timer",), ("tx",)], True),
                                   (script + [("tx",), ("ackall",), ("adv", 0.1), ("tx",)], False)):
                if tryit("search-disagreeing", cfg, variant, drain):
                    return
        for cfg, script in exhaustive_cases(3, [(d, m, b) for d in (0, 1, 2, 3) for m in (0, 1, 2, 3) for b in (0, 1, 2)]):
            if tryit("search", cfg, script, True):
                return
        rs = rng.make("c06-search")
        for i in range(3000):
            cfg = random_cfg(rs, 7000 + i)
            tp = {"max_data": cfg["p_opts"]["max_data"], "bidi_remote": cfg["p_opts"]["max_stream_data"],
                  "bidi_local": cfg["p_opts"]["max_stream_data"], "uni": cfg["p_opts"]["max_stream_data"],
                  "streams_bidi": cfg["p_streams"][0], "streams_uni": cfg["p_streams"][1]}
            if tryit("search", cfg, random_script(rs, cfg["e_is_client"], tp, rs.choice([20, 60])), rs.random() < 0.5):
                return
    ctx.search = search
    # 1. exhaustive small scope: every sequence of k actions for boundary limits
    configs = [(0, 0, 0), (1, 1, 1), (2, 3, 1), (3, 2, 2)] if not thorough else \
        [(d, m, b) for d in (0, 1, 2, 3) for m in (0, 1, 2, 3) for b in (0, 1, 2)]
    k = 3 if not thorough else 3
    ex = list(exhaustive_cases(k, configs))
    if not thorough:
        ex = ex[:: 4]      # quick: a quarter of the enumeration (stride), all of it in the thorough tier
    for cfg, script in ex:
        res = fc.run_puppet(cfg, script, drain=True)
        evaluate(ctx, "exhaustive", cfg, script, res, cases, impl_outs, True)
    # directed: write / reset on a stream that was finished and discarded (it must not be reopened)
    for e_is_client in (True, False):
        sid = 0 if e_is_client else 1
        cfg = {"seed": 4, "e_is_client": e_is_client, "p_opts": {"max_data": 1000, "max_stream_data": 1000}}
        for last in (("send", sid, 3, False), ("send", sid, 0, True), ("reset", sid)):
            script = [("send", sid, 1, True), ("tx",), ("ackall",), ("pstream", sid, 0, 1, True), ("adv", 0.1), ("tx",),
                      ("adv", 0.1), ("tx",), last, ("adv", 0.1), ("tx",), ("ackall",)]
            res = fc.run_puppet(cfg, script, drain=False)
            evaluate(ctx, "directed", cfg, script, res, cases, impl_outs, False)
    ctx.sample({"exhaustive": {"cfg": ex[len(ex) // 2][0], "script": ex[len(ex) // 2][1]}})
    fc.diff_cases(ctx, "flow-send-exhaustive", cases, impl_outs)
    # 2. PRNG schedules against the puppet peer
    cases, impl_outs = [], []
    for i in range(150 if not thorough else 2500):
        cfg = random_cfg(r, i)
        tp = {"max_data": cfg["p_opts"]["max_data"], "bidi_remote": cfg["p_opts"]["max_stream_data"],
              "bidi_local": cfg["p_opts"]["max_stream_data"], "uni": cfg["p_opts"]["max_stream_data"],
              "streams_bidi": cfg["p_streams"][0], "streams_uni": cfg["p_streams"][1]}
        script = random_script(r, cfg["e_is_client"], tp, r.choice([15, 40, 120]))
        drain = r.random() < 0.7
        res = fc.run_puppet(cfg, script, drain=drain)
        evaluate(ctx, "random", cfg, script, res, cases, impl_outs, drain)
        if i == 0:
            ctx.sample({"random": {"cfg": cfg, "script": script[:10]}})
    fc.diff_cases(ctx, "flow-send-random", cases, impl_outs)
    # 3. two real endpoints over the adversarial network
    cases, impl_outs = [], []
    two_real(ctx, r, 40 if not thorough else 600, cases, impl_outs)
    fc.diff_cases(ctx, "flow-two-real", cases, impl_outs)
    # 4. 0-RTT: writes under the limits remembered with the session ticket
    cases, impl_outs = [], []
    zero_rtt(ctx, r, 25 if not thorough else 400, cases, impl_outs)
    fc.diff_cases(ctx, "flow-zero-rtt", cases, impl_outs)
    # 5. 0-RTT answered with SMALLER transport parameters, early data accepted (the client must refuse) or rejected
    cases, impl_outs = [], []
    lowered_params(ctx, r, 18 if not thorough else 200, cases, impl_outs)
    fc.diff_cases(ctx, "flow-zero-rtt-lowered", cases, impl_outs)
    ctx.cov["rule"] = (
        "real QuicConnection after a real handshake; (1) every sequence of 3 actions from {write on 4 stream kinds, reset, "
        "transmit, ack all, lose, MAX_DATA+2, MAX_STREAM_DATA+1, MAX_STREAMS+1} for peer limits (max_data, max_stream_data, "
        "max_streams) in boundary configurations, followed by raising every limit and draining (progress oracle); (2) PRNG "
        "schedules of writes/resets/stops on all stream types as client and as server with peer limits from {0,1,2,3,...}, "
        "monotone and non-monotone MAX_* updates, acks, packet-threshold losses, timers; (3) two real endpoints over the "
        "adversarial network; (4) 0-RTT under remembered limits with handshake parameters >= them; (5) 0-RTT where the server's "
        "handshake parameters are BELOW the remembered ones (max_data / max_stream_data / stream counts / all), early data "
        "accepted or rejected, 0-RTT datagrams lost or delivered: oracle = the property on the wire after the parameters "
        "arrived + nothing but CONNECTION_CLOSE after a close + progress within the new limits after a rejection "
        "(non-trivial there = refused with PROTOCOL_VIOLATION or early data rejected); resumed x rejected x {no early data, early "
        "data on some streams} x writes only after the handshake / on streams opened after it: the LATEST limits received apply "
        "(only violations on streams that carried 0-RTT data belong to the recorded finding C06-0rtt-rejected-limits). Non-trivial = the wire reached a limit exactly AND (a retransmission was emitted OR a blocked "
        "stream was released by MAX_STREAMS); distinct by (config, script) hash."
    )
    ctx.cov["exhaustive"] = True
    return ctx.finish()


def replay(path):
    """re-execute the failing input of a replay file against the current tree"""
    import json
    tree.activate()
    d = json.load(open(path))
    if d.get("kind") != "impl-witness":
        print("no longer failing: the file records a broken proof/correspondence, not a failing input; rerun ./check C06")
        return 0
    rp = d["replay"]
    if rp.get("two_real"):
        res = exec_two_real(rp)
        probs = [] if res is None else [w for w, _ in res[0]]
    elif rp.get("zero_rtt"):
        res = exec_zero_rtt(rp)
        probs = [] if res is None else [w for w, _ in res[0]]
    elif rp.get("lowered"):
        res = exec_lowered(rp)
        probs = [] if res is None else [w for w, _ in res[0]]
    else:
        script = [tuple(a) for a in rp["script"]]
        cfg = rp["cfg"]
        for key in ("p_streams", "e_streams"):
            if cfg.get(key):
                cfg[key] = tuple(cfg[key])
        res = fc.run_puppet(cfg, script, drain=rp.get("drain", False))
        pu = res["pu"]
        probs = pu.send_oracle.problems + fc.ledger_problems(pu.obs.outs) + res["progress"]
    if probs:
        print("still failing: " + probs[0])
        return 1
    print("no longer failing")
    return 0
