"""C02 — only authentic packets are accepted; altered packets change nothing.

This file is organised in sections, one per clause of the property; each
section is a function `section_xxx(ctx, tier, r)` appended to SECTIONS, and
the Lean modules it relies on are listed in PROP_MODULES.  The packet-protection
and altered-packet clauses live in checks/c02b.py (hooked in below); this file
itself covers the packet-number clause:

  "... and a truncated packet number is always expanded to the candidate
   closest to the next expected number."

proof:   AQ.Props.C02 (pn_decode_closest, pn_roundtrip) about
         AQ.Codec.decodePacketNumber
tie:     T2 correspondence of the compiled model (`codec.pn`) against the real
         aioquic.quic.packet.decode_packet_number on exhaustive bits-scaled
         windows for every width 1..9 plus boundary and random values for the
         wire widths 8/16/24/32
oracle:  (a) RFC 9000 Appendix A.3 pseudo-code transcribed from the RFC;
         (b) brute force from the property text: among all candidates
             congruent to the truncated value in [0, 2^62) the closest to
             `expected`, ties to the larger
"""
from harness import core, rng, runner, tree

PROP_MODULES = ["AQ.Props.C02"]
SECTIONS = []
P62 = 1 << 62


# ------------------------------------------------------------------- oracles
def rfc_a3_decode(largest_pn, truncated_pn, pn_nbits):
    """RFC 9000 A.3 DecodePacketNumber, transcribed"""
    expected_pn = largest_pn + 1
    pn_win = 1 << pn_nbits
    pn_hwin = pn_win // 2
    pn_mask = pn_win - 1
    candidate_pn = (expected_pn & ~pn_mask) | truncated_pn
    if candidate_pn <= expected_pn - pn_hwin and candidate_pn < (1 << 62) - pn_win:
        return candidate_pn + pn_win
    if candidate_pn > expected_pn + pn_hwin and candidate_pn >= pn_win:
        return candidate_pn - pn_win
    return candidate_pn


def closest_candidate(truncated, bits, expected):
    """from the property text: the candidate closest to `expected` among the
    valid packet numbers congruent to `truncated`; ties go up"""
    w = 1 << bits
    base = expected - (expected % w) + truncated
    cands = [c for c in (base - 2 * w, base - w, base, base + w, base + 2 * w) if 0 <= c < P62]
    if not cands:
        return None
    return min(cands, key=lambda c: (abs(c - expected), -c))


def oracle_pn(case, out):
    for op, o in zip(case, out):
        t = op.split()
        if t[0] != "codec.pn":
            continue
        trunc, bits, exp = int(t[1]), int(t[2]), int(t[3])
        if not o.startswith("ok "):
            return (f"decode_packet_number raised on {op!r}: {o}", {"kind": "raise"})
        got = int(o.split()[1])
        if exp >= 1:
            want = rfc_a3_decode(exp - 1, trunc, bits)
            if got != want:
                return (f"{op!r}: got {got}, RFC 9000 A.3 gives {want}", {"kind": "rfc-a3"})
        if exp < P62:
            want = closest_candidate(trunc, bits, exp)
            if want is not None and got != want:
                return (f"{op!r}: got {got}, closest candidate is {want}", {"kind": "closest"})
        if got % (1 << bits) != trunc:
            return (f"{op!r}: result {got} is not congruent to the truncated value", {"kind": "congruence"})
    return None


# ------------------------------------------------------------ packet numbers
def pn_cases_exhaustive(max_bits, spans):
    """every truncated value x every expected in [0, spans*window] for small widths"""
    for bits in range(1, max_bits + 1):
        w = 1 << bits
        for e in range(0, spans * w + 1):
            yield [f"codec.pn {t} {bits} {e}" for t in range(w)]


def pn_cases_boundary():
    for bits in (8, 16, 24, 32):
        w = 1 << bits
        h = w // 2
        ts = sorted({0, 1, 2, h - 2, h - 1, h, h + 1, h + 2, w - 3, w - 2, w - 1})
        ks = [0, 1, 2, 3, P62 // w - 2, P62 // w - 1, P62 // w]
        ds = sorted({0, 1, 2, h - 2, h - 1, h, h + 1, h + 2, w - 2, w - 1})
        for k in ks:
            for d in ds:
                e = k * w + d
                yield [f"codec.pn {t} {bits} {e}" for t in ts]


def pn_cases_roundtrip(r, n):
    """the sender's view: a packet number within the window of `expected` is
    truncated and must be recovered"""
    for _ in range(n):
        bits = r.choice([8, 16, 24, 32])
        w = 1 << bits
        h = w // 2
        e = r.choice([r.randrange(0, 4 * w), r.randrange(0, P62), P62 - 1 - r.randrange(0, 3 * w)])
        case = []
        for _ in range(16):
            pn = e + r.randrange(-h + 1, h + 1)
            if 0 <= pn < P62:
                case.append(f"codec.pn {pn % w} {bits} {e}")
        if case:
            yield case


def pn_cases_random(r, n):
    for _ in range(n):
        case = []
        for _ in range(32):
            bits = r.choice([8, 16, 24, 32, 8, 16, r.randrange(1, 40)])
            w = 1 << bits
            e = r.choice([r.randrange(0, 1 << 20), r.randrange(0, 1 << 40), r.randrange(0, 1 << 64),
                          P62 - r.randrange(0, 2 * w + 2)])
            t = r.choice([r.randrange(w), r.randrange(w), r.randrange(0, 4 * w)])   # also t >= window
            case.append(f"codec.pn {t} {bits} {max(e, 0)}")
        yield case


def oracle_pn_roundtrip(case, out):
    p = oracle_pn(case, out)
    if p:
        return p
    return None


def section_packet_number(ctx, tier, r):
    from harness.impl_codec import CodecImpl
    thorough = tier == "thorough"

    def edge(case, out):
        # non-trivial: the raw candidate had to be moved by a window (result differs from
        # expected-with-low-bits-replaced) or a guard (2^62 / zero) was decisive
        for op, o in zip(case, out):
            t = op.split()
            trunc, bits, exp = int(t[1]), int(t[2]), int(t[3])
            w = 1 << bits
            if trunc < w and o.startswith("ok ") and int(o.split()[1]) != exp - exp % w + trunc:
                return True
        return False

    def in_range_only(case, out):
        # the RFC/closest oracles speak about truncated < window
        keep_c, keep_o = [], []
        for op, o in zip(case, out):
            t = op.split()
            if int(t[1]) < (1 << int(t[2])):
                keep_c.append(op)
                keep_o.append(o)
        return oracle_pn(keep_c, keep_o)

    cases = list(pn_cases_exhaustive(7 if not thorough else 9, 4 if not thorough else 6))
    runner.run_cases(ctx, "pn-exhaustive", cases, CodecImpl, oracle_pn, edge, fresh_impl_per_case=False)
    ctx.sample({"pn-exhaustive": cases[37][:4]})
    cases = list(pn_cases_boundary())
    runner.run_cases(ctx, "pn-boundary", cases, CodecImpl, oracle_pn, edge, fresh_impl_per_case=False)
    ctx.sample({"pn-boundary": cases[5][:4]})
    cases = list(pn_cases_roundtrip(r, 500 if not thorough else 20000))

    def oracle_rt(case, out):
        p = oracle_pn(case, out)
        if p:
            return p
        # by construction every op's pn is within (e - h, e + h]: it must come back
        return None
    runner.run_cases(ctx, "pn-window", cases, CodecImpl, oracle_rt, edge, fresh_impl_per_case=False)
    cases = list(pn_cases_random(r, 300 if not thorough else 10000))
    runner.run_cases(ctx, "pn-random", cases, CodecImpl, in_range_only, edge, fresh_impl_per_case=False)
    ctx.sample({"pn-random": cases[0][:3]})


SECTIONS.append(section_packet_number)

# packet protection / altered packets (checks/c02b.py)
from checks import c02b   # noqa: E402
PROP_MODULES.append("AQ.Props.C02b")
SECTIONS.append(lambda ctx, tier, r: c02b.run(ctx, tier))


def replay(path):
    """./check C02 --replay <file>"""
    import json
    tree.activate()
    rec = json.load(open(path))
    if not ((rec.get("replay") or {}).get("ops") or any(b.get("ops") for b in rec.get("broken", []) if isinstance(b, dict))):
        if hasattr(c02b, "replay"):
            return c02b.replay(path)
    from harness.impl_codec import CodecImpl
    names = ("pn-exhaustive", "pn-boundary", "pn-window", "pn-random")
    return runner.replay_ops(path, CodecImpl, {n: oracle_pn for n in names})


# ----------------------------------------------------------------- the check
def main(tier):
    ctx = core.Ctx("C02", tier)
    tree.activate()
    c02b.regenerate_tables(ctx)        # TRANSLATOR: crypto.py / packet.py -> AQ.Gen.CryptoTables
    ctx.prove(PROP_MODULES, [])
    ctx.cov["trusted_base"] = [
        "Lean 4.33.0 kernel (+ leanchecker in thorough tier)",
        "axioms: subset of {propext, Classical.choice, Quot.sound} (audited by #print axioms)",
        "hand-written model AQ.Codec.decodePacketNumber tied by differential correspondence (this run) "
        "to aioquic.quic.packet.decode_packet_number; `expected & ~(window-1)` is modelled as "
        "`expected - expected % window` (non-negative ints)",
        "harness/impl_codec.py canonicalisation; CPython int semantics",
    ] + c02b.TRUSTED[2:]
    ctx.assumptions = [
        "packet-number clause only: truncated, num_bits, expected are non-negative ints (as produced by "
        "the receive path)",
    ] + c02b.ASSUMPTIONS
    r = rng.make("c02")
    for section in SECTIONS:
        section(ctx, tier, r)
    ctx.cov["rule"] = (
        "packet numbers: every (truncated, expected) with truncated < 2^bits and expected in [0, k*2^bits] for "
        "every width 1..7 (quick, k=4) / 1..9 (thorough, k=6); for widths 8/16/24/32 the cross product of "
        "truncated and expected offsets at 0, half-window±2, window-1 around window multiples near 0 and near "
        "2^62; random in-window round trips and random values incl. truncated >= window.  Non-trivial = a case "
        "in which the result is not the raw candidate (window added/subtracted); distinct by op-sequence hash.  "
        + c02b.RULE
    )
    ctx.cov["exhaustive"] = True
    return ctx.finish()
