"""C17, typed TLS extension bodies (AQ.Model.TlsExtBody / AQ.Props.C17tlsExt):
the model's encoders and decoders against the real tls.py helpers (`tlsx.*`),
on boundary values, every truncation, mutations and random bytes; oracle:
decode(encode v) = v on the implementation's own output."""
from harness import rng, runner

SHAPES = ["keyshares", "versions", "u16s", "pskmodes", "servername", "alpn", "empty", "psks", "u16", "keyshare", "u32"]


def hx(b):
    return bytes(b).hex() if b else "-"


def hexe(b):
    return bytes(b).hex() if b else "e"


def d(n, salt=0):
    return bytes((i * 5 + salt) % 256 for i in range(n))


def values(r, thorough):
    u16 = [0, 1, 255, 256, 0x0304, 65535]
    out = []
    for n in (0, 1, 2, 5):
        out.append(("keyshares", ",".join(f"{u16[(i + n) % 6]}:{hx(d([0, 1, 32, 65][i % 4], i))}" for i in range(n)) or "-"))
        out.append(("versions", ",".join(str(u16[(i + n) % 6]) for i in range(n)) or "-"))
        out.append(("u16s", ",".join(str(u16[(i * 2 + n) % 6]) for i in range(n)) or "-"))
        out.append(("pskmodes", ",".join(str([0, 1, 255][(i + n) % 3]) for i in range(n)) or "-"))
        out.append(("alpn", ",".join(hexe([b"h3", b"", b"hq-interop", b"x" * 255][(i + n) % 4]) for i in range(n)) or "-"))
        ids = ",".join(f"{hx(d([0, 1, 40][i % 3], i))}:{[0, 1, 2 ** 32 - 1][i % 3]}" for i in range(n)) or "-"
        bs = ",".join(hexe(d([0, 32, 255][i % 3], i + 9)) for i in range(n)) or "-"
        out.append(("psks", ids + "|" + bs))
    out += [("versions", ",".join(["772"] * 127)), ("pskmodes", ",".join(["1"] * 255)),
            ("u16s", ",".join(str(i) for i in range(300)))]
    for name in (b"", b"a", b"example.com", b"x" * 300):
        out.append(("servername", hx(name)))
    out.append(("empty", "-"))
    for v in u16:
        out += [("u16", str(v)), ("keyshare", f"{v}:{hx(d(v % 70))}")]
    for v in (0, 1, 65536, 2 ** 32 - 1):
        out.append(("u32", str(v)))
    for _ in range(40 if not thorough else 2000):
        n = r.randrange(0, 6)
        out.append(("keyshares", ",".join(f"{r.randrange(65536)}:{hx(r.randbytes(r.randrange(0, 40)))}" for _ in range(n)) or "-"))
        out.append(("psks", (",".join(f"{hx(r.randbytes(r.randrange(0, 20)))}:{r.randrange(2 ** 32)}" for _ in range(n)) or "-")
                    + "|" + (",".join(hexe(r.randbytes(r.randrange(0, 33))) for _ in range(n)) or "-")))
    return out


def cases(impl, r, thorough):
    from checks.c17 import mutate
    for shape, arg in values(r, thorough):
        o = impl.step(f"tlsx.enc {shape} {arg}")
        case = [f"tlsx.enc {shape} {arg}"]
        if o.startswith("ok "):
            enc = b"" if o == "ok -" else bytes.fromhex(o.split()[1])
            case.append(f"tlsx.dec {shape} {hx(enc)}")
            case.append(f"tlsx.dec {shape} {hx(enc + b'\x00')}")            # a stray byte inside the declared length
            step = max(1, len(enc) // 24)
            for k in range(0, len(enc), step):                              # truncations
                case.append(f"tlsx.dec {shape} {hx(enc[:k])}")
            for _ in range(4):
                case.append(f"tlsx.dec {shape} {hx(mutate(r, enc))}")
        yield case
    for shape in SHAPES:
        for a in range(256):
            yield [f"tlsx.dec {shape} {a:02x}"]
        for _ in range(200 if not thorough else 5000):
            s = bytes(r.choice([0, 0, 1, 2, 3, r.randrange(256)]) for _ in range(r.randrange(0, 14)))
            yield [f"tlsx.dec {shape} {hx(s)}"]


def non_ascii(case):
    # tls.py drops non-ASCII ALPN names (SkipItem); the typed model keeps raw names and applies the
    # ASCII filter in `extBodyOK` — compared through `tlsc.check` in c17_tls, excluded here
    return any(" alpn " in l and l.startswith("tlsx.dec") for l in case)


def oracle(case, out):
    if case[0].startswith("tlsx.enc") and len(case) > 2 and out[0].startswith("ok "):
        shape, arg = case[0].split()[1:3]
        if out[1] != "ok " + arg:
            return (f"{shape} {arg[:120]!r} encodes to {out[0][3:120]} which decodes to {out[1][:160]!r}",
                    {"kind": "tls-ext-roundtrip"})
        if out[2] != "err extra":
            return (f"{shape}: a stray byte inside the declared extension length is not refused: {out[2]!r}",
                    {"kind": "tls-ext-declared-length"})
    return None


ORACLES = {"tls-ext-bodies": oracle}


def run(ctx, tier):
    from harness.impl_tlsext import TlsExtImpl
    thorough = tier == "thorough"
    r = rng.make("c17-tlsext")
    impl = TlsExtImpl()
    ctx.prove(["AQ.Props.C17tlsExt"], [])
    cs = []
    for c in cases(impl, r, thorough):
        if c[0].startswith("tlsx.enc"):
            # keep the alpn encode + clean decode, drop its mutated decodes (non-ASCII names)
            if " alpn " in c[0]:
                c = c[:3]
            cs.append(c)
        elif not non_ascii(c):
            cs.append(c)
    runner.run_cases(ctx, "tls-ext-bodies", cs, lambda: impl, oracle,
                     lambda c, o: any(x.startswith("ok ") and x != "ok -" for x in o), fresh_impl_per_case=False)
    ctx.sample({"tls-ext-bodies": [x[:100] for x in cs[3][:4]]})
    ctx.cov["rule"] += (
        " TLS extension bodies: every shape tls.py parses (key_share list/entry, supported_versions, u16 lists, PSK "
        "modes, server_name, ALPN, early_data, pre_shared_key) x empty/1/2/5-element lists and boundary values; each "
        "encoding decoded, with a stray byte, at ~24 truncation points and 4 mutations; every 1-byte body and random "
        "bodies per shape (ALPN mutations excluded: non-ASCII names are skipped by tls.py, filtered in extBodyOK).")
