"""C12 — acknowledgements are sound and timely.

proof:   AQ.Props.C12 about AQ.Model.Ack (record-as-received, ACK-of-ACK
         pruning, space discard, _write_ack_frame / push_ack_frame values, ACK
         decisions of _write_handshake / _write_application, ack part of
         get_timer) for ALL op sequences
tie:     real QuicConnections in harness/sim.py (handshake under loss /
         duplication / reordering; established connections with injected
         packets at chosen numbers: gaps, duplicates, late arrivals, ACK and
         ACK-of-ACK carriers lost; 800 alternate numbers with every ACK lost):
         every packet that authenticates and every _write_handshake /
         _write_application call of the observed endpoint becomes an `ack.*`
         line whose inputs are what the real call saw; the model must reproduce
         the ACK frame values and the state of the three packet spaces
oracle:  from the property text, on the wire taps only: every ACK range within
         the numbers that authenticated in that space; ACK within 25 ms of the
         arrival of an ack-eliciting new-largest packet when every timer is
         fired exactly when get_timer() asks; next Initial / Handshake packet
         built carries the ACK
"""
from harness import core, lean, rng, tree

_seen = {}


def witness_once(ctx, what, replay, sig):
    k = tuple(sorted(sig.items()))
    _seen[k] = _seen.get(k, 0) + 1
    if _seen[k] == 1:
        ctx.witness(what, replay, sig)
    ctx.notes.setdefault("witness_counts", {})["/".join(str(v) for _, v in k)] = _seen[k]


def main(tier):
    ctx = core.Ctx("C12", tier)
    tree.activate()
    from harness import ack_scen as A

    ctx.prove(["AQ.Props.C12"], [])
    ctx.cov["trusted_base"] = [
        "Lean 4.33.0 kernel (+ leanchecker in thorough tier); axioms within {propext, Classical.choice, Quot.sound}",
        "time is generic in the model (FArith); the driver runs it with Lean Float = IEEE double, the arithmetic CPython uses; "
        "timing theorems assume the comparisons form a total order (OrderOk: no NaN)",
        "an ACK frame is the list of its varint values; the byte codec is C17's (push/pull_uint_var round trip)",
        "harness/impl_ack.py observation wrappers, harness/sim.py taps, harness/inject.py (key-holding peer), harness/frames.py",
    ]
    ctx.assumptions = [
        "ack_timely side conditions: handshake complete, 1-RTT send keys valid, start_packet / start_frame(ACK) not refused by "
        "the datagram budget (an unvalidated path with < ~100 bytes of anti-amplification budget cannot acknowledge: C13 wins), "
        "every range fits the packet (otherwise only the most recent ranges are reported, RFC 9000 13.2.3), connection not closing",
        "ACK-of-ACK deliveries only happen for ACK frames that were sent (recovery invokes handlers of sent packets only)",
        "a closing endpoint sends CONNECTION_CLOSE packets without ACK frames (RFC 9000 10.2.1): the next-transmission clause "
        "is read for open connections",
        "the model follows the code with fixes/C12-ack-frame-fits.diff, C12-ack-pacing.diff, C08-ack-first.diff applied",
    ]
    thorough = tier == "thorough"
    n_seeds = 150 if thorough else 22
    runs = []
    for seed in range(n_seeds):
        for observe in ("server", "client"):
            for mode in ("handshake", "mixed"):
                runs.append((f"{rng.seed()}/{seed}/{observe}/{mode}", observe, mode, 140 if thorough else 80))
    for observe in ("server", "client"):
        runs.append((f"{rng.seed()}/burst/{observe}", observe, "burst", 100))
    # every stream-addressed frame type x every stream lifecycle state, alone in a new-highest packet
    for seed in range(12 if thorough else 2):
        for observe in ("server", "client"):
            runs.append((f"{rng.seed()}/streams{seed}/{observe}", observe, "streams", 0))
    # the same families in the phase "handshake complete, not yet confirmed" (every HANDSHAKE_DONE datagram lost)
    for seed in range(10 if thorough else 2):
        for observe in ("client", "server"):
            for mode in ("train", "streams", "mixed"):
                runs.append((f"{rng.seed()}/phase{seed}/{observe}/{mode}", observe, mode + "@complete", 0 if mode != "mixed" else 60))
    # dense trains: arrivals closer than the ack delay for longer than max_ack_delay
    for seed in range(40 if thorough else 6):
        for observe in ("server", "client"):
            runs.append((f"{rng.seed()}/train{seed}/{observe}", observe, "train", 0))
    tot = {"lines": 0, "acks_written": 0, "ack_frames_checked": 0, "timely_checked": 0, "next_tx_checked": 0,
           "max_latency_ms": 0.0, "spins": 0}
    for seed, observe, mode, steps in runs:
        sim, obs, orc, spins = A.run_scenario(seed, observe, mode, steps=steps)
        sim.close_taps()
        replay = {"harness": "ack_scen.run_scenario", "seed": seed, "observe": observe, "mode": mode, "steps": steps,
                  "log_tail": sim.log[-20:]}
        tot["lines"] += len(obs.lines)
        tot["acks_written"] += obs.acks_written
        tot["ack_frames_checked"] += orc.acks_checked
        tot["timely_checked"] += orc.timely_checked
        tot["next_tx_checked"] += orc.nexttx_checked
        tot["armed_checked"] = tot.get("armed_checked", 0) + orc.armed_checked
        tot["max_latency_ms"] = max(tot["max_latency_ms"], round(orc.max_latency * 1000, 3))
        tot["spins"] += len(spins)
        ctx.count((seed, observe, mode), obs.acks_written > 0 and any(l.startswith("ack.rx") and l.split()[-1] != "-" for l in obs.lines))
        # property oracles on the implementation's own wire trace
        for kind, text in orc.problems:
            witness_once(ctx, text, replay, {"oracle": "wire", "kind": kind})
        for ep in sim.endpoints:
            for name, e in ep.raised:
                if name == "datagrams_to_send" and type(e).__name__ != "IndexError":
                    witness_once(ctx, f"{type(e).__name__}({e}) escaped {ep.name}.datagrams_to_send while an ACK was due",
                                 replay, {"oracle": "raise", "exc": type(e).__name__})
        # correspondence
        model = lean.run_driver(obs.lines)
        for i, (l, m, e) in enumerate(zip(obs.lines, model, obs.expect)):
            if m != e:
                ctx.disagreement("ack", {"replay": replay, "ops_tail": obs.lines[max(0, i - 6): i + 1]}, m[:600], e[:600], i)
                break
        ctx.cov["traces_validated_against_impl"] += 1
    ctx.sample({"ack": obs.lines[:6]})
    ctx.notes["totals"] = tot
    ctx.cov["rule"] = (
        "per seed x observed endpoint (server, client): a handshake under loss 0.2 / duplication 0.15 / reordering 0.4 with late "
        "timers (soundness + next-transmission oracles), and an established connection where the peer's packets are injected "
        "at chosen numbers (next, +1, +2, +5, or up to 12 behind), 20% not ack-eliciting, datagrams (ACKs, ACK-of-ACK "
        "carriers) lost 25% / duplicated 15% / reordered, stream data both ways, time advancing 0..30 ms with every timer "
        "fired exactly when get_timer() asks (all oracles); plus 800 alternate packet numbers with every ACK lost; plus dense "
        "STREAM / STREAM+FIN / RESET_STREAM / STOP_SENDING / MAX_STREAM_DATA / STREAM_DATA_BLOCKED alone in a new-highest packet for "
        "streams never opened / open / half-closed / reset / finished-and-discarded (client- and server-opened), time then run "
        "to max_ack_delay; ack-elicitation is decided by the harness from the plaintext frames (RFC 9002 2) and compared with "
        "the connection's armed ack timer after every receive_datagram; plus dense "
        "the train / stream-lifecycle / mixed families again in the phase handshake-complete-but-not-confirmed (every datagram "
        "carrying HANDSHAKE_DONE lost, both roles), strictly driven by get_timer()/handle_timer; "
        "trains of ack-eliciting packets 0.1-0.9 ms apart (below the 1 ms ack delay) lasting 50-100 ms (2x-4x max_ack_delay), "
        "receiver idle or sending, its datagrams delivered or lost, clock advanced in sub-millisecond steps. "
        "Non-trivial = ACK frames were written and ACK-of-ACK deliveries pruned the queue."
    )
    return ctx.finish()


def replay(path):
    """re-execute a replay file against the current tree"""
    import json
    tree.activate()
    from harness import ack_scen as A
    d = json.load(open(path))
    if d.get("kind") != "impl-witness":
        print("replay names a broken obligation/correspondence, nothing to execute:", json.dumps(d.get("broken", []), default=str)[:600])
        return 1
    rp, sig = d["replay"], d.get("signature", {})
    sim, obs, orc, _ = A.run_scenario(rp["seed"], rp["observe"], rp["mode"], steps=rp.get("steps", 80))
    sim.close_taps()
    if sig.get("oracle") == "raise":
        hits = [f"{type(e).__name__}({e}) escaped {ep.name}.{name}" for ep in sim.endpoints for name, e in ep.raised
                if type(e).__name__ == sig.get("exc")]
    else:
        hits = [t for k, t in orc.problems if k == sig.get("kind")] or [t for _, t in orc.problems]
    p = hits[0] if hits else None
    print("still failing: " + p if p else "no longer failing")
    return 1 if p else 0
