"""C16 — Peer stream bytes can never make the HTTP layers raise.

proof:   AQ.Props.C16 built and audited (`h3_total`, `h0_total`,
         `close_emittable` for the quirk-free models; one counterexample theorem
         per escaping exception of the unchanged tree)
tie:     T2 correspondence of AQ.Model.H3Parser / AQ.Model.H0 /
         AQ.Model.CloseFrame (compiled driver) against H3Connection,
         H0Connection and the real close path
oracle:  from the property text: no exception may escape
         H3Connection.handle_event / H0Connection.handle_event, and after the
         HTTP layer closed the connection QuicConnection.datagrams_to_send must
         still produce the closing packet, whatever the reason phrase.
"""
import itertools

from harness import core, rng, tree
from harness import h3gen as g

FRAME_TYPES = [0, 1, 2, 3, 4, 5, 7, 0xD, 0xE, 0x21, 0x41, 0x40, 0x1F * 7 + 0x21]


def qpack_blocks():
    import pylsqpack
    enc = pylsqpack.Encoder()

    def blk(hs):
        e, b = enc.encode(0, hs)
        return b
    return {
        "req": blk([(b":method", b"GET"), (b":authority", b"a")]),
        "resp": blk([(b":status", b"200")]),
        "pp": blk([(b":method", b"GET"), (b":scheme", b"https"), (b":authority", b"a"), (b":path", b"/")]),
        "trailer": blk([(b"x", b"y")]),
        "upper": blk([(b"Upper", b"x")]),
        "bin": blk([(b":status", b"200"), (b"x-bin", bytes([0x80, 0xfe, 0xff]))]),
        "binreq": blk([(b":method", b"GET"), (b":authority", b"a"), (b"x-bin", bytes([0xff]))]),
        "ctl-name": blk([(bytes([1]) * 400, b"v")]),
        "cl-bad": blk([(b":status", b"200"), (b"content-length", b"-1")]),
        "cl-5": blk([(b":status", b"200"), (b"content-length", b"5")]),
        "dup": blk([(b":status", b"200"), (b":status", b"200")]),
        "empty": b"",
        "garbage": b"\xff\xff\xff\xff",
        "prefix-only": b"\x00\x00",
        "dyn-ref": bytes.fromhex("0280d910"),
    }


def payload_variants(r, qb):
    out = [b"", b"\x00", b"\x40", b"\x01\x02", b"\xc0\x00", bytes(8), b"\x3f" * 3]
    out += list(qb.values())
    out += [b"\x00" + v for v in (qb["pp"], qb["req"], b"", b"\xff")]   # push id + block
    out += [b"\x40" + qb["pp"], b"\xc0" + bytes(6)]
    return out


def settings_payloads():
    v = g.varint
    return [
        b"", v(1) + v(4096), v(1), v(1) + b"\x40", b"\x40", v(0) + v(1), v(2) + v(0), v(3) + v(0), v(4) + v(0), v(5) + v(0),
        v(1) + v(0) + v(1) + v(0), v(6) + v(1 << 40), v(7) + v(1 << 62 - 1), v(1) + v((1 << 62) - 1),
        v(8) + v(2), v(8) + v(1), v(0x33) + v(1), v(0x33) + v(2), v(0x2B603742) + v(1), v(0x2B603742) + v(1) + v(0x33) + v(1),
        v(0x2B603742) + v(2), v(0x21) + v(7), v(1) + v(4096) + v(7) + v(16) + v(0x21) + v(1), v(1) + v(4096) + v(7),
        v((1 << 62) - 1) + v((1 << 62) - 1), bytes(range(0x20, 0x40)),
    ]


def control_cases(r, qb):
    """control-stream byte strings (without the 0x00 stream type)"""
    v = g.varint
    st_ok = g.frame(4, v(1) + v(4096) + v(7) + v(16))
    cases = []
    for sp in settings_payloads():
        cases.append(g.frame(4, sp))
        cases.append(st_ok + g.frame(4, sp))
    for t in FRAME_TYPES:
        for p in (b"", b"\x01", b"\x01\x02", b"\x40", b"\xc0" + bytes(7), b"\xc0" + bytes(8), bytes(20)):
            cases.append(st_ok + g.frame(t, p))
            cases.append(g.frame(t, p))
    for p in (b"", b"\x00", b"\x08", b"\x40", b"\x40\x01", b"\x00\x00", b"\x40\x01\x00", b"\xc0" + bytes(7), b"\xc0" + bytes(6)):
        cases.append(st_ok + g.frame(0xD, p))
        cases.append(st_ok + g.frame(0xD, b"\x05") + g.frame(0xD, p))
    cases += [st_ok + v(7) + v(1 << 40) + b"abc", st_ok + v(7) + v((1 << 62) - 1), b"\x40", b"\x04\x40", st_ok + b"\xc0",
              st_ok + g.frame(7, b"\x00") + g.frame(3, b"\x00") + g.frame(0x21, bytes(9))]
    return cases


def request_cases(r, qb, role):
    H = g.frame(1, qb["resp"] if role else qb["req"])
    cases = []
    pv = payload_variants(r, qb)
    for t in FRAME_TYPES:
        for p in pv:
            cases.append(g.frame(t, p))
            cases.append(H + g.frame(t, p))
    for t in FRAME_TYPES:
        cases.append(H + g.varint(t) + g.varint(1 << 40) + b"ab")
        cases.append(H + g.varint(t) + g.varint((1 << 62) - 1))
        cases.append(g.varint(t) + b"\x40")
        cases.append(g.varint(t) + b"\xc0" + bytes(6))
    cases += [H + H, H + H + H, H + g.frame(0, b"abc") + H + g.frame(0, b"x"), H + g.frame(0, b"abc") + H + H,
              g.frame(1, qb["cl-5"]) + g.frame(0, b"abc"), g.frame(1, qb["cl-5"]) + g.frame(0, b"abcde") + g.frame(0, b"f"),
              b"\xff", b"\xc0" + bytes(7), bytes(30), bytes([0xff] * 30)]
    return cases


def uni_cases(r, qb):
    """whole unidirectional stream byte strings (with stream type)"""
    v = g.varint
    out = []
    H = g.frame(1, qb["resp"])
    for t in (1,):
        out += [v(t), v(t) + b"\x40", v(t) + v(3), v(t) + v(3) + H, v(t) + v(3) + H + g.frame(0, b"ab"),
                v(t) + v(3) + g.frame(5, b"\x00" + qb["pp"]), v(t) + v(3) + g.frame(4, b""), v(t) + v(3) + g.frame(1, qb["garbage"]),
                v(t) + v((1 << 62) - 1) + H, v(t) + v(3) + b"\x40\x41\x05abc"]
    for t in (2, 3):
        out += [v(t), v(t) + b"\x00", v(t) + bytes([0xff] * 12), v(t) + bytes.fromhex("3fe11f"), v(t) + bytes(range(1, 40)),
                v(t) + bytes.fromhex("3fe11fc0882f91d35d055cf64d66f2b12d424f4f85ee3a2d2ac1"), v(t) + b"\x80", v(t) + b"\x3f\xff\xff\xff\xff\xff\xff\xff\xff\xff\xff"]
    out += [v(0x54), v(0x54) + b"\x40", v(0x54) + v(7) + b"data", v(0x54) + v(7), v(0x21) + b"whatever", v(0x40), b"\x40",
            v((1 << 62) - 1) + b"x", b"\xc0" + bytes(3)]
    return out


def hostile_header_lists(role):
    """header lists only a hand-made encoder produces (pylsqpack's encoder refuses
    them, its decoder does not): (name, list) pairs for the first header block"""
    first = [(b":status", b"200")] if role else [(b":method", b"GET"), (b":authority", b"a")]
    out = []
    for n in (1, 19, 20, 4299, 4300, 4301, 5000, 10000):
        out.append((f"cl-{n}-digits", first + [(b"content-length", b"1" * n)]))
    out.append(("cl-5000-zeros", first + [(b"content-length", b"0" * 5000)]))
    out.append(("cl-plus-4300", first + [(b"content-length", b"+" + b"1" * 4300)]))
    out.append(("cl-minus-4301", first + [(b"content-length", b"-" + b"1" * 4301)]))
    for v in (b"", b" 5", b"5 ", b"+5", b"-0", b"1_0", b"0x10", b"5\x00", "\u0665".encode(), "\uff15".encode(), b"1e3",
              b"\xb2", b"5\n", b"\t5", b"\xd9\xa5"):
        out.append(("cl-" + v.hex(), first + [(b"content-length", v)]))
    out.append(("two-cl", first + [(b"content-length", b"1" * 4301), (b"content-length", b"2")]))
    for n in (1000, 4000, 16000, 60000):
        out.append((f"name-{n}", first + [(b"n" * n, b"v")]))
        out.append((f"value-{n}", first + [(b"x", b"v" * n)]))
        out.append((f"ctl-name-{n}", first + [(bytes([1]) * n, b"v")]))
    out.append(("all-bytes-value", first + [(b"x-all", bytes(range(256)))]))
    for b in (0x00, 0x09, 0x0A, 0x0D, 0x20, 0x7F, 0x80, 0xFF, 0x3A, 0x41):
        out.append((f"value-{b:02x}", first + [(b"x", b"a" + bytes([b]) + b"b")]))
        out.append((f"value-lead-{b:02x}", first + [(b"x", bytes([b]) + b"b")]))
        out.append((f"value-trail-{b:02x}", first + [(b"x", b"b" + bytes([b]))]))
        out.append((f"name-{b:02x}", first + [(b"x" + bytes([b]) + b"y", b"v")]))
    out.append(("empty-name", first + [(b"", b"v")]))
    out.append(("only-empty-name", [(b"", b"")]))
    out.append(("te", first + [(b"transfer-encoding", b"chunked" * 1000)]))
    out.append(("pseudo-after", first + [(b"x", b"y"), (b":path", b"/" * 5000)]))
    out.append(("authority-huge", [(b":method", b"GET"), (b":scheme", b"https"), (b":authority", b"a" * 9000), (b":path", b"")]))
    return out


def dyn_block(headers):
    """(encoder-stream bytes incl. the capacity instruction, header block that REFERENCES the inserted
    entries): genuine pylsqpack.Encoder output — the second encoding of a header list inserts and refers"""
    import pylsqpack
    enc = pylsqpack.Encoder()
    setb = enc.apply_settings(4096, 16)
    e1, _ = enc.encode(0, headers)
    e2, blk = enc.encode(4, headers)
    d = pylsqpack.Decoder(4096, 16)
    try:
        d.feed_header(0, blk)
        blocked = False
    except pylsqpack.StreamBlocked:
        blocked = True
    assert blocked, "block does not need the encoder stream"
    return setb + e1 + e2, blk


def blocked_families(r, role):
    """streams whose HEADERS / trailers / PUSH_PROMISE / push-stream HEADERS wait for the QPACK encoder stream,
    for both roles (also the paths that are errors for the role): name -> {stream id: bytes}"""
    ctrl, encs = (3, 7) if role else (2, 6)
    uni = 15 if role else 14
    first = [(b":status", b"200"), (b"x-dyn-a", b"v" * 24)] if role else \
        [(b":method", b"GET"), (b":scheme", b"https"), (b":authority", b"a"), (b":path", b"/"), (b"x-dyn-a", b"v" * 24)]
    pp = [(b":method", b"GET"), (b":scheme", b"https"), (b":authority", b"a"), (b":path", b"/p"), (b"x-dyn-p", b"w" * 24)]
    ENC_H, BLK_H = dyn_block(first)
    ENC_T, BLK_T = dyn_block([(b"x-dyn-t", b"t" * 24)])
    ENC_P, BLK_P = dyn_block(pp)
    plain = g.frame(1, g.qpack_literal_block([(b":status", b"200")] if role else
                                             [(b":method", b"GET"), (b":scheme", b"https"), (b":authority", b"a"),
                                              (b":path", b"/")]))
    CTRL = b"\x00" + g.frame(4, g.varint(1) + g.varint(4096) + g.varint(7) + g.varint(16))
    fam = {
        "headers": {ctrl: CTRL, encs: b"\x02" + ENC_H, 0: g.frame(1, BLK_H) + g.frame(0, b"body")},
        "headers-only": {ctrl: CTRL, encs: b"\x02" + ENC_H, 0: g.frame(1, BLK_H)},
        "trailers": {ctrl: CTRL, encs: b"\x02" + ENC_T, 0: plain + g.frame(0, b"ab") + g.frame(1, BLK_T)},
        "push-promise": {ctrl: CTRL, encs: b"\x02" + ENC_P, 0: plain + g.frame(5, b"\x02" + BLK_P) + g.frame(0, b"ab")},
        "push-promise-first": {ctrl: CTRL, encs: b"\x02" + ENC_P, 0: g.frame(5, b"\x01" + BLK_P) + plain},
        "push-stream": {ctrl: CTRL, encs: b"\x02" + ENC_H, uni: b"\x01\x03" + g.frame(1, BLK_H) + g.frame(0, b"pushed")},
        "push-stream-trailers": {ctrl: CTRL, encs: b"\x02" + ENC_T,
                                 uni: b"\x01\x03" + plain + g.frame(0, b"x") + g.frame(1, BLK_T)},
        "two-streams": {ctrl: CTRL, encs: b"\x02" + ENC_H, 0: g.frame(1, BLK_H) + g.frame(0, b"a"), 4: g.frame(1, BLK_H)},
    }
    return fam


def deliveries_for(r, sid, b, fin, mode):
    if mode == "whole":
        return [(sid, b, fin)]
    if mode == "bytes":
        d = [(sid, b[i:i + 1], False) for i in range(len(b))]
        if fin:
            d.append((sid, b"", True))
        return d or [(sid, b"", fin)]
    parts = g.random_split(r, b, max_parts=r.choice([2, 3, 5]), allow_empty=r.random() < 0.3)
    lone = fin and r.random() < 0.3
    d = [(sid, c, fin and i == len(parts) - 1 and not lone) for i, c in enumerate(parts)]
    if lone:
        d.append((sid, b"", True))
    return d


def main(tier):
    ctx = core.Ctx("C16", tier)
    tree.activate()
    from harness.impl_h3parser import H3Impl, ClosePath

    ctx.prove(["AQ.Props.C16"], [])
    quirks, on = g.quirk_flags()
    ctx.notes["model_quirks"] = sorted(on)
    ctx.cov["trusted_base"] = [
        "Lean 4.33.0 kernel (+ leanchecker in thorough tier)",
        "axioms: subset of {propext, Classical.choice, Quot.sound} (audited by #print axioms)",
        "hand-written models AQ.Model.H3Parser / H0 / CloseFrame tied by differential correspondence (this run) to "
        "h3/connection.py, h0/connection.py and _write_connection_close_frame/start_frame",
        "pylsqpack, validate_* (C15) and CPython's utf-8 codec are oracles of the model (answers recorded on the "
        "implementation, replayed to the model); pylsqpack itself never raising anything but its documented "
        "exceptions is checked only by this run's exception oracle",
        "harness/impl_h3parser.py canonicalisation; CPython semantics between compared observations",
    ]
    ctx.assumptions = [
        "Decoder.resume_header does not raise StreamBlocked for an id feed_encoder reported unblocked; "
        "Encoder.apply_settings does not raise (both observed, not proved: pylsqpack is outside the model)",
        "close_emittable: the packet header leaves at least the fixed frame capacity (17 / 25 bytes) in the packet, "
        "i.e. an empty reason phrase would fit (true for every datagram size >= 1200 and CID length <= 20)",
    ]
    r = rng.make("c16")
    thorough = tier == "thorough"
    qb = qpack_blocks()
    closes = {}       # (code, reason) seen from the HTTP/3 layer -> example ops
    reported = set()

    def report_exc(impl, ops, outs, layer):
        e, fn = impl.last_exc
        cls = type(e).__name__
        key = (cls, fn)
        if key in reported:
            return
        reported.add(key)
        ctx.witness(
            f"{cls} escapes {layer}.handle_event (raised in {fn}): {e!s:.120}",
            {"ops": ops, "impl_output": outs, "h0_logging": bool(H3Impl.h0_logging)},
            {"exception": cls, "function": fn})

    def run(batch, ops, layer="H3Connection", nontrivial=True):
        outs, mlines, impl, done = g.run_case(H3Impl, ops)
        batch.add(done, outs, mlines)
        ctx.count(tuple(ops), nontrivial)
        if outs and outs[-1].startswith("err ") and impl.last_exc is not None:
            report_exc(impl, done, outs, layer)
        if impl.q is not None and impl.q.closed is not None:
            closes.setdefault(impl.q.closed, done)
        return outs

    # 1. HTTP/3: streams of every kind, malformed in every way, after valid prefixes
    batch = g.Batch(ctx, "h3-malformed")
    modes = ["whole", "bytes", "random"] if not thorough else ["whole", "bytes", "random", "random", "random"]
    n = 0
    for role in (0, 1):
        ctrl_sid, enc_sid, dec_sid, uni2 = (2, 6, 10, 14) if role == 0 else (3, 7, 11, 15)
        st_ok = b"\x00" + g.frame(4, g.varint(1) + g.varint(4096))
        prefixes = {
            "none": [],
            "settings": [(ctrl_sid, st_ok, False)],
            "settings+qpack": [(ctrl_sid, st_ok, False), (enc_sid, b"\x02", False), (dec_sid, b"\x03", False)],
        }
        for logging in (0, 1):
            new_line = f"h3.new {role} {logging} {r.choice([0, 1])} {quirks}"
            # control stream
            for c in control_cases(r, qb):
                for mode in modes:
                    dl = deliveries_for(r, ctrl_sid, b"\x00" + c, False, mode)
                    run(batch, [new_line] + [f"h3.data {s} {g.hx(d)} {1 if f else 0}" for s, d, f in dl])
                    n += 1
            # request streams
            for c in request_cases(r, qb, role):
                for pname, pre in prefixes.items():
                    # logger-on: every chunking after SETTINGS, one delivery after the other prefixes
                    for mode in modes[: 1 if (pname == "none" or (logging and pname != "settings")) else len(modes)]:
                        fin = r.random() < 0.5
                        dl = pre + deliveries_for(r, r.choice([0, 4, 1]), c, fin, mode)
                        run(batch, [new_line] + [f"h3.data {s} {g.hx(d)} {1 if f else 0}" for s, d, f in dl])
                        n += 1
            # unidirectional streams, duplicates of critical streams, FIN on them
            for c in uni_cases(r, qb):
                for pname, pre in prefixes.items():
                    for fin in (False, True):
                        dl = pre + deliveries_for(r, uni2, c, fin, r.choice(modes))
                        run(batch, [new_line] + [f"h3.data {s} {g.hx(d)} {1 if f else 0}" for s, d, f in dl])
                        n += 1
            # datagrams
            for d in (b"", b"\x00", b"\x40", b"\x04abc", b"\xc0" + bytes(6), b"\xc0" + bytes(7) + b"x", bytes(100)):
                run(batch, [new_line, f"h3.datagram {g.hx(d)}", "h3.other", f"h3.datagram {g.hx(d)}"])
    # hand-encoded QPACK field sections (RFC 9204 literal field lines) on every header path
    hand_cases = 0
    for role in (0, 1):
        ok_first = g.frame(1, qb["resp"] if role else qb["req"])
        for lname, hl in hostile_header_lists(role):
            blk = g.qpack_literal_block(hl)
            only = g.qpack_literal_block(hl[-1:] if len(hl) > 1 else hl)   # the hostile field alone (trailers)
            paths = {
                "headers": (0, g.frame(1, blk) + g.frame(0, b"a")),
                "trailers": (0, ok_first + g.frame(0, b"a") + g.frame(1, only)),
                "trailers-full": (0, ok_first + g.frame(1, blk)),
            }
            if role:
                paths["push-promise"] = (0, ok_first + g.frame(5, b"\x01" + blk))
                paths["push-stream"] = (15, b"\x01\x01" + g.frame(1, blk) + g.frame(0, b"a"))
                paths["push-stream-trailers"] = (15, b"\x01\x01" + ok_first + g.frame(1, only))
            for pname, (sid, data) in paths.items():
                for logging in (0, 1):
                    for mode in (("whole", "random") if len(data) < 3000 or not logging else ("whole",)):
                        fin = r.random() < 0.5
                        dl = deliveries_for(r, sid, data, fin, mode)
                        run(batch, [f"h3.new {role} {logging} 0 {quirks}"] +
                            [f"h3.data {s_} {g.hx(d)} {1 if f else 0}" for s_, d, f in dl])
                        hand_cases += 1
    ctx.notes["hand_encoded_qpack_cases"] = hand_cases
    # blocked streams and everything around them
    CTRL = bytes.fromhex("0004170150000680020000074064091040bcc0000000faceb00c")
    ENC = bytes.fromhex("3fe101c696d07abe941094cb6d0a08017d403971966e32ca98b46f")
    for blkhex in ("0280d910", "0280d9", "0280", "02", "0280d910ff", "0380d910", "0281d910"):
        for tail in (b"", g.frame(0, b"abc"), g.frame(0, b"abc")[:-1], g.frame(1, bytes.fromhex("0280d910")), b"\x21"):
            for fin in (False, True):
                for ft in (1, 5):
                    payload = bytes.fromhex(blkhex) if ft == 1 else b"\x01" + bytes.fromhex(blkhex)
                    req = g.frame(ft, payload) + tail
                    order = [(3, CTRL, False), (7, b"\x02", False), (11, b"\x03", False)]
                    order += deliveries_for(r, 0, req, fin, r.choice(modes))
                    order += deliveries_for(r, 7, ENC, False, r.choice(modes))
                    order += [(0, b"", True)] if not fin else []
                    for logging in (0, 1):
                        run(batch, [f"h3.new 1 {logging} 0 {quirks}"] +
                            [f"h3.data {s} {g.hx(d)} {1 if f else 0}" for s, d, f in order])
    # genuine dynamic-table references on every header path, both roles, BOTH logger configurations:
    # stream before the encoder stream (blocks, resumed with frame_data=None), encoder stream first,
    # and random chunking + interleaving
    blocked_runs = 0
    for role in (0, 1):
        for fname, streams in blocked_families(r, role).items():
            uni_ids = sorted(s_ for s_ in streams if s_ % 4 >= 2)
            data_ids = sorted(s_ for s_ in streams if s_ % 4 < 2 or s_ in (14, 15))
            setup_ids = [s_ for s_ in uni_ids if s_ not in data_ids]
            ctrl_id, enc_id = setup_ids[0], setup_ids[1]
            orders = []
            whole = {s_: [(s_, streams[s_], s_ % 4 < 2 or (s_ in (14, 15) and fin_u))] for fin_u in (True,) for s_ in streams}
            # 1. data streams first (they block), then control + encoder
            orders.append([d for s_ in data_ids for d in whole[s_]] + whole[ctrl_id] + whole[enc_id])
            # 2. control, data, encoder
            orders.append(whole[ctrl_id] + [d for s_ in data_ids for d in whole[s_]] + whole[enc_id])
            # 3. everything the decoder needs first
            orders.append(whole[ctrl_id] + whole[enc_id] + [d for s_ in data_ids for d in whole[s_]])
            # 4. blocked, FIN delivered alone after the unblocking
            o4 = whole[ctrl_id] + [(s_, streams[s_], False) for s_ in data_ids] + whole[enc_id]
            orders.append(o4 + [(s_, b"", True) for s_ in data_ids])
            # 5. encoder stream byte by byte after the data
            orders.append(whole[ctrl_id] + [d for s_ in data_ids for d in whole[s_]] +
                          deliveries_for(r, enc_id, streams[enc_id], False, "bytes"))
            for _ in range(12 if thorough else 4):
                queues = {s_: deliveries_for(r, s_, streams[s_], s_ in data_ids, "random") for s_ in streams}
                live, o = sorted(queues), []
                while live:
                    s_ = r.choice(live)
                    o.append(queues[s_].pop(0))
                    if not queues[s_]:
                        live.remove(s_)
                orders.append(o)
            for o in orders:
                for logging in (0, 1):
                    run(batch, [f"h3.new {role} {logging} 0 {quirks}"] +
                        [f"h3.data {s_} {g.hx(d)} {1 if f else 0}" for s_, d, f in o])
                    blocked_runs += 1
    ctx.notes["blocked_header_path_runs"] = blocked_runs
    # random soup: several streams, random frames, random order
    for _ in range(30000 if thorough else 400):
        role = r.choice([0, 1])
        dg = r.choice([0, 1])
        ops = [f"h3.new {role} 0 {dg} {quirks}"]
        sids = [0, 4, 2 + role, 6 + role, 10 + role, 14 + role, 1]
        for _ in range(r.randrange(1, 10)):
            sid = r.choice(sids)
            x = r.random()
            if x < 0.2:
                d = bytes(r.randrange(256) for _ in range(r.randrange(0, 12)))
            elif x < 0.3:
                d = g.varint(r.choice([0, 1, 2, 3, 0x54, 0x21]))
            else:
                d = g.frame(r.choice(FRAME_TYPES), r.choice(payload_variants(r, qb)))
                if r.random() < 0.2:
                    d = d[: r.randrange(len(d) + 1)]
            if r.random() < 0.1:
                ops.append(f"h3.datagram {g.hx(d)}")
            else:
                ops.append(f"h3.data {sid} {g.hx(d)} {1 if r.random() < 0.15 else 0}")
        run(batch, ops)
        run(batch, [f"h3.new {role} 1 {dg} {quirks}"] + ops[1:])   # the same bytes with a qlog trace attached
    batch.finish()
    ctx.notes["h3_cases"] = len(batch.cases)
    ctx.sample({"h3": batch.cases[len(batch.cases) // 2][:4]})

    # 2. HTTP/0.9
    batch = g.Batch(ctx, "h0")
    h0q = "1" if any(k.get("id") == "C16-h0-request-line" for k in core.load_known("C16") if k.get("status") == "finding") else "0"
    lines = [b"GET /\r\n", b"GET\r\n", b"\r\n", b"", b" ", b"GET  /a b\r\n", b"GET /", b"GET", b"\x00\xff", b" /x\r\n", b"GET /\r", b"\n",
             b"POST /a\r\n\r\n", b"GET /" + bytes(range(256)) + b"\r\n", b"\t\x0b\x0c \r\n"]
    for h0log, cl in ((False, 0), (False, 1), (True, 0), (True, 1)):
        H3Impl.h0_logging = h0log     # the same families with a qlog trace attached to the connection
        for ln in lines:
            for sid in (0, 4, 1, 2, 3):
                for fin in (0, 1):
                    run(batch, [f"h0.new {cl} {h0q}", f"h0.data {sid} {g.hx(ln)} {fin}", f"h0.data {sid} {g.hx(b'more')} 1"],
                        layer="H0Connection")
                    if len(ln) > 1:
                        k = r.randrange(1, len(ln))
                        run(batch, [f"h0.new {cl} {h0q}", f"h0.data {sid} {g.hx(ln[:k])} 0", f"h0.data {sid} {g.hx(ln[k:])} {fin}",
                                    f"h0.data {sid} - 1"], layer="H0Connection")
    for k in range(20000 if thorough else 300):
        H3Impl.h0_logging = bool(k % 2)
        ops = [f"h0.new {r.choice([0, 1])} {h0q}"]
        for _ in range(r.randrange(1, 6)):
            d = bytes(r.choice([0x20, 0x0d, 0x0a, 0x47, 0x2f, 0x00, 0xff, 0x09]) for _ in range(r.randrange(0, 6)))
            ops.append(f"h0.data {r.choice([0, 0, 4, 8, 1])} {g.hx(d)} {r.choice([0, 0, 1])}")
        run(batch, ops, layer="H0Connection")
    H3Impl.h0_logging = False
    batch.finish()
    ctx.sample({"h0": batch.cases[3]})

    # 3. the close the HTTP/3 layer asked for must be emittable by the transport
    cp = ClosePath()
    by_len = {}
    for (code, reason), ops in closes.items():
        by_len.setdefault(min(len(reason) // 40, 60), ((code, reason), ops))
    todo = sorted(by_len.values(), key=lambda x: -len(x[0][1]))[: 60 if thorough else 12]
    close_exc = set()
    for (code, reason), ops in todo:
        # (every phase x version x datagram size is crossed by the receiver-side scenarios 3b below)
        for which, early in ((("server", False), ("client", False), ("server", True)) if thorough else
                             (r.choice((("server", False), ("client", False), ("server", True))),)):
            exc, out = cp.close_with(which, code, reason, early=early)
            ctx.count(("close", which, early, code, reason), len(reason) > 100)
            nbytes = len(reason.encode("utf8"))
            if exc is not None:
                e, fn = exc
                key = (type(e).__name__, fn)
                if key not in close_exc:
                    close_exc.add(key)
                    ctx.witness(
                        f"{type(e).__name__} escapes QuicConnection.datagrams_to_send after the HTTP/3 layer closed the "
                        f"connection with code 0x{code:x} and a {nbytes}-byte reason phrase ({reason[:60]!r}...)",
                        {"h3_ops": ops, "close": {"error_code": code, "reason_phrase": reason}, "endpoint": which,
                         "before_handshake_confirmed": early},
                        {"exception": type(e).__name__, "function": fn})
            elif not out:
                ctx.witness("no closing datagram produced", {"h3_ops": ops, "close": [code, reason]},
                            {"exception": "none", "function": "datagrams_to_send"})
    ctx.notes["close_reasons_replayed"] = len(todo)
    # 3b. judged ON THE WIRE AT THE RECEIVER: the real peer decrypts the closing datagrams, the plaintext it obtains
    # is parsed by harness/frames.py; a peer that owns 1-RTT keys must get an application CONNECTION_CLOSE with
    # the HTTP/3 error code (reason = a valid-UTF-8 prefix of the text), any other peer some CONNECTION_CLOSE
    wire_seen = set()
    wire_n = 0

    def wire(phase, version, mds, code, reason, h3_ops=None):
        nonlocal wire_n
        wire_n += 1
        problem, det = cp.close_on_wire(phase, version, mds, code, reason)
        ctx.count(("close-wire", phase, version, mds, code, reason), True)
        if problem:
            key = (phase, problem[:50])
            if key not in wire_seen:
                wire_seen.add(key)
                ctx.witness(
                    f"after close(0x{code:x}, <{len(reason.encode('utf8'))}-byte reason>) in phase {phase} (QUIC version "
                    f"0x{version:x}, max_datagram_size {mds}): {problem}",
                    {"close_wire": {"phase": phase, "version": version, "max_datagram_size": mds, "error_code": code,
                                    "reason_phrase": reason}, "h3_ops": h3_ops, "observed": det},
                    {"close_wire": problem[:50], "phase": phase})

    def boundary_lengths(mds):
        return [0, 1, 255, 256] + [mds - k for k in (170, 150, 130, 120, 110, 100, 90, 80, 70, 64, 60, 56, 52, 48, 44, 40,
                                                      36, 32, 28, 24, 20, 10, 0, -1)] + [2 * mds, 5000, 16383, 16384, 20000]
    versions, sizes = (cp.V1, cp.V2), (1200, 1280, 1500)
    if thorough:
        for phase in cp.PHASES:
            for version in versions:
                for mds in sizes:
                    for rl in boundary_lengths(mds):
                        wire(phase, version, mds, 0x10E, "r" * rl)
                    for rl in (mds - 60, mds - 40, 3000):
                        wire(phase, version, mds, 0x10E, "\u00e9" * (rl // 2) + "\u20ac")
    else:
        # every boundary length in the phase that coalesces two close packets; every cell of the cross with a
        # short, two boundary, and an over-long reason
        for rl in boundary_lengths(1200):
            wire("client-complete-not-confirmed", r.choice(versions), 1200, 0x10E, "r" * rl)
        for phase in cp.PHASES:
            for version in versions:
                for mds in sizes:
                    bl = boundary_lengths(mds)
                    for rl in (r.choice(bl[:28]), r.choice(bl[12:])):
                        wire(phase, version, mds, r.choice([0x10E, 0x101, 0x33]), "r" * rl)
        for mds in sizes:
            wire(r.choice(cp.PHASES), r.choice(versions), mds, 0x10E, "\u00e9" * ((mds - r.randrange(30, 80)) // 2) + "\u20ac" * 9)
    # the reason texts the HTTP/3 layer really produced, in a random cell each
    for (code, reason), ops in todo:
        wire(r.choice(cp.PHASES), r.choice(versions), r.choice(sizes), code, reason, h3_ops=ops)
    ctx.notes["close_wire_scenarios"] = wire_n
    # model of the capacity arithmetic against the real builder: every call of
    # _write_connection_close_frame is observed (remaining space, reason length, outcome)
    from aioquic.quic.packet_builder import QuicPacketBuilderStop
    trunc_q = "1" if any(k.get("id") == "C16-close-reason-too-long" for k in core.load_known("C16") if k.get("status") == "finding") else "0"
    batch = g.Batch(ctx, "close-frame")
    case, outs = [], []
    lengths = [0, 1, 10, 100, 500, 600, 900, 1000, 1100, 1150, 1170, 1180, 1190, 1200, 1300, 3000]
    lengths += [r.randrange(0, 1400) for _ in range(60 if thorough else 12)]
    for rl in lengths:
        for early, ft in ((False, None), (True, None), (True, 0), (False, 0)):
            client, server, now = cp.pair(0 if early else 6)
            calls = []
            real = server._write_connection_close_frame

            def spy(builder, epoch, error_code, frame_type, reason_phrase, _real=real, _calls=calls):
                from aioquic import tls
                info = {"remaining": builder.remaining_buffer_space, "before": builder._buffer.tell()}
                eff_ft = frame_type
                eff_reason = reason_phrase
                eff_code = error_code
                if frame_type is None and epoch in (tls.Epoch.INITIAL, tls.Epoch.HANDSHAKE):
                    eff_ft, eff_reason, eff_code = 0, "", 0xC
                info["head"] = 1 + len(g.varint(eff_code)) + (0 if eff_ft is None else len(g.varint(eff_ft)))
                info["fixed"] = 17 if eff_ft is None else 25
                info["nvar"] = 2 if eff_ft is None else 3   # varints before the reason bytes, incl. its length
                info["rlen"] = len(eff_reason.encode("utf8"))
                _calls.append(info)
                try:
                    _real(builder=builder, epoch=epoch, error_code=error_code, frame_type=frame_type,
                          reason_phrase=reason_phrase)
                    info["after"] = builder._buffer.tell()
                except QuicPacketBuilderStop:
                    info["stop"] = True
                    raise
            server._write_connection_close_frame = spy
            server.close(error_code=0x10E, frame_type=ft, reason_phrase="r" * rl)
            try:
                server.datagrams_to_send(now=now + 0.1)
            except QuicPacketBuilderStop:
                pass
            for info in calls:
                if info.get("stop"):
                    res = "err QuicPacketBuilderStop"
                else:
                    written = info["after"] - info["before"]
                    # frame = type(1) + error code [+ frame type] + varint(n) + n
                    head = info["head"]
                    nreason = None
                    for ls in (1, 2, 4):
                        cand = written - head - ls
                        if cand >= 0 and len(g.varint(cand)) == ls:
                            nreason = cand
                    res = f"ok reason={nreason}"
                case.append(f"closef.frame {info['fixed']} {info['remaining']} {info['rlen']} {trunc_q}")
                outs.append(res)
            ctx.count(("closeframe", rl, early, ft), rl > 500)
    batch.add(case, outs, case)
    batch.finish()

    ctx.cov["rule"] = (
        "EVERY family below is run in BOTH logger configurations (quic_logger None / a real QuicLoggerTrace attached to "
        "the connection, so each `if self._quic_logger is not None:` block executes on the same bytes; the H3Parser "
        "model keeps of the logger only the strict utf-8 decoding of header lists (`logStep`/`logOk`), everything else "
        "in those blocks (length computations, encoders) is covered by the exception oracle of the logger-on runs, the "
        "model correspondence holds for both configurations; h0/connection.py reads no logger, its families are "
        "nevertheless run with one attached). "
        "As client and server: control stream with every SETTINGS payload shape (empty, "
        "truncated pair, truncated varint, reserved/duplicate ids, boolean settings out of range, datagram/"
        "webtransport dependencies, huge values) alone and after a valid SETTINGS; every frame type x payload shape "
        "(empty, truncated varint, huge length, valid/invalid/truncated QPACK, dynamic-table reference) on control, "
        "request, push streams, before and after valid prefixes, whole / byte-at-a-time / random chunkings; "
        "MAX_PUSH_ID payloads; unidirectional streams of every type incl. duplicates and FIN on critical streams; "
        "blocked HEADERS/PUSH_PROMISE resumed by the encoder stream with tails and FIN; genuine dynamic-table "
        "references (pylsqpack.Encoder output) on HEADERS, trailers, PUSH_PROMISE, push-stream HEADERS and trailers, two "
        "streams at once, for BOTH roles (also where the path is an error for the role), delivered before the encoder "
        "stream (blocked, resumed with frame_data=None), after it, with the FIN alone, encoder stream byte by byte, and "
        "randomly chunked + interleaved; datagrams; random frame soup; "
        "HTTP/0.9 request lines (no space, only whitespace, split across deliveries, FIN); every close reason the "
        "HTTP/3 layer produced replayed on a real handshaken QuicConnection pair (close + datagrams_to_send) and the "
        "close-frame capacity arithmetic against the real packet builder; close scenarios judged ON THE WIRE AT THE "
        "RECEIVER (real peer decrypts, harness/frames.py parses): {client confirmed, server confirmed, client handshake "
        "complete but HANDSHAKE_DONE lost (Handshake + 1-RTT close coalesced, peer has discarded Handshake keys), "
        "server before the handshake} x {QUIC v1, v2} x {max_datagram_size 1200, 1280, 1500} x reason lengths 0..20000 "
        "incl. every length from 170 below to 1 above the datagram size in steps of <= 20, multi-byte UTF-8 at the "
        "cut, and the reason texts the HTTP/3 layer produced in this run (quick: all boundary lengths in the "
        "coalescing phase, 2 lengths (any / boundary-or-over-long) in every cell of the cross; thorough: the full cross). Non-trivial = every case (each is a "
        "malformed or boundary input); distinct by op-sequence hash."
    )
    ctx.cov["exhaustive"] = True
    return ctx.finish()


def replay(path):
    """./check C16 --replay <file>: re-execute a recorded witness on the current tree;
    exit 1 = still failing, 0 = no longer failing"""
    import json
    tree.activate()
    from harness.impl_h3parser import H3Impl, ClosePath
    d = json.load(open(path))
    if d.get("kind") != "impl-witness":
        n = g.replay_broken(H3Impl, d.get("broken", []))
        print("still failing" if n else "no longer failing")
        return 1 if n else 0
    rp = d["replay"]
    problem = None
    if "close_wire" in rp:
        w = rp["close_wire"]
        problem, det = ClosePath().close_on_wire(w["phase"], w["version"], w["max_datagram_size"], w["error_code"],
                                                 w["reason_phrase"])
        if problem:
            problem += f" — observed at the receiver: {det}"
    elif "close" in rp:
        c = rp["close"]
        code, reason = (c["error_code"], c["reason_phrase"]) if isinstance(c, dict) else c
        exc, out = ClosePath().close_with(rp.get("endpoint", "server"), code, reason,
                                          early=rp.get("before_handshake_confirmed", False))
        if exc is not None:
            problem = f"{type(exc[0]).__name__} escapes datagrams_to_send (raised in {exc[1]})"
        elif not out:
            problem = "no closing datagram produced"
    else:
        H3Impl.h0_logging = bool(rp.get("h0_logging", False))
        outs, mlines, impl, done = g.run_case(H3Impl, [g.strip_answers(o) for o in rp["ops"]])
        if outs and outs[-1].startswith("err ") and impl.last_exc is not None:
            e, fn = impl.last_exc
            problem = f"{type(e).__name__} escapes handle_event (raised in {fn}) at op {len(done) - 1}: {e!s:.120}"
    if problem:
        print("VIOLATION-DETAIL", problem)
    print("still failing" if problem else "no longer failing")
    return 1 if problem else 0
