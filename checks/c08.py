"""C08 — loss-recovery and congestion accounting stay consistent.

proof:   AQ.Props.C08 (ledger, callbacks-once, window floor) for the model
         AQ.Model.Recovery, generic in the float arithmetic
tie:     T2 bit-exact correspondence (Lean Float = IEEE double) against the real
         QuicPacketRecovery + Reno/CUBIC for arbitrary interleavings
oracle:  ledger / once-only / floor evaluated on the implementation's trace
"""
from harness import core, rng, tree
from harness.impl_recovery import fbits


def gen_case(r, algo, n_ops, wellformed=True):
    mds = r.choice([1200, 1280, 1500])
    nsp = 3
    now = r.choice([0.0, 1.0, 1000.5])
    case = [f"rec.new {algo} {mds} {nsp} {fbits(r.choice([0.1, 0.02, 0.333]))}"]
    next_pn = [0, 0, 0]
    sent = [[], [], []]
    for _ in range(n_ops):
        now += r.choice([0.0, 0.0001, 0.001, 0.004, 0.02, 0.05, 0.3, 2.5]) * r.random()
        x = r.random()
        sp = r.choice([0, 1, 2, 2, 2])
        if x < 0.5:
            if wellformed or r.random() < 0.8 or not sent[sp]:
                pn = next_pn[sp]
                next_pn[sp] += r.choice([1, 1, 1, 2])
            else:
                pn = r.choice(sent[sp])
            sent[sp].append(pn)
            infl = r.random() < 0.85
            ae = infl and r.random() < 0.9 or (not infl and r.random() < 0.1)
            case.append(f"rec.sent {sp} {pn} {r.choice([40, 300, mds, mds - 1, 1])} {int(infl)} {int(ae)} {int(r.random() < 0.2)} {fbits(now)}")
        elif x < 0.85:
            # arbitrary ack range set: never-sent, already acked, partial
            hi = next_pn[sp] + r.choice([0, 0, 1, 5])
            ranges = []
            a = r.randrange(0, hi + 1)
            for _ in range(r.randrange(1, 4)):
                b = a + r.randrange(1, 5)
                ranges.append(f"{a}-{b}")
                a = b + r.randrange(1, 4)
            case.append(f"rec.ack {sp} {','.join(ranges)} {fbits(r.choice([0.0, 0.001, 0.03]))} {fbits(now)}")
        elif x < 0.93:
            case.append(f"rec.timeout {fbits(now)}")
        elif x < 0.97:
            case.append(f"rec.ldt {r.choice([0, 1])}")
        else:
            case.append(f"rec.discard {r.choice([0, 1]) if wellformed else r.choice([0, 1, 2, 3])}")
    return case


def oracle(case, out):
    """the property, evaluated on the implementation's trace (well-formed cases)"""
    mds = int(case[0].split()[2])
    live = [dict(), dict(), dict()]   # per space pn -> (bytes, inflight, uid)
    reported = {}
    uid = 0
    for op, line in zip(case, out):
        t = op.split()
        if line.startswith("err"):
            return f"recovery raised on {op!r}: {line.split(' | ')[0]}"
        if t[0] == "rec.ldt":
            continue
        kv = core.parse_kv(line)
        if t[0] == "rec.sent":
            live[int(t[1])][int(t[2])] = (int(t[3]), t[4] == "1", uid)
            uid += 1
        if t[0] == "rec.new":
            continue
        # callbacks: at most once per packet, ACKED xor LOST
        cbs = kv["cb"].strip("[]")
        for item in filter(None, cbs.split(",")):
            u, st = item.split(":")
            if u in reported:
                return f"packet uid {u} reported twice ({reported[u]} then {st}) at {op!r}"
            reported[u] = st
        # tracked sets per space as the implementation reports them
        spaces = line.split(" sp=")[1].split(" rtt=")[0].split(" ")
        total = 0
        for i, s in enumerate(spaces):
            pns = s.split(";")[0].strip("[]")
            keys = [int(p) for p in pns.split(",") if p]
            for k in list(live[i].keys()):
                if k not in keys:
                    del live[i][k]
            total += sum(b for k, (b, infl, _) in live[i].items() if infl)
        bif = int(kv["bif"])
        if bif != total:
            return f"bytes_in_flight={bif} but tracked in-flight packets total {total} after {op!r}"
        if bif < 0:
            return f"bytes_in_flight negative ({bif}) after {op!r}"
        if int(kv["cwnd"]) < 2 * mds:
            return f"congestion window {kv['cwnd']} below two datagrams ({2 * mds}) after {op!r}"
    return None


def nontrivial(case, out):
    return any(":L" in o for o in out) and any(":A" in o for o in out)


def main(tier):
    ctx = core.Ctx("C08", tier)
    tree.activate()
    from harness.impl_recovery import RecoveryImpl

    ctx.prove(["AQ.Props.C08"], [])
    ctx.cov["trusted_base"] = [
        "Lean 4.33.0 kernel (+ leanchecker in thorough tier)",
        "axioms: subset of {propext, Classical.choice, Quot.sound} (audited by #print axioms)",
        "model AQ.Model.Recovery is generic in the float arithmetic; theorems hold for every arithmetic; "
        "the correspondence instantiates it with Lean Float (IEEE double) and compares bit patterns",
        "harness/impl_recovery.py canonicalisation; CPython semantics between compared observations",
    ]
    ctx.assumptions = [
        "packet numbers given to on_packet_sent are fresh within a space (the connection uses one increasing counter)",
        "CUBIC window floor: int(c + y) >= c for y >= 0 and W_est monotone (IEEE-754 order facts, stated as hypotheses)",
        "flight-budget clause (in-flight bytes per datagrams_to_send <= window) is decided with C13's builder model",
    ]
    r = rng.make("c08")
    thorough = tier == "thorough"
    n = 300 if not thorough else 6000
    for algo in ("reno", "cubic"):
        cases = [gen_case(r, algo, r.choice([10, 40, 120])) for _ in range(n)]
        core.run_cases(ctx, f"recovery-{algo}", cases, RecoveryImpl, oracle, nontrivial)
        ctx.sample({algo: cases[0][:7]})
        cases = [gen_case(r, algo, r.choice([10, 40]), wellformed=False) for _ in range(n // 3)]
        core.run_cases(ctx, f"recovery-{algo}-malformed", cases, RecoveryImpl, None, nontrivial)
    ctx.cov["rule"] = (
        "random interleavings of send / ack(arbitrary range sets incl. never-sent and already-acked numbers) / "
        "loss-detection timeout / space discard at arbitrary times for Reno and CUBIC (well-formed: fresh packet "
        "numbers; malformed: reused numbers, bad space index — correspondence only). Non-trivial = at least one "
        "packet reported ACKED and one LOST; distinct by op-sequence hash."
    )
    return ctx.finish()
