"""C08 — loss-recovery and congestion accounting stay consistent.

proof:   AQ.Props.C08 (ledger, callbacks-once, window floor) for the model
         AQ.Model.Recovery, generic in the float arithmetic
tie:     T2 bit-exact correspondence (Lean Float = IEEE double) against the real
         QuicPacketRecovery + Reno/CUBIC for arbitrary interleavings
oracle:  ledger / once-only / floor evaluated on the implementation's trace
"""
from harness import core, rng, tree
from harness.impl_recovery import fbits


def gen_case(r, algo, n_ops, wellformed=True):
    mds = r.choice([1200, 1280, 1500])
    nsp = 3
    now = r.choice([0.0, 1.0, 1000.5])
    case = [f"rec.new {algo} {mds} {nsp} {fbits(r.choice([0.1, 0.02, 0.333]))}"]
    next_pn = [0, 0, 0]
    sent = [[], [], []]
    for _ in range(n_ops):
        now += r.choice([0.0, 0.0001, 0.001, 0.004, 0.02, 0.05, 0.3, 2.5]) * r.random()
        x = r.random()
        sp = r.choice([0, 1, 2, 2, 2])
        if x < 0.5:
            if wellformed or r.random() < 0.8 or not sent[sp]:
                pn = next_pn[sp]
                next_pn[sp] += r.choice([1, 1, 1, 2])
            else:
                pn = r.choice(sent[sp])
            sent[sp].append(pn)
            infl = r.random() < 0.85
            ae = infl and r.random() < 0.9 or (not infl and r.random() < 0.1)
            case.append(f"rec.sent {sp} {pn} {r.choice([40, 300, mds, mds - 1, 1])} {int(infl)} {int(ae)} {int(r.random() < 0.2)} {fbits(now)}")
        elif x < 0.85:
            # arbitrary ack range set: never-sent, already acked, partial
            hi = next_pn[sp] + r.choice([0, 0, 1, 5])
            ranges = []
            a = r.randrange(0, hi + 1)
            for _ in range(r.randrange(1, 4)):
                b = a + r.randrange(1, 5)
                ranges.append(f"{a}-{b}")
                a = b + r.randrange(1, 4)
            case.append(f"rec.ack {sp} {','.join(ranges)} {fbits(r.choice([0.0, 0.001, 0.03]))} {fbits(now)}")
        elif x < 0.93:
            case.append(f"rec.timeout {fbits(now)}")
        elif x < 0.97:
            case.append(f"rec.ldt {r.choice([0, 1])}")
        else:
            case.append(f"rec.discard {r.choice([0, 1]) if wellformed else r.choice([0, 1, 2, 3])}")
    return case


def oracle(case, out):
    """the property, evaluated on the implementation's trace (well-formed cases)"""
    mds = int(case[0].split()[2])
    live = [dict(), dict(), dict()]   # per space pn -> (bytes, inflight, uid)
    reported = {}
    uid = 0
    for op, line in zip(case, out):
        t = op.split()
        if line.startswith("err"):
            return f"recovery raised on {op!r}: {line.split(' | ')[0]}"
        if t[0] == "rec.ldt":
            continue
        kv = core.parse_kv(line)
        if t[0] == "rec.sent":
            live[int(t[1])][int(t[2])] = (int(t[3]), t[4] == "1", uid)
            uid += 1
        if t[0] == "rec.new":
            continue
        # callbacks: at most once per packet, ACKED xor LOST
        cbs = kv["cb"].strip("[]")
        for item in filter(None, cbs.split(",")):
            u, st = item.split(":")
            if u in reported:
                return f"packet uid {u} reported twice ({reported[u]} then {st}) at {op!r}"
            reported[u] = st
        # tracked sets per space as the implementation reports them
        spaces = line.split(" sp=")[1].split(" rtt=")[0].split(" ")
        total = 0
        for i, s in enumerate(spaces):
            pns = s.split(";")[0].strip("[]")
            keys = [int(p) for p in pns.split(",") if p]
            for k in list(live[i].keys()):
                if k not in keys:
                    del live[i][k]
            total += sum(b for k, (b, infl, _) in live[i].items() if infl)
        bif = int(kv["bif"])
        if bif != total:
            return f"bytes_in_flight={bif} but tracked in-flight packets total {total} after {op!r}"
        if bif < 0:
            return f"bytes_in_flight negative ({bif}) after {op!r}"
        if int(kv["cwnd"]) < 2 * mds:
            return f"congestion window {kv['cwnd']} below two datagrams ({2 * mds}) after {op!r}"
    return None


class LedgerMonitor:
    """connection-level oracle: after every API call the congestion controller's
    ledger equals the in-flight packets still tracked, and the window floor holds"""

    def __init__(self):
        self.problem = None
        self.calls = 0
        self.pre = None
        self.full_hits = 0

    def before_api(self, sim, ep, name, args, kw):
        if name == "datagrams_to_send":
            c = ep.conn
            known = {id(p) for sp in c._loss.spaces for p in sp.sent_packets.values()}
            self.pre = (c._loss.congestion_window, c._loss.bytes_in_flight, bool(c._probe_pending), known)

    def after_api(self, sim, ep, name, args, kw, res):
        if self.problem:
            return
        self.calls += 1
        loss = ep.conn._loss
        if name == "datagrams_to_send" and self.pre is not None and ep.conn._state.name in ("FIRSTFLIGHT", "CONNECTED"):
            # flight budget (last clause of the property): apart from ACK-only packets and
            # one probe datagram per timeout, no more in-flight bytes than the window allows
            cwnd, bif, probe, known = self.pre
            new = sum(p.sent_bytes for sp in loss.spaces for p in sp.sent_packets.values()
                      if p.in_flight and id(p) not in known)
            allowed = max(cwnd - bif, 0)
            if probe:
                allowed = max(allowed, ep.conn._max_datagram_size)
            if cwnd - bif < ep.conn._max_datagram_size:
                self.full_hits += 1
            if new > allowed:
                self.problem = (f"{ep.name}: one datagrams_to_send() put {new} in-flight bytes on the wire with "
                                f"window {cwnd}, {bif} already in flight, probe_pending={probe} (allowed {allowed})")
            self.pre = None
        tracked = sum(p.sent_bytes for sp in loss.spaces for p in sp.sent_packets.values() if p.in_flight)
        if loss.bytes_in_flight != tracked or loss.bytes_in_flight < 0:
            self.problem = (f"{ep.name}: bytes_in_flight={loss.bytes_in_flight} but tracked in-flight packets total "
                            f"{tracked} after {name}")
        elif loss.congestion_window < 2 * ep.conn._max_datagram_size:
            self.problem = f"{ep.name}: congestion window {loss.congestion_window} below two datagrams after {name}"
        for sp in loss.spaces:
            ae = sum(1 for p in sp.sent_packets.values() if p.is_ack_eliciting)
            if sp.ack_eliciting_in_flight != ae and not self.problem:
                self.problem = f"{ep.name}: ack_eliciting_in_flight={sp.ack_eliciting_in_flight} but {ae} tracked after {name}"


def connection_ledger(ctx, r, n):
    """handshakes with optional Retry / Version Negotiation, then lossy traffic"""
    from harness import sim as simmod
    from aioquic.quic.packet import encode_quic_retry, encode_quic_version_negotiation
    for k in range(n):
        seed = r.randrange(1 << 30)
        mon = LedgerMonitor()
        variant = ["plain", "retry", "vn", "full"][k % 4]
        copts = {"congestion_control_algorithm": r.choice(["reno", "cubic"])}
        if variant == "vn":
            copts["supported_versions"] = [0x6B3343CF, 1]   # v2 first, server answers VN offering v1
        s = simmod.Sim(seed, monitors=[mon], client_options=copts)
        trace = [variant]
        try:
            s.connect()
            c = s.client.conn
            if variant == "retry":
                s.pending.clear()
                pkt = encode_quic_retry(version=c._version, source_cid=bytes(8), destination_cid=c.host_cid,
                                        original_destination_cid=c._peer_cid.cid, retry_token=bytes(16))
                s.api(s.client, "receive_datagram", pkt, simmod.SERVER_ADDR, now=s.now)
                s.transmit(s.client)
                s.pending.clear()     # the standalone server of the sim does not validate tokens
            elif variant == "vn":
                s.pending.clear()
                pkt = encode_quic_version_negotiation(source_cid=c._peer_cid.cid, destination_cid=c.host_cid,
                                                      supported_versions=[1])
                s.api(s.client, "receive_datagram", pkt, simmod.SERVER_ADDR, now=s.now)
                s.transmit(s.client)
                s.pending.clear()
            elif variant == "full":
                # window filled during a blackout, then application pings / more writes / timers
                s.fair_phase(max_steps=60, done=lambda: c._handshake_confirmed)
                ep = r.choice(s.endpoints)
                sid = 0 if ep.is_client else 1
                s.api(ep, "send_stream_data", sid, bytes(r.choice([20000, 40000])), end_stream=False)
                for _ in range(60):        # the pacer releases the window gradually
                    s.transmit(ep)
                    s.pending.clear()
                    s.now += 0.002
                    lo = ep.conn._loss
                    if lo.congestion_window - lo.bytes_in_flight < ep.conn._max_datagram_size:
                        break
                for i in range(r.randrange(3, 10)):
                    x = r.random()
                    if x < 0.4:
                        s.api(ep, "send_ping", 100 + i)
                    elif x < 0.7:
                        s.api(ep, "send_stream_data", sid, bytes(r.randrange(1, 3000)), end_stream=False)
                    else:
                        s.fire_timer(ep)
                    s.transmit(ep)
                    s.pending.clear()
            else:
                s.fair_phase(max_steps=60, done=lambda: c._handshake_confirmed)
                for i in range(r.randrange(5, 60)):
                    if r.random() < 0.3:
                        ep = r.choice(s.endpoints)
                        sid = 0 if ep.is_client else 1
                        s.api(ep, "send_stream_data", sid, bytes(r.randrange(1, 4000)), end_stream=False)
                        s.transmit(ep)
                    else:
                        s.adversarial_step(p_drop=0.3)
            for _ in range(6):
                s.fire_timer(s.client)
        finally:
            s.close_taps()
        ctx.count(("conn-ledger", seed, variant), mon.calls > 10)
        if mon.problem:
            ctx.witness(mon.problem, {"scenario": variant, "seed": seed, "trace": s.log[-30:]},
                        {"oracle": "connection-ledger", "scenario": variant})
    ctx.cov["traces_validated_against_impl"] += n


def nontrivial(case, out):
    return any(":L" in o for o in out) and any(":A" in o for o in out)


def main(tier):
    ctx = core.Ctx("C08", tier)
    tree.activate()
    from harness.impl_recovery import RecoveryImpl

    ctx.prove(["AQ.Props.C08", "AQ.Props.C08b"], [])
    ctx.cov["trusted_base"] = [
        "Lean 4.33.0 kernel (+ leanchecker in thorough tier)",
        "axioms: subset of {propext, Classical.choice, Quot.sound} (audited by #print axioms)",
        "model AQ.Model.Recovery is generic in the float arithmetic; theorems hold for every arithmetic; "
        "the correspondence instantiates it with Lean Float (IEEE double) and compares bit patterns",
        "harness/impl_recovery.py canonicalisation; CPython semantics between compared observations",
    ]
    ctx.assumptions = [
        "packet numbers given to on_packet_sent are fresh within a space (the connection uses one increasing counter)",
        "CUBIC window floor: int(c + y) >= c for y >= 0 and W_est monotone (IEEE-754 order facts, stated as hypotheses)",
        "flight-budget clause (in-flight bytes per datagrams_to_send <= window) is decided with C13's builder model",
    ]
    r = rng.make("c08")
    thorough = tier == "thorough"
    n = 300 if not thorough else 6000
    for algo in ("reno", "cubic"):
        cases = [gen_case(r, algo, r.choice([10, 40, 120])) for _ in range(n)]
        core.run_cases(ctx, f"recovery-{algo}", cases, RecoveryImpl, oracle, nontrivial)
        ctx.sample({algo: cases[0][:7]})
        cases = [gen_case(r, algo, r.choice([10, 40]), wellformed=False) for _ in range(n // 3)]
        core.run_cases(ctx, f"recovery-{algo}-malformed", cases, RecoveryImpl, None, nontrivial)
    connection_ledger(ctx, r, 32 if not thorough else 800)
    ctx.cov["rule"] = (
        "random interleavings of send / ack(arbitrary range sets incl. never-sent and already-acked numbers) / "
        "loss-detection timeout / space discard at arbitrary times for Reno and CUBIC (well-formed: fresh packet "
        "numbers; malformed: reused numbers, bad space index — correspondence only). Non-trivial = at least one "
        "packet reported ACKED and one LOST; distinct by op-sequence hash. Plus real client/server connections (plain lossy "
        "traffic, client receiving a Retry, client receiving Version Negotiation) with the ledger oracle after every API call."
    )
    return ctx.finish()
