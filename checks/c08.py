"""C08 — loss-recovery and congestion accounting stay consistent.

proof:   AQ.Props.C08 (ledger, callbacks-once, window floor) for the model
         AQ.Model.Recovery, generic in the float arithmetic
tie:     T2 bit-exact correspondence (Lean Float = IEEE double) against the real
         QuicPacketRecovery + Reno/CUBIC for arbitrary interleavings
oracle:  ledger / once-only / floor evaluated on the implementation's trace;
         flight budget (last clause) evaluated per datagrams_to_send() on real
         connections (in-flight bytes of the packets sent by the call <= window -
         bytes in flight before it; one datagram more per probe timeout, the
         timeouts being counted by the harness from the PTO count, never read from
         the connection's own _probe_pending flag) —
         including a resuming client whose window is 1199 .. max_datagram_size+1
         from full when its padded Initial+Handshake+1-RTT datagram is built — and
         on the real packet builder over the coalescing x budget grid
"""
from harness import core, rng, tree
from harness.impl_recovery import fbits


def gen_case(r, algo, n_ops, wellformed=True):
    mds = r.choice([1200, 1280, 1500])
    nsp = 3
    now = r.choice([0.0, 1.0, 1000.5])
    case = [f"rec.new {algo} {mds} {nsp} {fbits(r.choice([0.1, 0.02, 0.333]))}"]
    next_pn = [0, 0, 0]
    sent = [[], [], []]
    for _ in range(n_ops):
        now += r.choice([0.0, 0.0001, 0.001, 0.004, 0.02, 0.05, 0.3, 2.5]) * r.random()
        x = r.random()
        sp = r.choice([0, 1, 2, 2, 2])
        if x < 0.5:
            if wellformed or r.random() < 0.8 or not sent[sp]:
                pn = next_pn[sp]
                next_pn[sp] += r.choice([1, 1, 1, 2])
            else:
                pn = r.choice(sent[sp])
            sent[sp].append(pn)
            infl = r.random() < 0.85
            ae = infl and r.random() < 0.9 or (not infl and r.random() < 0.1)
            case.append(f"rec.sent {sp} {pn} {r.choice([40, 300, mds, mds - 1, 1])} {int(infl)} {int(ae)} {int(r.random() < 0.2)} {fbits(now)}")
        elif x < 0.85:
            # arbitrary ack range set: never-sent, already acked, partial
            hi = next_pn[sp] + r.choice([0, 0, 1, 5])
            ranges = []
            a = r.randrange(0, hi + 1)
            for _ in range(r.randrange(1, 4)):
                b = a + r.randrange(1, 5)
                ranges.append(f"{a}-{b}")
                a = b + r.randrange(1, 4)
            case.append(f"rec.ack {sp} {','.join(ranges)} {fbits(r.choice([0.0, 0.001, 0.03]))} {fbits(now)}")
        elif x < 0.93:
            case.append(f"rec.timeout {fbits(now)}")
        elif x < 0.97:
            case.append(f"rec.ldt {r.choice([0, 1])}")
        else:
            case.append(f"rec.discard {r.choice([0, 1]) if wellformed else r.choice([0, 1, 2, 3])}")
    return case


def oracle(case, out):
    """the property, evaluated on the implementation's trace (well-formed cases)"""
    mds = int(case[0].split()[2])
    live = [dict(), dict(), dict()]   # per space pn -> (bytes, inflight, uid)
    reported = {}
    uid = 0
    for op, line in zip(case, out):
        t = op.split()
        if line.startswith("err"):
            return f"recovery raised on {op!r}: {line.split(' | ')[0]}"
        if t[0] == "rec.ldt":
            continue
        kv = core.parse_kv(line)
        if t[0] == "rec.sent":
            live[int(t[1])][int(t[2])] = (int(t[3]), t[4] == "1", uid)
            uid += 1
        if t[0] == "rec.new":
            continue
        # callbacks: at most once per packet, ACKED xor LOST
        cbs = kv["cb"].strip("[]")
        for item in filter(None, cbs.split(",")):
            u, st = item.split(":")
            if u in reported:
                return f"packet uid {u} reported twice ({reported[u]} then {st}) at {op!r}"
            reported[u] = st
        # tracked sets per space as the implementation reports them
        spaces = line.split(" sp=")[1].split(" rtt=")[0].split(" ")
        total = 0
        for i, s in enumerate(spaces):
            pns = s.split(";")[0].strip("[]")
            keys = [int(p) for p in pns.split(",") if p]
            for k in list(live[i].keys()):
                if k not in keys:
                    del live[i][k]
            total += sum(b for k, (b, infl, _) in live[i].items() if infl)
        bif = int(kv["bif"])
        if bif != total:
            return f"bytes_in_flight={bif} but tracked in-flight packets total {total} after {op!r}"
        if bif < 0:
            return f"bytes_in_flight negative ({bif}) after {op!r}"
        if int(kv["cwnd"]) < 2 * mds:
            return f"congestion window {kv['cwnd']} below two datagrams ({2 * mds}) after {op!r}"
    return None


class LedgerMonitor:
    """connection-level oracle: after every API call the congestion controller's
    ledger equals the in-flight packets still tracked, and the window floor holds"""

    def __init__(self):
        self.problem = None
        self.calls = 0
        self.pre = None
        self.full_hits = 0
        self.built = []          # packets protected during the current datagrams_to_send()
        self.tail_padded = 0     # in-flight datagrams that ended in datagram-level padding
        # the probe allowance is the property's, counted here and not read from the connection:
        # every probe timeout (a handle_timer() call in which the loss-detection timer expired with
        # no loss time armed: the PTO count went up) grants ONE datagram beyond the window; a grant
        # is used up by the first later call that puts in-flight bytes on the wire beyond the window
        self.spaces_before = None
        self.reinit_with_other_spaces = 0   # re-initialisations that found packets outside the Initial space
        self.grants = {}
        self.pto_before = None
        self.timeouts = 0
        self.probes_beyond_window = 0

    def on_packet_built(self, sim, ep, epoch, pn, hdr, payload, outlen):
        # in flight per RFC 9002 section 2, from the plaintext frames (harness/frames.py parser)
        from harness import sim as simmod
        fr = simmod.parse_payload(payload)
        self.built.append({"epoch": epoch, "len": outlen, "in_flight": any(
            f.get("name") not in ("ACK", "ACK_ECN", "TRANSPORT_CLOSE", "APPLICATION_CLOSE") for f in fr)})

    def wire_in_flight(self, res):
        """in-flight bytes on the wire of the datagrams one call returned: for a datagram carrying at
        least one in-flight packet, its length (padding after the last packet included) minus its
        acknowledgement-only packets; packets are laid out back to back, a 1-RTT packet ends its datagram"""
        q, total = list(self.built), 0
        for data, _ in res or []:
            inside, used = [], 0
            while q and used + q[0]["len"] <= len(data):
                p = q.pop(0)
                inside.append(p)
                used += p["len"]
                if p["epoch"] == "ONE_RTT":
                    break
            if any(p["in_flight"] for p in inside):
                total += len(data) - sum(p["len"] for p in inside if not p["in_flight"])
                self.tail_padded += used < len(data)
        return total

    def before_api(self, sim, ep, name, args, kw):
        # which packet-number-space objects recovery tracks, and what each holds, before the call
        self.spaces_before = [(sp, list(sp.sent_packets.values())) for sp in ep.conn._loss.spaces]
        if name == "handle_timer":
            self.pto_before = ep.conn._loss._pto_count
        if name == "datagrams_to_send":
            c = ep.conn
            self.built = []
            known = {id(p) for sp in c._loss.spaces for p in sp.sent_packets.values()}
            self.pre = (c._loss.congestion_window, c._loss.bytes_in_flight, self.grants.get(ep.name, 0), known)

    def after_api(self, sim, ep, name, args, kw, res):
        if self.problem:
            return
        self.calls += 1
        loss = ep.conn._loss
        if self.spaces_before is not None:
            # the tie to the recovery model's `discard`: a space object the connection stops tracking
            # (Retry, Version Negotiation, key discard) must have been emptied through discard_space /
            # acknowledgement / loss — observed on the object itself, whatever the connection believes
            # can have been sent in it
            now_ids = {id(sp) for sp in loss.spaces}
            gone = [(i, sp, pk) for i, (sp, pk) in enumerate(self.spaces_before) if id(sp) not in now_ids]
            if gone and any(pk for i, sp, pk in gone if i != 0):
                self.reinit_with_other_spaces += 1
            for i, sp, pk in gone:
                left = [p for p in sp.sent_packets.values()]
                if left:
                    self.problem = (f"{ep.name}: {name} replaced packet number space #{i} while it still tracked "
                                    f"{len(left)} packet(s), {sum(p.sent_bytes for p in left if p.in_flight)} in-flight "
                                    f"bytes: they were never discarded, acknowledged or declared lost "
                                    f"(bytes_in_flight now {loss.bytes_in_flight})")
            self.spaces_before = None
        if name == "handle_timer" and self.pto_before is not None:
            if loss._pto_count > self.pto_before:
                self.grants[ep.name] = self.grants.get(ep.name, 0) + 1
                self.timeouts += 1
            self.pto_before = None
        if name == "datagrams_to_send" and self.pre is not None and ep.conn._state.name in ("FIRSTFLIGHT", "CONNECTED"):
            # flight budget (last clause of the property): apart from ACK-only packets and
            # one probe datagram per timeout, no more in-flight bytes than the window allows
            cwnd, bif, probe, known = self.pre
            new = sum(p.sent_bytes for sp in loss.spaces for p in sp.sent_packets.values()
                      if p.in_flight and id(p) not in known)
            allowed = max(cwnd - bif, 0)
            if probe:
                allowed = max(allowed, ep.conn._max_datagram_size)
            if cwnd - bif < ep.conn._max_datagram_size:
                self.full_hits += 1
            wire = self.wire_in_flight(res)
            why = (f"window {cwnd}, {bif} already in flight, {probe} unused probe allowance(s) from probe timeouts "
                   f"({self.timeouts} so far) (allowed {allowed})")
            if new > allowed:
                self.problem = f"{ep.name}: one datagrams_to_send() put {new} in-flight bytes on the wire with {why}"
            elif wire > allowed:
                self.problem = (f"{ep.name}: one datagrams_to_send() put {wire} in-flight bytes on the wire (datagrams "
                                f"{[len(d) for d, _ in res]}, acknowledgement-only packets not counted; the packets "
                                f"registered with recovery total {new}) with {why}")
            if probe and max(new, wire) > max(cwnd - bif, 0):
                self.grants[ep.name] = probe - 1
                self.probes_beyond_window += 1
            self.pre = None
        tracked = sum(p.sent_bytes for sp in loss.spaces for p in sp.sent_packets.values() if p.in_flight)
        if loss.bytes_in_flight != tracked or loss.bytes_in_flight < 0:
            self.problem = (f"{ep.name}: bytes_in_flight={loss.bytes_in_flight} but tracked in-flight packets total "
                            f"{tracked} after {name}" + (f" [{self.problem}]" if self.problem else ""))
        elif loss.congestion_window < 2 * ep.conn._max_datagram_size:
            self.problem = f"{ep.name}: congestion window {loss.congestion_window} below two datagrams after {name}"
        for sp in loss.spaces:
            ae = sum(1 for p in sp.sent_packets.values() if p.is_ack_eliciting)
            if sp.ack_eliciting_in_flight != ae and not self.problem:
                self.problem = f"{ep.name}: ack_eliciting_in_flight={sp.ack_eliciting_in_flight} but {ae} tracked after {name}"


def run_ledger_scenario(variant, seed, algo):
    """one handshake with optional Retry / Version Negotiation, then lossy traffic; everything
    random derives from (variant, seed), so a replay file re-executes it exactly"""
    import random
    from harness import sim as simmod
    from aioquic.quic.packet import encode_quic_retry, encode_quic_version_negotiation
    r = random.Random(f"c08/{variant}/{seed}")
    mon = LedgerMonitor()
    copts = {"congestion_control_algorithm": algo}
    skw = {}
    early = variant in ("retry0", "vn0")      # resuming client with 0-RTT data in its first flight
    if early:
        variant = variant[:-1]
        tick, store = _ticket(1280)           # from a complete earlier connection of the same pair
        copts["session_ticket"] = tick
        skw["session_ticket_fetcher"] = store.get
    if variant == "vn":
        copts["supported_versions"] = [0x6B3343CF, 1]   # v2 first, server answers VN offering v1
    s = simmod.Sim(seed, monitors=[mon], client_options=copts, server_kwargs=skw)
    try:
        if early:
            s.api(s.client, "connect", simmod.SERVER_ADDR, now=s.now)
            # 1..3 datagrams of early stream data travel with the first flight (application pn space)
            for _ in range(r.randrange(1, 3)):
                s.api(s.client, "send_stream_data", 0, bytes(r.randrange(1, 1700)), end_stream=False)
            for _ in range(r.randrange(1, 4)):
                s.transmit(s.client)
                s.now += 0.002
                if r.random() < 0.5:
                    s.api(s.client, "send_stream_data", 0, bytes(r.randrange(1, 1200)), end_stream=False)
        else:
            s.connect()
        c = s.client.conn
        if variant == "retry":
            s.pending.clear()
            pkt = encode_quic_retry(version=c._version, source_cid=bytes(8), destination_cid=c.host_cid,
                                    original_destination_cid=c._peer_cid.cid, retry_token=bytes(16))
            s.api(s.client, "receive_datagram", pkt, simmod.SERVER_ADDR, now=s.now)
            s.transmit(s.client)
            s.pending.clear()     # the standalone server of the sim does not validate tokens
        elif variant == "vn":
            s.pending.clear()
            pkt = encode_quic_version_negotiation(source_cid=c._peer_cid.cid, destination_cid=c.host_cid,
                                                  supported_versions=[1])
            s.api(s.client, "receive_datagram", pkt, simmod.SERVER_ADDR, now=s.now)
            s.transmit(s.client)
            s.pending.clear()
        elif variant == "full":
            # window filled during a blackout, then application pings / more writes / timers
            s.fair_phase(max_steps=60, done=lambda: c._handshake_confirmed)
            ep = r.choice(s.endpoints)
            sid = 0 if ep.is_client else 1
            s.api(ep, "send_stream_data", sid, bytes(r.choice([20000, 40000])), end_stream=False)
            for _ in range(60):        # the pacer releases the window gradually
                s.transmit(ep)
                s.pending.clear()
                s.now += 0.002
                lo = ep.conn._loss
                if lo.congestion_window - lo.bytes_in_flight < ep.conn._max_datagram_size:
                    break
            for i in range(r.randrange(3, 10)):
                x = r.random()
                if x < 0.4:
                    s.api(ep, "send_ping", 100 + i)
                elif x < 0.7:
                    s.api(ep, "send_stream_data", sid, bytes(r.randrange(1, 3000)), end_stream=False)
                else:
                    s.fire_timer(ep)
                s.transmit(ep)
                s.pending.clear()
        elif variant == "pto":
            # full window, at least two datagrams of stream data still queued, then a blackout long
            # enough for 1..3 probe timeouts, datagrams_to_send() being called several times after each
            # (an event loop calls it after every event), optionally with the application waking up
            s.fair_phase(max_steps=60, done=lambda: c._handshake_confirmed)
            ep = r.choice(s.endpoints)
            sid = 0 if ep.is_client else 1
            lo = ep.conn._loss
            mds = ep.conn._max_datagram_size
            s.api(ep, "send_stream_data", sid, bytes(lo.congestion_window + r.choice([2, 3, 8, 30]) * mds), end_stream=False)
            for _ in range(80):        # the pacer releases the window gradually
                s.transmit(ep)
                s.pending.clear()
                s.now += 0.002
                if lo.congestion_window - lo.bytes_in_flight < mds:
                    break
            for _ in range(r.randrange(1, 4)):
                for _ in range(6):     # ack / pacing timers may come first
                    before = lo._pto_count
                    t = s.check_timer(ep)
                    if t is None:
                        break
                    s.now = max(s.now, t)
                    s.api(ep, "handle_timer", now=s.now)
                    if lo._pto_count > before:
                        break
                    s.transmit(ep)
                    s.pending.clear()
                for _ in range(r.randrange(1, 6)):
                    x = r.random()
                    if x < 0.15:
                        s.api(ep, "send_stream_data", sid, bytes(r.randrange(1, 3000)), end_stream=False)
                    elif x < 0.25:
                        s.api(ep, "send_ping", r.randrange(1000))
                    s.transmit(ep)
                    s.pending.clear()
                    s.now += r.choice([0.0, 0.0005, 0.003])
            s.fair_phase(max_steps=80)     # the blackout ends
        else:
            s.fair_phase(max_steps=60, done=lambda: c._handshake_confirmed)
            for i in range(r.randrange(5, 60)):
                if r.random() < 0.3:
                    ep = r.choice(s.endpoints)
                    sid = 0 if ep.is_client else 1
                    s.api(ep, "send_stream_data", sid, bytes(r.randrange(1, 4000)), end_stream=False)
                    s.transmit(ep)
                else:
                    s.adversarial_step(p_drop=0.3)
        if early:
            for _ in range(r.randrange(1, 4)):
                s.api(s.client, "send_stream_data", 0, bytes(r.randrange(1, 3000)), end_stream=False)
                s.transmit(s.client)
                s.now += 0.002
        for _ in range(6):
            s.fire_timer(s.client)
    finally:
        s.close_taps()
    return mon, s


def connection_ledger(ctx, r, n):
    """handshakes with optional Retry / Version Negotiation, then lossy traffic"""
    probes = reinit = 0
    for k in range(n):
        seed = r.randrange(1 << 30)
        variant = ["plain", "retry", "vn", "full", "pto", "pto", "retry0", "vn0"][k % 8]
        algo = ["reno", "cubic"][(k // 6) % 2] if variant == "pto" else r.choice(["reno", "cubic"])
        mon, s = run_ledger_scenario(variant, seed, algo)
        probes += mon.probes_beyond_window if variant == "pto" else 0
        reinit += mon.reinit_with_other_spaces
        ctx.count(("conn-ledger", seed, variant), mon.calls > 10)
        if mon.problem:
            ctx.witness(mon.problem, {"harness": "ledger", "scenario": variant, "seed": seed, "algo": algo,
                                      "trace": s.log[-30:]},
                        {"oracle": "connection-ledger", "scenario": variant})
    ctx.cov["traces_validated_against_impl"] += n
    ctx.notes["pto_probe_datagrams_beyond_window"] = probes
    ctx.notes["reinitialisations_with_0rtt_packets_tracked"] = reinit
    if reinit == 0:
        ctx.broken.append({"kind": "audit", "hit": "no Retry / Version Negotiation re-initialisation found packets "
                                                   "tracked outside the Initial space (0-RTT data in flight)"})
    if probes == 0:
        ctx.broken.append({"kind": "audit", "hit": "the blackout scenario no longer produces a probe datagram beyond a full window"})


# ---------------------------------------------------------------- nearly full window at handshake time
def split_coalesced(data):
    """the QUIC v1 packets coalesced in one datagram (RFC 9000 §12.2, §17.2: every long-header
    packet carries its Length; a short-header packet extends to the end)"""
    from harness import frames as F
    out, i = [], 0
    while i < len(data):
        b0 = data[i]
        if not b0 & 0x80:
            out.append(data[i:])
            break
        j = i + 5
        j += 1 + data[j]
        j += 1 + data[j]
        if (b0 & 0x30) == 0x00:       # Initial: token
            n, j = F.get_varint(data, j)
            j += n
        n, j = F.get_varint(data, j)
        out.append(data[i:j + n])
        i = j + n
    return out


_tickets = {}


def _ticket(mds):
    """a session ticket (and the server-side store entry) obtained from a complete earlier connection"""
    if mds not in _tickets:
        from harness import sim as simmod
        srv, cli = [], []
        s0 = simmod.Sim(f"c08/ticket/{mds}", client_kwargs={"session_ticket_handler": cli.append},
                        server_kwargs={"session_ticket_handler": srv.append},
                        client_options={"max_datagram_size": mds}, server_options={"max_datagram_size": mds})
        s0.handshake()
        s0.fair_phase(max_steps=50, done=lambda: bool(cli))
        s0.close_taps()
        _tickets[mds] = (cli[0], {t.ticket: t for t in srv})
    return _tickets[mds]


def run_coalesce(seed, mds, algo, target, last_write, shape="full"):
    """A resuming client fills its congestion window with 0-RTT data so that, at the moment its
    datagram Initial(ACK) + Handshake(Finished) + 1-RTT(stream data) is built, exactly `target`
    bytes of window remain (target swept around 1200 .. max_datagram_size).

      1. connect + 0-RTT stream data (several datagrams in flight);
      2. the server's reply datagram is split by the network: only its Initial packet arrives (ACK
         of the client Initial, ServerHello) — no 1-RTT keys yet;
      3. the client writes more 0-RTT data, sized from the packet overhead observed on the wire, until
         cwnd - bytes_in_flight == target; these datagrams (carrying the Initial ACK) are lost;
      4. the server's PTO retransmits Initial + Handshake + 1-RTT in one datagram: the client must
         acknowledge the new Initial, finish the handshake and has 1-RTT data to send;
      5. datagrams_to_send(): the flight-budget oracle of LedgerMonitor judges it; then the
         connection runs on without loss.
    shape "initial-only": in step 4 the network again lets only the Initial packet of the server's
    datagram through, so the judged datagram is Initial(ACK) + 0-RTT(last_write bytes) with the
    padding RFC 9000 14.1 requires appended after the last packet instead of inside a 1-RTT packet.
    Returns (monitor, sim, info)."""
    from harness import sim as simmod
    tick, store = _ticket(mds)
    mon = LedgerMonitor()
    s = simmod.Sim(seed, monitors=[mon],
                   client_options={"max_datagram_size": mds, "session_ticket": tick,
                                   "congestion_control_algorithm": algo},
                   server_options={"max_datagram_size": mds, "congestion_control_algorithm": algo},
                   server_kwargs={"session_ticket_fetcher": store.get})
    info = {"reached": None, "coalesced": False}
    try:
        c, sv = s.client, s.server
        lo = c.conn._loss
        room = lambda: lo.congestion_window - lo.bytes_in_flight

        def flush():
            """datagrams_to_send until the pacer has released everything that fits"""
            idle = 0
            for _ in range(80):
                idle = idle + 1 if s.transmit(c) == 0 else 0
                if idle >= 3:
                    break
                s.now += 0.002

        s.api(c, "connect", simmod.SERVER_ADDR, now=s.now)
        s.api(c, "send_stream_data", 0, bytes(6 * mds))
        flush()
        first = s.pending[:]
        s.pending.clear()
        s.now += 0.01
        for d in first:
            s.api(sv, "receive_datagram", d["data"], d["from"], now=s.now)
        s.transmit(sv)
        reply = [d for d in s.pending if d["dst"] is c]
        s.pending.clear()
        if not reply:
            return mon, s, info
        s.now += 0.01
        s.api(c, "receive_datagram", split_coalesced(reply[0]["data"])[0], reply[0]["from"], now=s.now)
        # bring the remaining window to `target`: a coarse write, a probe write to learn the per-packet
        # overhead from the implementation's own packet, then the exact one
        if room() > target + 900:
            s.api(c, "send_stream_data", 0, bytes(room() - target - 800))
            flush()
        before = room()
        s.api(c, "send_stream_data", 0, bytes(200))
        flush()
        overhead = before - room() - 200
        need = room() - target - overhead
        if need >= 1:
            s.api(c, "send_stream_data", 0, bytes(need))
            flush()
        info["reached"] = room()
        s.pending.clear()                       # lost, with the client's Initial ACK
        t = sv.conn._loss.get_loss_detection_time()
        if t is not None:
            s.now = max(s.now, t)
        s.api(sv, "handle_timer", now=s.now)
        s.transmit(sv)
        again = [d for d in s.pending if d["dst"] is c]
        s.pending.clear()
        s.now += 0.01
        for d in again[:1]:
            data = d["data"] if shape == "full" else split_coalesced(d["data"])[0]
            s.api(c, "receive_datagram", data, d["from"], now=s.now)
        info["reached"] = room()
        if last_write:
            s.api(c, "send_stream_data", 0, bytes(last_write))
        n0, tp0 = len(s.pending), mon.tail_padded
        s.transmit(c)
        info["tail_padded"] = mon.tail_padded > tp0
        out = s.pending[n0:]
        info["coalesced"] = any(len(split_coalesced(d["data"])) >= 2 and not split_coalesced(d["data"])[-1][0] & 0x80
                                for d in out)
        info["datagrams"] = [len(d["data"]) for d in out]
        s.fair_phase(max_steps=60, done=lambda: c.conn._handshake_confirmed and not s.pending)
    finally:
        s.close_taps()
    return mon, s, info


def coalesce_targets(mds):
    return sorted({1199, 1200, 1201, 1216, (1200 + mds) // 2, mds - 64, mds - 1, mds, mds + 1, 2 * mds - 40})


def coalesce_budget(ctx, r, thorough):
    """window within [1199, max_datagram_size + 1] (and beyond) of full when a padded
    Initial + Handshake + 1-RTT datagram is built, Reno and CUBIC, four datagram sizes"""
    n = hit = band = tail = 0
    for mds in (1200, 1280, 1350, 1500):
        targets = coalesce_targets(mds)
        if thorough:
            targets = sorted(set(targets) | set(range(1196, mds + 4, 7)))
        for algo in ("reno", "cubic"):
            for target in targets:
                seed = r.randrange(1 << 30)
                # 0: nothing for the 1-RTT packet, the datagram ends in datagram-level padding
                shape = ["full", "initial-only"][n % 2] if target < mds else r.choice(["full", "initial-only"])
                last = r.choice([0, 1, 300, 3000] if shape == "full" else [1, 40, 300])
                mon, s, info = run_coalesce(seed, mds, algo, target, last, shape)
                n += 1
                hit += info["reached"] == target
                inband = info["coalesced"] and info["reached"] is not None and 1200 <= info["reached"] < mds
                band += inband
                tail += bool(inband and info.get("tail_padded"))
                ctx.count(("coalesce", mds, algo, target, last, shape), info["coalesced"])
                if mon.problem:
                    ctx.witness(mon.problem, {"harness": "coalesce", "seed": seed, "mds": mds, "algo": algo,
                                              "target": target, "last_write": last, "shape": shape, "window_left": info["reached"],
                                              "datagrams": info.get("datagrams"), "trace": s.log[-12:]},
                                {"oracle": "connection-ledger", "scenario": "coalesce"})
    ctx.cov["traces_validated_against_impl"] += n
    ctx.notes["coalesce"] = {"runs": n, "window_exactly_at_target": hit, "padded_initial_1rtt_datagram_with_window_in_[1200,mds)": band,
                             "of_which_padded_after_the_last_packet": tail}
    if band == 0 or tail == 0 or tail == band:
        ctx.broken.append({"kind": "audit", "hit": "coalesce scenario no longer produces both kinds of padded Initial "
                                                   "datagram (padding inside the 1-RTT packet / after the last packet) "
                                                   f"with the remaining window in [1200, max_datagram_size): {band} / {tail}"})


# ---------------------------------------------------------------- the builder under a flight budget
def builder_flight(ctx, thorough):
    """last clause at the place that enforces it: for every padding-requiring Initial, alone or
    coalesced with Handshake / 0-RTT / 1-RTT packets (gen_coalesce: padding inside the 1-RTT packet;
    gen_initial_tail: padding appended after the last packet), over the budget grid, the in-flight
    bytes the real QuicPacketBuilder puts on the wire never exceed the max_flight_bytes it was given.
    Accounting (harness/oracle_builder.wire_in_flight, reading only what flush() returned): a
    datagram that carries an in-flight packet counts with its whole length minus its
    acknowledgement-only packets — not just the sizes of the returned packets, because padding
    appended to the datagram is in no packet's sent_bytes and yet is on the wire."""
    from harness import gen_builder as G, oracle_builder as O
    from harness.impl_builder import BuilderImpl
    n = {}
    for name, gen in (("coalesce", G.gen_coalesce), ("initial-tail", G.gen_initial_tail)):
        for case in gen():
            t = case[0].split()
            if t[7] == "none" or (t[8] != "none" and not thorough):
                continue
            case, out = G.resolve(case, BuilderImpl)      # "@cap"/"@half"/"@all" -> sizes the builder offered
            n[name] = n.get(name, 0) + 1
            v = O.check(case, out, True, wire=True) or O.check(case, out, True)
            ctx.count(("builder-flight", tuple(case)), any(o.startswith("ok d=[1") for o in out))
            if v and v[0] == "flight":
                ctx.witness("packet builder: " + v[1], {"harness": "builder", "ops": case, "impl_output": out},
                            {"oracle": "builder-flight", "cases": name})
    ctx.cov["traces_validated_against_impl"] += sum(n.values())
    ctx.notes["builder_flight_cases"] = n


def nontrivial(case, out):
    return any(":L" in o for o in out) and any(":A" in o for o in out)


def main(tier):
    ctx = core.Ctx("C08", tier)
    tree.activate()
    from harness.impl_recovery import RecoveryImpl

    ctx.prove(["AQ.Props.C08", "AQ.Props.C08b"], [])
    ctx.cov["trusted_base"] = [
        "Lean 4.33.0 kernel (+ leanchecker in thorough tier)",
        "axioms: subset of {propext, Classical.choice, Quot.sound} (audited by #print axioms)",
        "model AQ.Model.Recovery is generic in the float arithmetic; theorems hold for every arithmetic; "
        "the correspondence instantiates it with Lean Float (IEEE double) and compares bit patterns",
        "harness/impl_recovery.py canonicalisation; CPython semantics between compared observations",
    ]
    ctx.assumptions = [
        "packet numbers given to on_packet_sent are fresh within a space (the connection uses one increasing counter)",
        "CUBIC window floor: int(c + y) >= c for y >= 0 and W_est monotone (IEEE-754 order facts, stated as hypotheses)",
        "flight-budget clause: proved on C13's builder model; here it is evaluated on the implementation only "
        "(per datagrams_to_send() of real connections, and on the real builder's flush() output)",
    ]
    r = rng.make("c08")
    thorough = tier == "thorough"
    n = 300 if not thorough else 6000
    for algo in ("reno", "cubic"):
        cases = [gen_case(r, algo, r.choice([10, 40, 120])) for _ in range(n)]
        core.run_cases(ctx, f"recovery-{algo}", cases, RecoveryImpl, oracle, nontrivial)
        ctx.sample({algo: cases[0][:7]})
        cases = [gen_case(r, algo, r.choice([10, 40]), wellformed=False) for _ in range(n // 3)]
        core.run_cases(ctx, f"recovery-{algo}-malformed", cases, RecoveryImpl, None, nontrivial)
    connection_ledger(ctx, r, 48 if not thorough else 900)
    coalesce_budget(ctx, r, thorough)
    builder_flight(ctx, thorough)
    ctx.cov["rule"] = (
        "random interleavings of send / ack(arbitrary range sets incl. never-sent and already-acked numbers) / "
        "loss-detection timeout / space discard at arbitrary times for Reno and CUBIC (well-formed: fresh packet "
        "numbers; malformed: reused numbers, bad space index — correspondence only). Non-trivial = at least one "
        "packet reported ACKED and one LOST; distinct by op-sequence hash. Plus real client/server connections (plain lossy "
        "traffic, client receiving a Retry, client receiving Version Negotiation — each also for a resuming client "
        "with 1..3 datagrams of 0-RTT stream data in flight —, window filled by a blackout) with the space-continuity tie "
        "(a packet number space object recovery stops tracking must have been emptied first), the "
        "ledger oracle after every API call and the flight-budget oracle on every datagrams_to_send(); a resuming client "
        "whose 0-RTT data leaves 1199 .. max_datagram_size+1 bytes of window (exact, by sizing the last write from the "
        "observed packet overhead) when its padded Initial+Handshake+1-RTT datagram is built, for Reno/CUBIC x "
        "max_datagram_size 1200/1280/1350/1500, the judged datagram being Initial+Handshake+1-RTT (padding inside the "
        "1-RTT packet) or Initial+0-RTT (padding appended after the last packet); the real packet builder over the "
        "coalescing and Initial-only / Initial+Handshake x flight-budget grids. Flight-budget accounting: 'in-flight bytes "
        "on the wire' of a call = for every datagram carrying at least one in-flight packet (RFC 9002 s.2, decided from the "
        "plaintext frames), its whole length minus its acknowledgement-only packets (exempt in the property) — datagram "
        "bytes, not just packet.sent_bytes, because padding appended after the last packet belongs to no packet yet is "
        "sent with in-flight packets; the packet-size sum is checked as well. The budget is what the property names: "
        "congestion window minus the bytes counted in flight when the call starts (one max_datagram_size more while a "
        "probe allowance is outstanding). The probe allowance is the property's: ONE datagram per probe timeout, a timeout "
        "being a handle_timer() call that raised the PTO count, counted by the monitor itself (the connection's own "
        "_probe_pending flag is not consulted) and used up by the first later call that sends in-flight bytes beyond the "
        "window; blackout scenario: full window, >= 2 datagrams of stream data queued, 1..3 probe timeouts with 1..5 "
        "datagrams_to_send() calls (and application wake-ups) after each, Reno and CUBIC, either endpoint. Not claimed: that bytes_in_flight itself charges appended padding (the ledger clause defines "
        "it as the total size of the tracked in-flight packets)."
    )
    return ctx.finish()


def replay(path):
    """re-execute a recorded failing input against the current tree"""
    import json
    tree.activate()
    import logging
    logging.disable(logging.CRITICAL)
    d = json.load(open(path))
    if d.get("kind") != "impl-witness":
        print("replay names a broken obligation/correspondence, nothing to execute:",
              json.dumps(d.get("broken", []), default=str)[:600])
        return 1
    rp, sig = d["replay"], d.get("signature", {})
    p = None
    if rp.get("harness") == "coalesce":
        mon, _, info = run_coalesce(rp["seed"], rp["mds"], rp["algo"], rp["target"], rp["last_write"], rp.get("shape", "full"))
        p = mon.problem
    elif rp.get("harness") == "ledger":
        mon, _ = run_ledger_scenario(rp["scenario"], rp["seed"], rp["algo"])
        p = mon.problem
    elif rp.get("harness") == "builder":
        from harness import oracle_builder as O
        from harness.impl_builder import BuilderImpl
        impl = BuilderImpl()
        out = [impl.step(l) for l in rp["ops"]]
        v = O.check(rp["ops"], out, True, wire=True) or O.check(rp["ops"], out, True)
        p = v[1] if v and v[0] == "flight" else None
    elif "ops" in rp:
        from harness.impl_recovery import RecoveryImpl
        impl = RecoveryImpl()
        p = oracle(rp["ops"], [impl.step(l) for l in rp["ops"]])
    else:
        print("replay file names no executable input")
        return 1
    print("still failing: " + p if p else "no longer failing")
    return 1 if p else 0
