"""C07 — receive-side limits are enforced and buffering stays bounded.

proof:   AQ.Props.C07 (accusation iff violation of the limit in force, enforced
         limit = largest value ever advertised, reassembly / CRYPTO / challenge
         / retirement bounds over all op sequences)
tie:     same correspondence as C06 (harness/impl_flow.py observes a REAL
         QuicConnection after a real handshake) + QueueObserver for the CRYPTO,
         PATH_CHALLENGE and connection-ID queues
oracle:  RecvOracle — frames a key-holding peer sends against the limits the
         endpoint ADVERTISED on the wire (transport parameters + MAX_* frames in
         the packets it built): closed with a matching code iff beyond a limit;
         measured buffer / queue sizes against the advertised / documented bounds
"""
import itertools

from harness import core, frames as F, rng, tree

from . import flow_common as fc

TOP = (1 << 62) - 1


# ------------------------------------------------------------- generators
def frame_alphabet(d, m, e_is_client=True):
    """STREAM / RESET_STREAM frames around the advertised limits d (connection)
    and m (stream): ends at limit-1, limit, limit+1, 2^62-1; all stream types"""
    peer_bidi = [1, 5] if e_is_client else [0, 4]
    peer_uni = [3] if e_is_client else [2]
    mine_uni = [2] if e_is_client else [3]
    ends = sorted({0, 1, max(m - 1, 0), m, m + 1, d, d + 1, TOP})
    out = []
    for sid in peer_bidi + peer_uni + mine_uni:
        for end in ends:
            for ln in (0, 1, 2):
                if ln > end:
                    continue
                if end == TOP and ln == 0:
                    continue
                for fin in (False, True):
                    out.append(("pstream", sid, end - ln, ln, fin))
            out.append(("preset", sid, end))
    return out


def ids_of(cl):
    """stream id constructors seen from endpoint E (client iff cl): peer bidi, peer uni, own bidi, own uni"""
    return (lambda i: 4 * i + (1 if cl else 0), lambda i: 4 * i + (3 if cl else 2),
            lambda i: 4 * i + (0 if cl else 1), lambda i: 4 * i + (2 if cl else 3))


def id_frames(sid):
    """every frame type that names a stream id"""
    return [("pstream", sid, 0, 1, False), ("pstream", sid, 0, 0, True), ("preset", sid, 0),
            ("pss", sid), ("pmd", sid, 5), ("psdb", sid, 0)]


def id_frame_cases(thorough):
    """each stream-id frame type on NEVER-OPENED streams whose index is limit-1 / limit / limit+1 of the
    advertised MAX_STREAMS (bidi and uni), on the largest ids, after the endpoint raised MAX_STREAMS on the
    wire, and on streams only the endpoint may open (wrong initiator) / cannot use in that direction"""
    top_i = (1 << 60) - 1
    for cl in (True, False):
        pb, pun, mb, mu = ids_of(cl)
        for (b, u) in [(1, 1), (2, 0), (0, 2)] + ([(3, 2), (128, 128), (0, 0)] if thorough else []):
            cfg = {"seed": 4, "e_is_client": cl, "e_opts": {"max_data": 50, "max_stream_data": 20}, "e_streams": (b, u),
                   "p_opts": {"max_data": 1000, "max_stream_data": 1000}}
            sids = [pb(i) for i in (b - 1, b, b + 1, top_i) if i >= 0] + [pun(i) for i in (u - 1, u, u + 1, top_i) if i >= 0]
            sids += [mb(0), mb(5), mu(0), mb(top_i), mu(top_i)]
            for sid in sids:
                for fr in id_frames(sid):
                    yield cfg, [fr]
                    if thorough:        # the same frame after the stream exists / after another stream was opened
                        yield cfg, [("pstream", pb(0), 0, 1, False), fr]
                        yield cfg, [("send", mb(0), 1, False), fr]
        # the default limits (128) and the limit raised on the wire (used * 2 > value doubles it)
        for (b, u, opened) in [(2, 2, 1), (128, 128, 64)]:
            cfg = {"seed": 5, "e_is_client": cl, "e_opts": {"max_data": 50, "max_stream_data": 20}, "e_streams": (b, u),
                   "p_opts": {"max_data": 1000, "max_stream_data": 1000}}
            for mk in (pb, pun):
                raise_it = [("pstream", mk(opened), 0, 1, False), ("adv", 0.1), ("tx",)]
                for i in (2 * b - 1, 2 * b, 2 * b + 1):
                    for fr in id_frames(mk(i)):
                        if thorough or i == 2 * b or fr[0] in ("psdb", "pmd"):
                            yield cfg, raise_it + [fr]
                for fr in id_frames(mk(b)):
                    yield cfg, [fr]


def stop_cases(thorough):
    """the application stops a stream whose sending half is finished (peer uni stream; bidi stream whose FIN was
    acknowledged), the STOP_SENDING is written, then acknowledged / lost / unreported; afterwards the peer's
    frames (which may have crossed the STOP_SENDING) go beyond the stream limit, the connection limit, or carry
    a final size beyond the limits.  The stream may only be forgotten once FIN / RESET_STREAM completed it."""
    for cl in (True, False):
        pb, pun, mb, mu = ids_of(cl)
        for (d, m) in [(20, 5), (6, 100)]:
            cfg = {"seed": 6, "e_is_client": cl, "e_opts": {"max_data": d, "max_stream_data": m}, "e_streams": (3, 3),
                   "p_opts": {"max_data": 1000, "max_stream_data": 1000}}
            setups = {
                "peer-uni": (pun(0), [("pstream", pun(0), 0, 2, False)]),
                "own-bidi": (mb(0), [("send", mb(0), 1, True), ("adv", 0.1), ("tx",), ("ackall",), ("pstream", mb(0), 0, 2, False)]),
                "peer-bidi": (pb(0), [("pstream", pb(0), 0, 2, False), ("send", pb(0), 1, True), ("adv", 0.1), ("tx",), ("ackall",)]),
                "peer-bidi-unacked": (pb(1), [("pstream", pb(1), 0, 2, False), ("send", pb(1), 1, True), ("adv", 0.1), ("tx",)]),
            }
            afters = [[], [("ackall",), ("tx",)], [("lose",), ("adv", 0.1), ("tx",)], [("adv", 0.4), ("timer",), ("tx",)]]
            lim = min(d, m)
            for name, (sid, setup) in setups.items():
                other = pun(1)
                attacks = [
                    [("pstream", sid, lim, 1, False)],
                    [("preset", sid, lim + 1)],
                    [("pstream", sid, 2, 1, False), ("pstream", sid, m, 1, True)],
                    [("pstream", sid, TOP - 1, 1, False)],
                    [("pstream", other, 0, 2, False), ("stop", other), ("adv", 0.1), ("tx",), ("ackall",),
                     ("pstream", other, 2, min(m, d) - 3, False), ("pstream", sid, 2, 2, False)],
                    [("pmulti", [("pstream", sid, 2, 1, False), ("preset", sid, max(d, m) + 1)])],
                    [("pstream", sid, 2, 1, True), ("adv", 0.1), ("tx",), ("pstream", sid, lim, 1, False)],
                    [("preset", sid, 3), ("adv", 0.1), ("tx",), ("preset", sid, lim + 1)],
                ]
                for ai, after in enumerate(afters):
                    for ti, attack in enumerate(attacks):
                        if thorough or (ai + ti) % 2 == 0 or ti < 2:
                            yield cfg, setup + [("stop", sid), ("adv", 0.1), ("tx",)] + after + attack


def final_size_cases(thorough):
    """final size known (by an in-order FIN, by a FIN with a gap before it, or by RESET_STREAM), reassembly buffer
    empty, then STREAM frames starting EXACTLY at the delivered offset: length 0 / 1 / 2, with / without FIN, ending
    below / at / above the final size; the stream is still held (bidirectional, send half open), with and without a
    write loop in between.  FINAL_SIZE_ERROR iff beyond the final size or a FIN elsewhere."""
    for cl in (True, False):
        pb, pun, mb, mu = ids_of(cl)
        cfg = {"seed": 11, "e_is_client": cl, "e_opts": {"max_data": 40, "max_stream_data": 20}, "e_streams": (3, 3),
               "p_opts": {"max_data": 10 ** 7, "max_stream_data": 10 ** 7}}
        for name, sid, setup in (("peer-bidi", pb(0), []), ("own-bidi", mb(0), [("send", mb(0), 1, False), ("adv", 0.1), ("tx",)]),
                                 ("peer-uni", pun(0), [])):
            knowns = []
            for k in (0, 1, 2):          # delivered offset
                if k:
                    knowns.append((k, k, [("pstream", sid, 0, k, True)]))                                 # in-order FIN
                for z in (k, k + 1, k + 2, k + 3):
                    data = [("pstream", sid, 0, k, False)] if k else []
                    knowns.append((k, z, data + [("preset", sid, z)]))                                    # RESET_STREAM
                    if z > k + 1 and (thorough or k < 2):
                        knowns.append((k, z, data + [("pstream", sid, z - 1, 1, True)]))                  # FIN behind a gap
            for (k, z, known) in knowns:
                for ln in (0, 1, 2):
                    for fin in (False, True):
                        if not thorough and name != "peer-bidi" and (ln + k + z + fin) % 2:
                            continue
                        probe = [("pstream", sid, k, ln, fin)]
                        yield cfg, setup + known + probe
                        if thorough or (name == "peer-bidi" and ln == 1):
                            yield cfg, setup + known + [("adv", 0.1), ("tx",)] + probe
                            yield cfg, setup + known + probe + probe                                    # duplicated


def reset_cases(thorough):
    """RESET_STREAM x late / duplicated STREAM data x retransmitted RESET_STREAM, final size above the offset
    received so far, connection limit at the boundary (shape of the `resetKeepsHighest` counterexample): the
    bytes of a reset stream count ONCE against MAX_DATA, an in-limit peer is never accused"""
    for cl in (True, False):
        pb, pun, mb, mu = ids_of(cl)
        for (d, z) in [(10, 6), (6, 6), (7, 4)] + ([(1000, 600), (11, 6), (3, 2)] if thorough else []):
            cfg = {"seed": 8, "e_is_client": cl, "e_opts": {"max_data": d, "max_stream_data": max(d, z)}, "e_streams": (3, 3),
                   "p_opts": {"max_data": 10 ** 7, "max_stream_data": 10 ** 7}}
            k = z // 2
            for name, sid, setup in (("peer-bidi", pb(0), []), ("peer-uni", pun(0), []),
                                     ("own-bidi", mb(0), [("send", mb(0), 1, False), ("adv", 0.1), ("tx",)])):
                other = pb(1)
                rest = d - z            # what the limit leaves to another stream
                histories = [
                    [("preset", sid, z), ("pstream", sid, 0, z, False)],                        # data sent before the reset arrives after it
                    [("preset", sid, z), ("preset", sid, z)],                                    # retransmitted RESET_STREAM
                    [("pstream", sid, 0, k, False), ("preset", sid, z), ("pstream", sid, k, z - k, False)],
                    [("pstream", sid, 0, k, False), ("preset", sid, z), ("preset", sid, z), ("pstream", sid, 0, k, False)],
                    [("pmulti", [("preset", sid, z), ("pstream", sid, 0, z, False), ("preset", sid, z)])],
                    [("preset", sid, z), ("pstream", sid, z - 1, 1, True)],                      # late FIN at the final size
                    # the rest of the connection limit is used by another stream, then the late data / RESET arrives
                    [("preset", sid, z), ("pstream", other, 0, rest, False), ("pstream", sid, 0, z, False), ("preset", sid, z)],
                    # ... and one byte more than the limit is still refused
                    [("preset", sid, z), ("pstream", sid, 0, z, False), ("pstream", other, 0, rest + 1, False)],
                    # after the endpoint raised MAX_DATA on the wire
                    [("preset", sid, z), ("adv", 0.1), ("tx",), ("pstream", sid, 0, z, False), ("preset", sid, z),
                     ("pstream", other, 0, rest, False)],
                ]
                for i, h in enumerate(histories):
                    if thorough or name != "own-bidi" or i < 4:
                        yield cfg, setup + h


def builder_stop_cases(thorough):
    """a limit is due to be raised (used * 2 > value) while the packet builder refuses the frame (congestion
    window full: `start_frame` raises QuicPacketBuilderStop) - shape of the `raiseBeforeWrite` counterexample; then
    the key-holding peer probes the ADVERTISED limit: advertised is accepted, advertised + 1 is refused, and once
    the frame could be written the new value is enforced"""
    for cl in (True, False):
        pb, pun, mb, mu = ids_of(cl)
        # MAX_DATA
        for d in ([100] if not thorough else [100, 10, 1000]):
            cfg = {"seed": 9, "e_is_client": cl, "e_opts": {"max_data": d, "max_stream_data": 10 * d}, "e_streams": (128, 128),
                   "p_opts": {"max_data": 10 ** 7, "max_stream_data": 10 ** 7}}
            due = [("fill",), ("pstream", pb(0), 0, d * 6 // 10, False), ("adv", 0.1), ("tx",)]
            yield cfg, due + [("pstream", pb(0), d * 6 // 10, d - d * 6 // 10, False)]                  # up to advertised: accepted
            yield cfg, due + [("pstream", pb(0), d * 6 // 10, d - d * 6 // 10 + 1, False)]              # advertised + 1
            yield cfg, due + [("pstream", pun(0), 0, d - d * 6 // 10 + 1, False)]                       # ... spread over two streams
            yield cfg, due + [("preset", pun(0), d - d * 6 // 10 + 1)]                                  # ... by a final size
            yield cfg, due + [("tx",), ("adv", 0.4), ("tx",), ("pstream", pb(0), d * 6 // 10, d, False)]   # 2 * d - 40% + ...: far beyond
            # the window opens again (acks): the frame is written, the doubled value is in force
            yield cfg, due + [("ackall",), ("adv", 0.1), ("tx",), ("pstream", pb(0), d * 6 // 10, d, False),
                              ("pstream", pb(0), d * 16 // 10, d, False)]
        # MAX_STREAMS (bidi and uni)
        for (b, opened) in [(2, 1), (128, 64)] + ([(4, 2), (1, 0)] if thorough else []):
            cfg = {"seed": 10, "e_is_client": cl, "e_opts": {"max_data": 10 ** 6, "max_stream_data": 1000}, "e_streams": (b, b),
                   "p_opts": {"max_data": 10 ** 7, "max_stream_data": 10 ** 7}}
            for mk in (pb, pun):
                due = [("fill",), ("pstream", mk(opened), 0, 1, False), ("adv", 0.1), ("tx",)]
                yield cfg, due + [("pstream", mk(b - 1), 0, 1, False)]             # last advertised stream: accepted
                yield cfg, due + [("pstream", mk(b), 0, 1, False)]                 # advertised + 1
                if thorough or b == 2:
                    yield cfg, due + [("psdb", mk(b), 0)]
                    yield cfg, due + [("preset", mk(b), 0)]
                    yield cfg, due + [("pstream", mk(2 * b - 1), 0, 1, False)]
                yield cfg, due + [("ackall",), ("adv", 0.1), ("tx",), ("pstream", mk(2 * b - 1), 0, 1, False),
                                  ("pstream", mk(2 * b), 0, 1, False)]


def flood_cases(thorough):
    """hostile floods on the peer-driven state, in every ordering class, WITHOUT the endpoint transmitting in between
    (several frames in one packet / several datagrams handed to receive_datagram() in a row / congestion window full):
    NEW_CONNECTION_ID fresh, duplicate, stale (sequence number below the known Retire Prior To, never seen before),
    after a Retire Prior To jump far ahead, interleaved; PATH_CHALLENGE and CRYPTO bursts.  Oracle: every documented bound
    at every step or the connection is closed (CONNECTION_ID_LIMIT_ERROR / CRYPTO_BUFFER_EXCEEDED), and no growth of this
    state once the endpoint has decided to close."""
    for cl in (True, False):
        cfg = {"seed": 12, "e_is_client": cl, "queues": True, "p_opts": {"max_data": 10 ** 7, "max_stream_data": 10 ** 7}}
        jump = 100000
        for n in ([40] if not thorough else [33, 34, 40, 120]):
            stale = [(1000 + i, 0) for i in range(n)]                       # distinct, never seen, below Retire Prior To
            stale_rpt = [(1000 + i, 900 + i % 50) for i in range(n)]        # ... with older Retire Prior To values of their own
            fresh = [(jump + 1 + i, jump) for i in range(n)]
            dup = [(1000 + i % 3, 0) for i in range(n)]
            mixed = [x for trio in zip(stale, dup, fresh) for x in trio]
            for pre in ([], [("fill",)]):
                head = pre + [("ncid", jump, jump)]
                for name, burst in (("stale", stale), ("stale-rpt", stale_rpt), ("fresh", fresh), ("dup", dup), ("mixed", mixed)):
                    if not thorough and pre and name in ("fresh", "dup"):
                        continue
                    as_frames = [("ncid", a, b) for a, b in burst]
                    yield cfg, head + [("quiet", as_frames)]                                 # datagrams in a row, no transmit
                    yield cfg, head + [("ncids", burst[:38])] + ([("ncids", burst[38:76])] if len(burst) > 38 else [])
                    if pre or thorough:
                        yield cfg, head + as_frames                                          # one datagram each, transmit refused
                # without the jump: stale relative to a Retire Prior To raised step by step
                steps = [("ncid", 9 + i, min(9 + i, 2 * i)) for i in range(6)]
                yield cfg, pre + steps + [("quiet", [("ncid", 200 + i, 0) for i in range(n)])]
                yield cfg, pre + [("quiet", [s_ for s_ in steps] + [("ncid", 8, 0)] + [("ncid", 300 + i, 1) for i in range(n)])]
            # the other queues
            yield cfg, [("quiet", [("chal", 20), ("chal", 20), ("chal", 1), ("chal", 40)])]
            yield cfg, [("fill",), ("quiet", [("chal", 33), ("chal", 33)]), ("tx",), ("chal", 32)]
            yield cfg, [("quiet", [("crypto", 1 + 1000 * i, 1000) for i in range(8)] + [("crypto", 524287, 1), ("crypto", 524288, 1),
                                       ("crypto", 524289, 5), ("crypto", 100, 1000), ("ncid", 9, 0), ("chal", 5)])]


def exhaustive_cases(configs, k, stride):
    for (d, m, b, u) in configs:
        cfg = {"seed": 2, "e_is_client": True, "e_opts": {"max_data": d, "max_stream_data": m}, "e_streams": (b, u),
               "p_opts": {"max_data": 1000, "max_stream_data": 1000}}
        alpha = frame_alphabet(d, m)
        seqs = itertools.product(alpha, repeat=k)
        for i, seq in enumerate(seqs):
            if i % stride == 0:
                yield cfg, list(seq)


def random_script(r, e_is_client, d, m, n_ops, p_reset=0.1):
    peer = [1, 5, 9, 3, 7] if e_is_client else [0, 4, 8, 2, 6]
    mine = [0, 4, 2] if e_is_client else [1, 5, 3]
    sent = {}     # sid -> highest end sent so far (so that data is mostly contiguous / in window)
    script = []
    if r.random() < 0.3:
        script.append(("fill",))     # from now on MAX_* frames cannot be written (congestion window full)
    frames = []
    for _ in range(n_ops):
        x = r.random()
        if x < 0.12 and frames:
            # one packet with several frames, among them retransmissions of earlier frames
            # (a retransmitted RESET_STREAM / STREAM after a reset must not be charged twice)
            subs = [r.choice(frames) for _ in range(r.randrange(2, 5))]
            script.append(("pmulti", subs))
            continue
        if x < 0.55:
            sid = r.choice(peer + mine[:2]) if r.random() < 0.93 else r.choice(mine[2:] + [13, 17, 4 * 200 + (1 if e_is_client else 0)])
            hi = sent.get(sid, 0)
            mode = r.random()
            if mode < 0.5:
                off = hi
            elif mode < 0.8:
                off = max(0, hi + r.randrange(-3, 6))
            else:
                off = r.choice([0, m - 1, m, m + 1, d, d + 1, 2 * m, 2 * d, TOP - 1])
                off = max(0, off)
            ln = r.choice([0, 1, 1, 2, 3, 5, 17])
            if off + ln > TOP and r.random() < 0.8:
                off = TOP - ln
            if r.random() < p_reset:
                script.append(("preset", sid, off + ln))
            else:
                script.append(("pstream", sid, off, ln, r.random() < 0.12))
            frames.append(script[-1])
            if off + ln <= 4 * max(m, d, 8):
                sent[sid] = max(hi, off + ln)
        elif x < 0.59:
            # the other frame types that name a stream id, on opened and never-opened streams
            sid = r.choice(peer + mine) if r.random() < 0.8 else r.choice([13, 17, 4 * 200 + (1 if e_is_client else 0), 4 * 129 + r.randrange(4), TOP - r.randrange(4)])
            script.append(r.choice([("pss", sid), ("pmd", sid, r.choice([0, 3, 50])), ("psdb", sid, r.choice([0, m]))]))
            frames.append(script[-1])
        elif x < 0.62:
            script.append(("send", r.choice(mine), r.choice([0, 1, 5]), r.random() < 0.3))
        elif x < 0.67:
            script.append(("stop", r.choice(peer + mine[:2])))
        elif x < 0.75:
            script.append(("tx",))
        elif x < 0.85:
            script.append(r.choice([("ackall",), ("acknewest",)]))
        elif x < 0.91:
            script.append(("lose",))
        elif x < 0.94:
            script.append(("fill",))
        elif x < 0.97:
            script.append(("timer",))
        else:
            script.append(("adv", r.choice([0.001, 0.05, 0.4])))
    return script


def queue_script(r, n_ops):
    """CRYPTO (never contiguous with the delivered prefix, so nothing reaches
    TLS), PATH_CHALLENGE bursts, NEW_CONNECTION_ID / retire-prior-to"""
    script = []
    seq = 8
    rpt = 0
    cid_storm = r.random() < 0.4
    if cid_storm:
        # congestion window full: RETIRE_CONNECTION_ID frames cannot be written, retirements pile up
        script.append(("fill",))
    for _ in range(n_ops):
        x = r.random()
        if cid_storm and x < 0.6:
            seq += 1
            rpt = min(seq, rpt + r.choice([0, 1, 1, 2]))
            script.append(("ncid", seq, rpt))
            continue
        if x < 0.35:
            off = r.choice([1, 2, 100, 4000, 262144, 524286, 524287, 524288, 524289, TOP - 3, r.randrange(1, 530000)])
            ln = r.choice([0, 1, 2, 3, 50, 1000])
            if off + ln > TOP and r.random() < 0.7:
                ln = TOP - off
            script.append(("crypto", off, ln))
        elif x < 0.55:
            script.append(("chal", r.choice([1, 2, 31, 32, 33, 40, 100])))
        elif x < 0.80:
            y = r.random()
            if y < 0.5:
                seq += 1
                s = seq
            elif y < 0.8:
                s = r.randrange(0, seq + 3)
            else:
                seq += r.randrange(2, 12)
                s = seq
            if r.random() < 0.5:
                rpt = min(s, rpt + r.choice([0, 1, 1, 2, 7]))
            script.append(("ncid", s, rpt if r.random() < 0.93 else s + 1))
        elif x < 0.84:
            script.append(("change_cid",))
        elif x < 0.90:
            script.append(("tx",))
        elif x < 0.95:
            script.append(("ackall",))
        elif x < 0.98:
            script.append(("lose",))
        else:
            script.append(("fill",))
    return script


# ------------------------------------------------------------- evaluation
def evaluate(ctx, name, cfg, script, res, cases, impl_outs, qcases, qouts):
    pu = res["pu"]
    if not res.get("handshake"):
        ctx.broken.append({"kind": "harness", "error": "handshake failed", "cfg": cfg})
        return
    replay = {"cfg": cfg, "script": script}
    for p in res["recv_problems"][:1]:
        ctx.witness(p, replay, {"oracle": "wire-recv"})
    for p in res["bounds_problems"][:1]:
        ctx.witness(p, replay, {"oracle": "bounds"})
    qp = res.get("queue_problems", [])
    for p in [q for q in qp if "close decision" not in q][:1]:
        ctx.witness(p, replay, {"oracle": "queues"})
    for p in [q for q in qp if "close decision" in q][:1]:
        ctx.witness(p, replay, {"oracle": "queues", "cause": "processing-after-close"})
    for ex in pu.E.raised:
        if type(ex[1]).__name__ not in ("ValueError", "AssertionError"):
            ctx.notes.setdefault("unexpected_exceptions", []).append(f"{ex[0]}: {ex[1]!r}"[:200])
    cases.append(pu.obs.lines)
    impl_outs.append(pu.obs.outs)
    ctx.__dict__.setdefault("flow_inputs", {})[id(pu.obs.lines)] = (cfg, script)
    if res.get("qo") is not None:
        qcases.append(res["qo"].lines)
        qouts.append(res["qo"].outs)
        for k, v in res["qo"].max_seen.items():
            ctx.notes["max_" + k] = max(ctx.notes.get("max_" + k, 0), v)
    acc = res["accepted"]
    within = sum(1 for a, exp, got in acc if not exp)
    beyond = {c for a, exp, got in acc for c in exp}
    # non-trivial: at least one frame accepted within limits AND one violation detected,
    # or a limit raised on the wire before the violating frame
    ctx.count((name, repr(cfg), repr(script)), bool(within and beyond) or bool(res.get("qo") and len(script) > 3))
    for c in beyond:
        ctx.notes[f"violations_code_{c}"] = ctx.notes.get(f"violations_code_{c}", 0) + 1
    ctx.notes["frames_within_limits"] = ctx.notes.get("frames_within_limits", 0) + within


def main(tier):
    ctx = core.Ctx("C07", tier)
    tree.activate()
    ctx.prove(["AQ.Props.C07"], [])
    ctx.cov["trusted_base"] = [
        "Lean 4.33.0 kernel (+ leanchecker in thorough tier)",
        "axioms: subset of {propext, Classical.choice, Quot.sound} (audited by #print axioms)",
        "hand-written model AQ.Model.FlowRecv / FlowSend (on AQ.Model.Stream) tied by differential correspondence (this run) to "
        "connection.py: every modelled function of a real QuicConnection is wrapped by harness/impl_flow.py and replayed on the model",
        "harness/impl_flow.py observation wrappers, harness/sim.py, harness/inject.py (key-holding peer), harness/frames.py "
        "(independent RFC 9000 parser/encoder) and CPython semantics between compared observations",
    ]
    ctx.assumptions = [
        "frames reach the handlers parsed (offset + length <= 2^62-1 is checked by the handler itself and is modelled)",
        "frames for a stream whose state was discarded after both halves finished are ignored by the code "
        "(StreamFinishedError): neither accusation nor buffering.  The oracle decides by itself, from the frames on the wire, "
        "whether the stream MAY have been discarded: receive half complete (FIN reached with all bytes sent, or RESET_STREAM "
        "accepted) AND send half possibly finished (receive-only stream, or FIN / RESET_STREAM written / STOP_SENDING received "
        "on a bidirectional one) AND a write loop ran since; only then is 'ignored' accepted besides the matching error code. "
        "On every other stream - also one whose receive half is complete - every limit and the final-size rule are judged "
        "strictly; stop_stream() / STOP_SENDING alone never lifts a limit (discard_only_when_receive_finished)",
        "FINAL_SIZE_ERROR is the stream receiver's condition (a final size below data already received is accepted, "
        "RFC 9000 section 4.5 observation, not part of C07)",
        "retirement bound: min(4*active_connection_id_limit, 100) plus RETIRE_CONNECTION_ID frames in flight that are re-queued on loss, "
        "plus retirements requested locally by change_connection_id()",
    ]
    thorough = tier == "thorough"
    r = rng.make("c07")
    cases, impl_outs, qcases, qouts = [], [], [], []

    def search():
        """failing-input search (a correspondence / obligation broke, no witness yet).  Order: (0) the inputs on which
        model and implementation DISAGREED, transformed so that the wire oracle must judge every frame (the same
        history on a bidirectional peer stream whose send half stays open: such a stream cannot have been discarded,
        no frame may be ignored; also cut after the disagreeing step); (1) the directed generators in thorough form;
        (2) every pair of boundary frames unstrided; (3) PRNG histories biased to a full congestion window and to
        RESET_STREAM with late data.  Stops at the first concrete witness, 60 s at most."""
        import time
        t0 = time.time()
        sink = ([], [], [], [])

        def tryit(name, cfg, script):
            res = fc.run_puppet(cfg, script)
            evaluate(ctx, name, cfg, script, res, *sink)
            return bool(ctx.witnesses) or time.time() - t0 > 60

        def held(cfg, script):
            """the same frames on peer bidirectional streams, without FIN / reset / stop of the endpoint's send half"""
            cl = cfg.get("e_is_client", True)
            pb, pun, mb, mu = ids_of(cl)
            top = 1 + max([a[1] // 4 for a in script if len(a) > 1 and isinstance(a[1], int)] + [0])

            def remap(a):
                if a[0] == "pmulti":
                    return ("pmulti", [remap(tuple(x)) for x in a[1]])
                if a[0] in ("pstream", "preset", "psdb", "pss", "pmd") and a[1] % 4 == pun(0) % 4 and a[1] // 4 < 1000:
                    return (a[0], pb(a[1] // 4 + top)) + tuple(a[2:])
                return a
            out = [remap(tuple(a)) for a in script if a[0] not in ("reset", "pss", "pstop")]
            return [(a[0], a[1], a[2], False) if a[0] == "send" else a for a in out]

        for cfg, script in getattr(ctx, "disagreeing_inputs", [])[:200]:
            for variant in (held(cfg, script), script):
                if tryit("search-disagreeing", cfg, variant):
                    return
        for gen in (final_size_cases, reset_cases, builder_stop_cases, stop_cases, id_frame_cases):
            for cfg, script in gen(True):
                if tryit("search", cfg, script):
                    return
        for cfg, script in exhaustive_cases([(2, 2, 1, 1), (4, 3, 2, 1), (3, 5, 1, 0)], 2, 1):
            if tryit("search", cfg, script):
                return
        rs = rng.make("c07-search")
        for i in range(3000):
            d, m = rs.choice([1, 2, 3, 6, 20, 100]), rs.choice([2, 3, 5, 16, 100, 1000])
            cl = rs.random() < 0.5
            cfg = {"seed": 9000 + i, "e_is_client": cl, "e_opts": {"max_data": d, "max_stream_data": m},
                   "e_streams": (rs.choice([1, 2, 3, 128]), rs.choice([1, 2, 128])),
                   "p_opts": {"max_data": 10 ** 7, "max_stream_data": 10 ** 7}}
            script = ([("fill",)] if rs.random() < 0.6 else []) + random_script(rs, cl, d, m, rs.choice([10, 40]), p_reset=0.35)
            if tryit("search", cfg, script):
                return
    ctx.search = search
    # 1. exhaustive small scope: all pairs of boundary frames
    configs = [(2, 2, 1, 1), (4, 3, 2, 1)] if not thorough else \
        [(0, 0, 0, 0), (1, 1, 1, 1), (2, 2, 1, 1), (4, 3, 2, 1), (3, 5, 1, 0), (7, 3, 2, 2)]
    ex = list(exhaustive_cases(configs, 2, 23 if not thorough else 3))
    for cfg, script in ex:
        res = fc.run_puppet(cfg, script)
        evaluate(ctx, "exhaustive", cfg, script, res, cases, impl_outs, qcases, qouts)
    ctx.sample({"exhaustive": {"cfg": ex[len(ex) // 2][0], "script": ex[len(ex) // 2][1]}})
    fc.diff_cases(ctx, "flow-recv-exhaustive", cases, impl_outs)
    # single frames: the whole alphabet for every configuration (k = 1)
    cases, impl_outs = [], []
    for (d, m, b, u) in [(0, 0, 0, 0), (1, 1, 1, 1), (2, 2, 1, 1), (4, 3, 2, 1)]:
        for cl in (True, False):
            cfg = {"seed": 3, "e_is_client": cl, "e_opts": {"max_data": d, "max_stream_data": m}, "e_streams": (b, u),
                   "p_opts": {"max_data": 1000, "max_stream_data": 1000}}
            for i, fr in enumerate(frame_alphabet(d, m, cl)):
                if thorough or i % 3 == 0:
                    res = fc.run_puppet(cfg, [fr])
                    evaluate(ctx, "single", cfg, [fr], res, cases, impl_outs, qcases, qouts)
    fc.diff_cases(ctx, "flow-recv-single", cases, impl_outs)
    # 1b. every frame type naming a stream id x stream-count limits; stop_stream() then frames beyond the limits
    # 1c. RESET_STREAM x late / duplicated data; limit raises while the packet builder refuses the frame
    for name, gen in (("stream-ids", id_frame_cases), ("stop", stop_cases), ("reset-late-data", reset_cases),
                      ("builder-stop", builder_stop_cases), ("final-size", final_size_cases)):
        cases, impl_outs = [], []
        for cfg, script in gen(thorough):
            res = fc.run_puppet(cfg, script)
            evaluate(ctx, name, cfg, script, res, cases, impl_outs, qcases, qouts)
        ctx.sample({name: {"cfg": cfg, "script": script}})
        ctx.notes["cases_" + name] = len(cases)
        fc.diff_cases(ctx, "flow-recv-" + name, cases, impl_outs)
    # 2. PRNG histories (limits raised by the endpoint as data arrives, losses of MAX_* frames, full congestion window)
    cases, impl_outs = [], []
    for i in range(120 if not thorough else 2500):
        d, m = r.choice([0, 1, 2, 3, 6, 20, 100]), r.choice([0, 1, 2, 3, 5, 16, 100])
        cl = r.random() < 0.5
        cfg = {"seed": 1000 + i, "e_is_client": cl, "e_opts": {"max_data": d, "max_stream_data": m},
               "e_streams": (r.choice([0, 1, 2, 3, 128]), r.choice([0, 1, 2, 128])),
               "p_opts": {"max_data": 10 ** 7, "max_stream_data": 10 ** 7}}
        script = random_script(r, cl, d, m, r.choice([10, 40, 120]))
        res = fc.run_puppet(cfg, script)
        evaluate(ctx, "random", cfg, script, res, cases, impl_outs, qcases, qouts)
        if i == 0:
            ctx.sample({"random": {"cfg": cfg, "script": script[:10]}})
    fc.diff_cases(ctx, "flow-recv-random", cases, impl_outs)
    # 3. peer-driven queues
    cases, impl_outs = [], []
    for i in range(40 if not thorough else 600):
        cfg = {"seed": 5000 + i, "e_is_client": r.random() < 0.5, "queues": True,
               "p_opts": {"max_data": 10 ** 7, "max_stream_data": 10 ** 7}}
        script = queue_script(r, r.choice([10, 60, 200]))
        res = fc.run_puppet(cfg, script)
        evaluate(ctx, "queues", cfg, script, res, cases, impl_outs, qcases, qouts)
        if i == 0:
            ctx.sample({"queues": {"cfg": cfg, "script": script[:10]}})
    # 3b. hostile floods on the peer-driven state without a transmit in between
    nfl = 0
    for cfg, script in flood_cases(thorough):
        res = fc.run_puppet(cfg, script)
        evaluate(ctx, "floods", cfg, script, res, cases, impl_outs, qcases, qouts)
        nfl += 1
    ctx.notes["cases_floods"] = nfl
    fc.diff_cases(ctx, "flow-recv-queues-streams", cases, impl_outs)
    fc.diff_cases(ctx, "flow-queues", qcases, qouts)
    ctx.cov["rule"] = (
        "real QuicConnection after a real handshake, frames sent by a key-holding peer: (1) every pair (strided in the quick "
        "tier) and every single STREAM/RESET_STREAM frame with end offsets at limit-1, limit, limit+1, 2^62-1 of the "
        "advertised connection and stream limits, lengths 0..2, FIN or not, on peer bidi / peer uni / own uni streams, "
        "as client and as server; (1b) STREAM / RESET_STREAM / STOP_SENDING / MAX_STREAM_DATA / STREAM_DATA_BLOCKED each on "
        "never-opened stream ids at index limit-1, limit, limit+1 of the advertised MAX_STREAMS (bidi, uni), on the largest ids, "
        "after MAX_STREAMS was raised on the wire, and on wrong-initiator / wrong-direction ids; stop_stream() on a stream whose "
        "sending half is finished (peer uni, bidi with acknowledged FIN), STOP_SENDING written then acked / lost / unreported, "
        "followed by frames beyond the stream limit, the connection limit and final sizes beyond the limits (the oracle itself "
        "decides whether the receive half completed; only then may frames be ignored); (1c) RESET_STREAM with a final size above "
        "the offset received x late / duplicated STREAM data x retransmitted RESET_STREAM (also in one packet, after MAX_DATA was "
        "raised, with the rest of the connection limit used by another stream: the bytes count once, limit + 1 is still refused); "
        "a MAX_DATA / MAX_STREAMS raise that is due while the congestion window is full (the builder refuses the frame), then the "
        "peer probes advertised and advertised + 1 (data, final size, new stream, STREAM_DATA_BLOCKED), and the doubled value once "
        "the frame was written; final size known by in-order FIN / FIN behind a gap / RESET_STREAM with an empty reassembly "
        "buffer, then STREAM frames starting exactly at the delivered offset, length 0/1/2, with/without FIN, ending below / at / "
        "above the final size, on held streams, with and without a write loop in between, duplicated; (2) PRNG histories of such frames interleaved with the endpoint raising its limits "
        "(MAX_* observed on the wire), loss of the packets carrying MAX_*, a full congestion window (MAX_* cannot be "
        "written), application writes/stops; (3) CRYPTO frames around MAX_PENDING_CRYPTO, PATH_CHALLENGE bursts, "
        "NEW_CONNECTION_ID / retire-prior-to sequences; (3b) hostile floods without a transmit in between (several frames in one "
        "packet, several datagrams handed to receive_datagram() in a row, congestion window full): NEW_CONNECTION_ID fresh / "
        "duplicate / stale below the known Retire Prior To (never seen, after a jump far ahead or raised step by step) / mixed, "
        "PATH_CHALLENGE and CRYPTO bursts; every documented bound is checked after every datagram (else closed with the limit "
        "error), and no growth of this state once the endpoint has decided to close. Non-trivial = a history with a frame accepted within limits and a "
        "violation detected (or a queue history of more than 3 frames); distinct by (config, script) hash."
    )
    ctx.cov["exhaustive"] = True
    return ctx.finish()


def replay(path):
    """re-execute the failing input of a replay file against the current tree"""
    import json
    tree.activate()
    d = json.load(open(path))
    if d.get("kind") != "impl-witness":
        print("no longer failing: the file records a broken proof/correspondence, not a failing input; rerun ./check C07")
        return 0
    rp = d["replay"]
    script = [tuple(a) for a in rp["script"]]
    cfg = rp["cfg"]
    for key in ("p_streams", "e_streams"):
        if cfg.get(key):
            cfg[key] = tuple(cfg[key])
    res = fc.run_puppet(cfg, script)
    probs = res["recv_problems"] + res["bounds_problems"] + res.get("queue_problems", [])
    known = [q for q in probs if "close decision" in q]       # open finding C07-processing-after-close-decision
    wanted = d.get("signature", {}).get("cause") == "processing-after-close"
    probs = probs if wanted else [q for q in probs if q not in known]
    if probs:
        print("still failing: " + probs[0])
        return 1
    print("no longer failing" + (" (the recorded finding C07-processing-after-close-decision reproduces on this input: "
                                 + known[0] + ")" if known else ""))
    return 0
