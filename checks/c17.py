"""C17 — wire codecs round-trip and agree with an independent codec.

proof:   AQ.Props.C17 (varint / fixed ints / bytes / ACK / headers / Retry / VN /
         transport parameters; model encoder = RFC-written encoder; confinement
         of parameter parsers) about AQ.Model.Codec, AQ.Model.CodecSpec
tie:     T2 correspondence of the compiled model (`codec.*`) against
         aioquic._buffer.Buffer, aioquic.buffer, aioquic.quic.packet and the
         header writer of QuicPacketBuilder, on exhaustive boundary scopes plus
         random and mutated inputs (value or error class, consumed length)
indep.:  bytes of the real encoders == bytes of the RFC-written encoders of
         AQ/Model/CodecSpec.lean (`spec.*` ops)
oracle:  plain-Python RFC 9000 §16 / A.1 varint codec, big-endian fixed ints,
         RFC 9001 §5.8 / RFC 9369 §3.3.3 Retry integrity tag, and round-trip
         identities, evaluated on the implementation's own outputs

The TLS handshake message codecs (tls.py) are decided in a separate check.

The model follows the code with fixes/C17-buffer-int-range.diff applied
(push_uint8/16/32/64/_var raise ValueError for ints outside their range).  On a
tree without that fix the `int-roundtrip` oracle reports the silent truncation
(e.g. push_uint16(65536) writes 0000, push_uint_var(2**64+5) writes 05) as a
concrete failing input and the correspondence on out-of-range values differs.
"""
import itertools

from checks import c17_rfc
from harness import core, rng, runner, tree

PROP_MODULES = ["AQ.Props.C17", "AQ.Props.C17tls", "AQ.Props.C17frames", "AQ.Props.C17hdr", "AQ.Props.C17ack"]
P62 = 1 << 62
P64 = 1 << 64
V1 = 1
V2 = 0x6B3343CF
WIDTH = {"uint8": 1, "uint16": 2, "uint32": 4, "uint64": 8}


def hx(b):
    return bytes(b).hex() if b else "-"


def kv(s):
    d = {}
    for tok in s.split():
        if "=" in tok:
            k, v = tok.split("=", 1)
            d[k] = v
    return d


# ------------------------------------------------ independent (RFC) oracles
def rfc_varint_encode(v):
    """RFC 9000 §16, Table 4"""
    for prefix, nbytes, usable in ((0b00, 1, 6), (0b01, 2, 14), (0b10, 4, 30), (0b11, 8, 62)):
        if v < (1 << usable):
            return ((prefix << (8 * nbytes - 2)) | v).to_bytes(nbytes, "big")
    raise ValueError("not a variable-length integer")


def rfc_varint_decode(data):
    """RFC 9000 A.1 ReadVarint; returns (value, length) or None if data is too short"""
    if not data:
        return None
    v = data[0]
    prefix = v >> 6
    length = 1 << prefix
    if len(data) < length:
        return None
    v = v & 0x3F
    for i in range(1, length):
        v = (v << 8) + data[i]
    return v, length


def rfc_retry_tag(packet_without_tag, odcid, version):
    """RFC 9001 §5.8 (v1) / RFC 9369 §3.3.3 (v2), computed with `cryptography`
    directly from the RFC constants"""
    from cryptography.hazmat.primitives.ciphers.aead import AESGCM
    if version == V2:
        key = bytes.fromhex("8fb4b01b56ac48e260fbcbcead7ccc92")
        nonce = bytes.fromhex("d86969bc2d7c6d9990efb04a")
    else:
        key = bytes.fromhex("be0c690b9f66575a1d766b54e368c84e")
        nonce = bytes.fromhex("461599d35d632bf2239825bb")
    pseudo = bytes([len(odcid)]) + odcid + packet_without_tag
    return AESGCM(key).encrypt(nonce, b"", pseudo)


# ------------------------------------------------------------ A. the Buffer
def boundary_values():
    vs = set()
    for c in (0, 63, 64, 255, 256, 16383, 16384, 65535, 65536, 1 << 30, 1 << 32, P62, 1 << 63, P64):
        for d in (-2, -1, 0, 1, 2):
            vs.add(c + d)
    return sorted(vs)


def int_cases(values):
    for v in values:
        for k in ("uint8", "uint16", "uint32", "uint64", "uint_var"):
            yield ["codec.new 16", f"codec.push_{k} {v}", "codec.seek 0", f"codec.pull_{k}", "codec.tell", "codec.eof"]


def oracle_int(case, out):
    """round trip + independent encoder on the implementation's own output"""
    op = case[1].split()
    k = op[0][len("codec.push_"):]
    v = int(op[1])
    res = out[1]
    if k == "uint_var":
        valid = 0 <= v < P62
        want = rfc_varint_encode(v) if valid else None
    else:
        n = WIDTH[k]
        valid = 0 <= v < (1 << (8 * n))
        want = v.to_bytes(n, "big") if valid else None
    if valid:
        if not res.startswith("ok"):
            return (f"{case[1]!r} raised for an in-range value: {res}", {"kind": "raise-in-range"})
        data = kv(res).get("data", "-")
        if data != hx(want):
            return (f"{case[1]!r} wrote {data}, the RFC encoding is {hx(want)}", {"kind": "encoding"})
        back = out[3]
        if not back.startswith(f"ok {v} "):
            return (f"{case[1]!r} then {case[3]!r} returned {back!r}", {"kind": "roundtrip"})
    else:
        if res.startswith("ok"):
            back = out[3].split()[1] if out[3].startswith("ok ") else "?"
            return (f"{case[1]!r} accepted an out-of-range integer silently (wrote {kv(res).get('data')}, "
                    f"reads back {back})", {"kind": "silent-truncation", "op": "push_" + ("uint_var" if k == "uint_var" else "uintN")})
    return None


def capacity_cases():
    """every push against every remaining space 0..9"""
    for cap in range(0, 10):
        for k, v in (("uint8", 7), ("uint16", 7), ("uint32", 7), ("uint64", 7), ("uint_var", 7), ("uint_var", 64),
                     ("uint_var", 16384), ("uint_var", 1 << 30), ("uint_var", P62)):
            yield [f"codec.new {cap}", f"codec.push_{k} {v}", "codec.tell"]
        for n in (0, 1, 2, 9, 10):
            yield [f"codec.new {cap}", f"codec.push_bytes {hx(bytes(range(n)))}", "codec.tell"]


PULLS = ["codec.pull_uint8", "codec.pull_uint16", "codec.pull_uint32", "codec.pull_uint64", "codec.pull_uint_var"]


def prefix_cases(r, thorough):
    """every 1-byte string and every (thorough) / a quarter of all (quick) 2-byte strings for every reader"""
    for a in range(256):
        yield [f"codec.data {a:02x}"] + [x for p in PULLS for x in (p, "codec.seek 0")]
    step = 1 if thorough else 5
    for ab in range(r.randrange(step), 65536, step):
        yield [f"codec.data {ab:04x}", "codec.pull_uint_var", "codec.seek 0", "codec.pull_uint16", "codec.seek 1",
               "codec.pull_uint_var"]


def oracle_varint_decode(case, out):
    """RFC A.1 decoder on the same bytes; re-encoding decodes to the same value"""
    data = bytes.fromhex(case[0].split()[1])
    pos = 0
    for op, o in zip(case[1:], out[1:]):
        t = op.split()
        if t[0] == "codec.seek":
            pos = int(t[1])
        elif t[0] == "codec.pull_uint_var":
            want = rfc_varint_decode(data[pos:])
            if want is None:
                if not o.startswith("err BufferReadError"):
                    return (f"{op!r} at {pos} on {data.hex()}: expected BufferReadError, got {o!r}", {"kind": "decode"})
            else:
                v, n = want
                if not o.startswith(f"ok {v} | pos={pos + n} "):
                    return (f"{op!r} at {pos} on {data.hex()}: expected {v} using {n} bytes, got {o!r}", {"kind": "decode"})
                if rfc_varint_decode(rfc_varint_encode(v))[0] != v:
                    return ("re-encoding does not decode to the same value", {"kind": "decode"})
                pos += n
        else:
            if o.startswith("ok "):
                pos = int(kv(o)["pos"])
    return None


def buffer_random_cases(r, n):
    for _ in range(n):
        cap = r.choice([0, 1, 2, 4, 8, 16, 33])
        if r.random() < 0.5:
            case = [f"codec.new {cap}"]
        else:
            case = [f"codec.data {hx(bytes(r.randrange(256) for _ in range(cap)))}"]
        for _ in range(r.randrange(1, 25)):
            x = r.random()
            if x < 0.3:
                k = r.choice(["uint8", "uint16", "uint32", "uint64", "uint_var"])
                v = r.choice([r.randrange(0, 300), r.randrange(0, P62), r.randrange(-P64, 2 * P64), r.choice(boundary_values())])
                case.append(f"codec.push_{k} {v}")
            elif x < 0.4:
                case.append(f"codec.push_bytes {hx(bytes(r.randrange(256) for _ in range(r.randrange(0, 6))))}")
            elif x < 0.65:
                case.append(r.choice(PULLS))
            elif x < 0.75:
                case.append(f"codec.pull_bytes {r.choice([0, 1, 2, 3, cap, cap + 1, -1, 1 << 63, -(1 << 63) - 1, (1 << 63) - 1])}")
            elif x < 0.9:
                case.append(f"codec.seek {r.choice([0, 1, cap // 2, cap, cap + 1, -1, 1 << 63, -(1 << 64)])}")
            elif x < 0.96:
                a = r.randrange(-1, cap + 2)
                case.append(f"codec.slice {a} {r.randrange(-1, cap + 2)}")
            else:
                case.append(r.choice(["codec.tell", "codec.eof"]))
        yield case


def size_cases(values):
    yield [f"codec.size_uint_var {v}" for v in values] + [f"codec.encode_uint_var {v}" for v in values]


def oracle_size(case, out):
    for op, o in zip(case, out):
        t = op.split()
        v = int(t[1])
        if t[0] == "codec.size_uint_var" and 0 <= v < P62:
            if o != f"ok {len(rfc_varint_encode(v))}":
                return (f"{op!r}: {o!r} but the RFC encoding has {len(rfc_varint_encode(v))} bytes", {"kind": "size"})
        if t[0] == "codec.encode_uint_var" and 0 <= v < P62:
            if o != "ok " + hx(rfc_varint_encode(v)):
                return (f"{op!r}: {o!r}, RFC encoding {hx(rfc_varint_encode(v))}", {"kind": "encoding"})
    return None


def spec_varint_cases(values):
    vals = [v for v in values if 0 <= v < P62]
    yield [f"spec.varint {v}" for v in vals]


# ------------------------------------------------------------------ B. ACK
def subsets_as_ranges(universe, base):
    """all non-empty subsets of {0..universe-1}+base as sorted disjoint non-touching ranges"""
    for mask in range(1, 1 << universe):
        rs = []
        i = 0
        while i < universe:
            if mask >> i & 1:
                j = i
                while j < universe and mask >> j & 1:
                    j += 1
                rs.append((base + i, base + j))
                i = j
            else:
                i += 1
        yield rs


def fmt_ranges(rs):
    return ",".join(f"{a}:{b}" for a, b in rs) if rs else "-"


def ack_cases(impl, universe, bases, delays, caps=(64,)):
    """adaptive: the implementation's encoding is fed back to the decoders"""
    for base in bases:
        for rs in subsets_as_ranges(universe, base):
            for delay in delays:
                for cap in caps:
                    push = f"codec.ack_push {fmt_ranges(rs)} {delay} {cap}"
                    o = impl.step(push)
                    case = [push, f"spec.ack {fmt_ranges(rs)} {delay}"]
                    if o.startswith("ok "):
                        enc = o.split()[2]
                        case.append(f"codec.ack_pull {enc}")
                        case.append(f"codec.ack_pull {enc}ff")
                    yield case


def oracle_ack(case, out):
    t = case[0].split()
    rs_txt, delay, cap = t[1], int(t[2]), int(t[3])
    if not out[0].startswith("ok "):
        if cap >= 64:
            return (f"{case[0]!r} raised {out[0]!r}", {"kind": "ack-raise"})
        return None
    enc = out[0].split()[2]
    if len(out) > 1 and out[1] != "ok " + enc:
        pass  # the spec op is answered by the real encoder too; compared with the model by the diff
    # independent decoding of the frame body with the RFC varint reader and RFC 9000 §19.3.1
    data = bytes.fromhex(enc)
    pos = 0
    fields = []
    while pos < len(data):
        v, n = rfc_varint_decode(data[pos:])
        fields.append(v)
        pos += n
    largest, d, count, first = fields[:4]
    ranges = [(largest - first, largest + 1)]
    smallest = largest - first
    rest = fields[4:]
    if len(rest) != 2 * count:
        return (f"{case[0]!r}: ACK Range Count {count} but {len(rest)} further fields", {"kind": "ack-count"})
    for i in range(count):
        gap, length = rest[2 * i], rest[2 * i + 1]
        lg = smallest - gap - 2
        ranges.insert(0, (lg - length, lg + 1))
        smallest = lg - length
    if fmt_ranges(ranges) != rs_txt or d != delay:
        return (f"{case[0]!r}: an RFC 9000 §19.3 reader decodes {fmt_ranges(ranges)} delay {d}", {"kind": "ack-encoding"})
    if len(out) > 2:
        want = f"ok rs=[{rs_txt}] delay={delay} used={len(data)}"
        if out[2] != want:
            return (f"{case[2]!r}: got {out[2]!r}, expected {want!r}", {"kind": "ack-roundtrip"})
        if out[3] != want:
            return (f"{case[3]!r} (trailing byte): got {out[3]!r}, expected {want!r}", {"kind": "ack-roundtrip"})
    return None


def ack_budget_cases(impl, universe, bases, thorough):
    """push_ack_frame(…, max_size): every range set over `universe` consecutive packet numbers x every budget
    from 0 to one more than the full frame (so every boundary at which one more range fits is hit)"""
    for base in bases:
        for rs in subsets_as_ranges(universe, base):
            full = impl.step(f"codec.ack_pushm {fmt_ranges(rs)} 3 64 none")
            total = len(full.split()[2]) // 2 if full.startswith("ok ") else 12
            budgets = list(range(0, total + 2))
            if not thorough and len(rs) > 2:
                budgets = budgets[::2] + [total - 1, total]
            for delay in ((3,) if base == 0 else (3, 70)):
                yield [f"codec.ack_pushm {fmt_ranges(rs)} {delay} 64 {m}" for m in sorted(set(budgets))] + \
                      [f"codec.ack_pushm {fmt_ranges(rs)} {delay} 64 none", f"codec.ack_pushm {fmt_ranges(rs)} {delay} 3 4"]


def oracle_ack_budget(case, out):
    """independent RFC 9000 §19.3 reader on the implementation's output: the frame is self-consistent (ACK Range
    Count = ranges carried), carries the most recent ranges (a suffix of the set, at least the newest), as many as
    the budget allows, and stays within the budget whenever more than the mandatory newest range is written"""
    for op, o in zip(case, out):
        t = op.split()
        rs = [tuple(int(x) for x in tok.split(":")) for tok in t[1].split(",")]
        delay, cap, mx = int(t[2]), int(t[3]), (None if t[4] == "none" else int(t[4]))
        if not o.startswith("ok "):
            if cap >= 64:
                return (f"{op!r} raised {o!r}", {"kind": "ack-budget-raise"})
            continue
        n = int(kv(o)["n"])
        data = bytes.fromhex(o.split()[2])
        dec = c17_rfc.rfc_ack_decode(data)
        if dec is None or dec[2] != len(data):
            return (f"{op!r} wrote {data.hex()}: an RFC 9000 §19.3 reader finds the ACK Range Count inconsistent with "
                    f"the ranges carried ({dec})", {"kind": "ack-budget-count"})
        got = [tuple(int(x) for x in tok.split(":")) for tok in dec[0].split(",")]
        if got != rs[len(rs) - len(got):] or len(got) != n or dec[1] != delay or not got:
            return (f"{op!r} wrote {data.hex()} = ranges {got} (returned n={n}); expected the {n} most recent of {rs}",
                    {"kind": "ack-budget-suffix"})
        if mx is None:
            if len(got) != len(rs):
                return (f"{op!r}: ranges dropped without a budget", {"kind": "ack-budget-suffix"})
            continue
        if len(got) > 1 and len(data) > mx:
            return (f"{op!r} wrote {len(data)} bytes for a budget of {mx}", {"kind": "ack-budget-exceeded"})
        if len(got) < len(rs):
            # one more (older) range must not have fitted: RFC-encode the longer suffix and measure it
            more = rs[len(rs) - len(got) - 1:]
            enc = rfc_varint_encode(more[-1][1] - 1) + rfc_varint_encode(delay) + rfc_varint_encode(len(rs) - 1) + \
                rfc_varint_encode(more[-1][1] - 1 - more[-1][0])
            for i in range(len(more) - 2, -1, -1):
                enc += rfc_varint_encode(more[i + 1][0] - more[i][1] - 1) + rfc_varint_encode(more[i][1] - more[i][0] - 1)
            if len(enc) <= mx:
                return (f"{op!r} dropped a range that fits: {len(got)} of {len(rs)} written, {len(got) + 1} need "
                        f"{len(enc)} <= {mx} bytes", {"kind": "ack-budget-not-maximal"})
    return None


def ack_illformed_cases():
    bad = ["-", "0:0", "3:1", "0:3,3:5", "0:3,2:5", "5:7,0:3", "0:1,1:2,2:3", "-5:3", "-5:-3,0:2", "0:4611686018427387905",
           "0:3,4611686018427387904:4611686018427387906", "0:18446744073709551617"]
    for b in bad:
        for delay in (0, P62 - 1, P62, -1, P64 + 3):
            for cap in (0, 1, 3, 8, 64):
                yield [f"codec.ack_push {b} {delay} {cap}"]


def ack_decode_cases(r, n, thorough):
    for a in range(256):
        yield [f"codec.ack_pull {a:02x}"]
    step = 1 if thorough else 16
    for ab in range(r.randrange(step), 65536, step):
        yield [f"codec.ack_pull {ab:04x}"]
    # every 4-byte frame made of one-byte varints 0..5 (first range may exceed largest: negative numbers)
    for f in itertools.product(range(6), repeat=4):
        yield [f"codec.ack_pull {bytes(f).hex()}", f"codec.ack_pull {bytes(f).hex()}0001", f"codec.ack_pull {bytes(f).hex()}00"]
    for _ in range(n):
        k = r.randrange(0, 24)
        data = bytes(r.choice([r.randrange(0, 8), r.randrange(0, 64), r.randrange(256)]) for _ in range(k))
        yield [f"codec.ack_pull {hx(data)}"]


def oracle_ack_decode(impl, stats):
    """decode -> encode -> decode on the implementation is the identity (C17, second sentence)"""
    def f(case, out):
        for op, o in zip(case, out):
            if "rs=[-" in o:
                # RFC 9000 §19.3.1 wants FRAME_ENCODING_ERROR for a negative packet number; the
                # codec accepts it and re-encodes it faithfully (not a C17 failure) -- counted only
                stats["ack_negative_packet_numbers_accepted"] = stats.get("ack_negative_packet_numbers_accepted", 0) + 1
            data = b"" if op.split()[1] == "-" else bytes.fromhex(op.split()[1])
            want = c17_rfc.rfc_ack_decode(data)     # RFC 9000 §19.3 reader: exactly Range Count pairs
            if not o.startswith("ok "):
                if o not in ("err BufferReadError",):
                    return (f"{op!r}: undocumented error {o!r}", {"kind": "ack-error-class"})
                if want is not None:
                    return (f"{op!r}: a complete ACK frame ({want}) was rejected: {o}", {"kind": "ack-reject-valid"})
                continue
            if want is None:
                return (f"{op!r}: accepted as {o!r} although the ACK Range Count announces more ranges than "
                        f"the bytes hold", {"kind": "ack-range-count"})
            if o != f"ok rs=[{want[0]}] delay={want[1]} used={want[2]}":
                return (f"{op!r}: got {o!r}; an RFC 9000 §19.3 reader gives rs=[{want[0]}] delay={want[1]} "
                        f"used={want[2]} (exactly ACK Range Count (gap, length) pairs)", {"kind": "ack-range-count"})
            d = kv(o)
            rs = d["rs"][1:-1] or "-"
            o2 = impl.step(f"codec.ack_push {rs} {d['delay']} 4096")
            if not o2.startswith("ok "):
                return (f"{op!r} decoded {o!r} which cannot be re-encoded: {o2!r}", {"kind": "ack-reencode"})
            o3 = impl.step(f"codec.ack_pull {o2.split()[2]}")
            if kv(o3).get("rs") != d["rs"] or kv(o3).get("delay") != d["delay"]:
                return (f"{op!r}: re-encoding decodes to {o3!r}, not {o!r}", {"kind": "ack-reencode"})
        return None
    return f


# -------------------------------------------------------------- C. headers
def cid(n, salt=0):
    return bytes((i * 13 + salt + 1) % 256 for i in range(n))


def header_cases(impl, thorough, r):
    """adaptive: all CID length pairs 0..20 x packet types x both versions"""
    types = ["INITIAL", "ZERO_RTT", "HANDSHAKE"]
    pairs = [(a, b) for a in range(21) for b in range(21)]
    if not thorough:
        pairs = [(a, b) for (a, b) in pairs if a == b or a in (0, 20) or b in (0, 20) or (a + 2 * b) % 7 == 0]
    tokens = [0, 1, 63, 64, 300]
    n = 0
    for version in (V1, V2, 0xFF00001D):
        for pt in types:
            for (dl, sl) in pairs:
                n += 1
                tl = tokens[n % len(tokens)] if pt == "INITIAL" else 0
                payload = [2, 30, 1000][n % 3]
                pn = [0, 65535, 65536 + 7, 123456789][n % 4]
                d, s, tok = cid(dl, 1), cid(sl, 2), cid(tl, 3)
                build = f"codec.build_long {version} {pt} {hx(d)} {hx(s)} {hx(tok)} {payload} {pn}"
                o = impl.step(build)
                case = [build, f"spec.long_header {version} {pt} {hx(d)} {hx(s)} {hx(tok)} {payload + 18} {pn}",
                        f"codec.first_byte {version} {pt} 1", f"spec.first_byte {version} {pt} 1"]
                if o.startswith("ok "):
                    pkt = bytes.fromhex(o.split()[1]) + bytes(payload + 16)
                    case.append(f"codec.header {pkt.hex()} none")
                    case.append(f"codec.header {pkt.hex()}aabb 8")          # coalesced: trailing bytes stay
                    case.append(f"codec.header {pkt[:-1].hex()} none")      # payload one byte short
                yield case
    # Retry and Version Negotiation
    for version in (V1, V2):
        for (dl, sl) in pairs:
            n += 1
            tl = [0, 1, 16, 100][n % 4]
            d, s, od, tok = cid(dl, 1), cid(sl, 2), cid([0, 8, 20][n % 3], 4), cid(tl, 3)
            unused = n % 16
            raw = impl.packet.encode_quic_retry(version, s, d, od, tok, unused)
            tag = raw[-16:]
            retry = f"codec.retry {version} {hx(s)} {hx(d)} {hx(od)} {hx(tok)} {unused} {hx(tag)}"
            yield [retry, f"spec.retry {version} {hx(s)} {hx(d)} {hx(od)} {hx(tok)} {unused} {hx(tag)}",
                   f"codec.header {raw.hex()} none", f"codec.header {raw[:-1].hex()} none",
                   f"codec.header {raw[:7 + dl + sl + 15].hex() if len(raw) > 7 + dl + sl + 15 else raw.hex()} none"]
    for (dl, sl) in pairs:
        n += 1
        d, s = cid(dl, 1), cid(sl, 2)
        vs = [[], [V1], [V1, V2], [V2, 0xFFFFFFFF, 0x1A2A3A4A]][n % 4]
        rnd = [0, 0x7F, 0x80, 0xFF, 0x40][n % 5]
        vtxt = ",".join(map(str, vs)) if vs else "-"
        o = impl.step(f"codec.vn {rnd} {hx(s)} {hx(d)} {vtxt}")
        case = [f"codec.vn {rnd} {hx(s)} {hx(d)} {vtxt}", f"spec.vn {rnd & 0x7F} {hx(s)} {hx(d)} {vtxt}"]
        if o.startswith("ok "):
            case.append(f"codec.header {o.split()[1]} none")
            case.append(f"codec.header {o.split()[1]}00 none")      # 1..3 stray bytes after the versions
        yield case
    # short headers
    for dl in range(21):
        for spin in (0, 1):
            for kp in (0, 1):
                d = cid(dl, 5)
                pn = [1, 65535, 70000][(dl + spin + kp) % 3]
                o = impl.step(f"codec.build_short {spin} {kp} {hx(d)} {pn}")
                case = [f"codec.build_short {spin} {kp} {hx(d)} {pn}", f"spec.short_header {spin} {kp} {hx(d)} {pn}"]
                if o.startswith("ok "):
                    pkt = o.split()[1] + "00" * 24
                    for hcl in (dl, 0, 20, dl + 30, "none", -1):
                        case.append(f"codec.header {pkt} {hcl}")
                yield case


def oracle_header(case, out):
    op = case[0].split()
    if op[0] == "codec.build_long":
        version, pt, d, s, tok, payload = int(op[1]), op[2], op[3], op[4], op[5], int(op[6])
        if not out[0].startswith("ok "):
            return (f"{case[0]!r} raised {out[0]!r}", {"kind": "header-raise"})
        hdr_len = len(out[0].split()[1]) // 2
        want = (f"ok ver={version} type={pt} len={hdr_len + payload + 16} dcid={d} scid={s} token={tok} tag=- "
                f"versions=[] used={hdr_len - 2}")
        if out[4] != want:
            return (f"{case[4][:60]!r}…: got {out[4]!r}, expected {want!r}", {"kind": "header-roundtrip"})
        if out[5] != want:
            return (f"coalesced {case[5][:60]!r}…: got {out[5]!r}, expected {want!r}", {"kind": "header-roundtrip"})
        if out[6] != "err ValueError":
            return (f"truncated payload accepted: {out[6]!r}", {"kind": "header-truncated"})
    elif op[0] == "codec.retry":
        version, s, d, od, tok, tag = int(op[1]), op[2], op[3], op[4], op[5], op[7]
        if not out[0].startswith("ok "):
            return (f"{case[0]!r} raised {out[0]!r}", {"kind": "header-raise"})
        raw = bytes.fromhex(out[0].split()[1])
        want_tag = rfc_retry_tag(raw[:-16], bytes.fromhex(od) if od != "-" else b"", version)
        if raw[-16:] != want_tag:
            return (f"{case[0]!r}: integrity tag {raw[-16:].hex()} but RFC 9001 §5.8 gives {want_tag.hex()}", {"kind": "retry-tag"})
        want = (f"ok ver={version} type=RETRY len={len(raw)} dcid={d} scid={s} token={tok} tag={tag} versions=[] used={len(raw)}")
        if out[2] != want:
            return (f"retry round trip: got {out[2]!r}, expected {want!r}", {"kind": "header-roundtrip"})
    elif op[0] == "codec.vn":
        s, d, vs = op[2], op[3], op[4]
        if not out[0].startswith("ok "):
            return (f"{case[0]!r} raised {out[0]!r}", {"kind": "header-raise"})
        n = len(out[0].split()[1]) // 2
        vtxt = "" if vs == "-" else vs
        want = f"ok ver=0 type=VERSION_NEGOTIATION len={n} dcid={d} scid={s} token=- tag=- versions=[{vtxt}] used={n}"
        if out[2] != want:
            return (f"VN round trip: got {out[2]!r}, expected {want!r}", {"kind": "header-roundtrip"})
        if out[3] != "err BufferReadError":
            return (f"VN with a stray byte: {out[3]!r}", {"kind": "header-truncated"})
    elif op[0] == "codec.build_short":
        d = op[3]
        if not out[0].startswith("ok "):
            return (f"{case[0]!r} raised {out[0]!r}", {"kind": "header-raise"})
        n = len(out[0].split()[1]) // 2 + 24
        dl = 0 if d == "-" else len(d) // 2
        want = f"ok ver=none type=ONE_RTT len={n} dcid={d} scid=- token=- tag=- versions=[] used={1 + dl}"
        if out[2] != want:
            return (f"short header round trip: got {out[2]!r}, expected {want!r}", {"kind": "header-roundtrip"})
    return None


def mutate(r, data):
    data = bytearray(data)
    x = r.random()
    if x < 0.35 and data:
        i = r.randrange(len(data))
        data[i] ^= 1 << r.randrange(8)
    elif x < 0.55 and data:
        data[r.randrange(len(data))] = r.randrange(256)
    elif x < 0.75:
        del data[r.randrange(len(data) + 1):]
    elif x < 0.85:
        data += bytes(r.randrange(256) for _ in range(r.randrange(1, 5)))
    elif data:
        i = r.randrange(len(data))
        del data[i]
    return bytes(data)


def header_fuzz_cases(impl, r, n, thorough):
    for a in range(256):
        yield [f"codec.header {a:02x} none", f"codec.header {a:02x} 0", f"codec.header {a:02x} 1"]
    step = 3 if thorough else 41
    for ab in range(r.randrange(step), 65536, step):
        yield [f"codec.header {ab:04x} none", f"codec.header {ab:04x} 1"]
    seeds = []
    for version in (V1, V2):
        for pt in ("INITIAL", "ZERO_RTT", "HANDSHAKE"):
            o = impl.step(f"codec.build_long {version} {pt} {hx(cid(8, 1))} {hx(cid(5, 2))} {hx(cid(3, 3)) if pt == 'INITIAL' else '-'} 20 9")
            seeds.append(bytes.fromhex(o.split()[1]) + bytes(36))
        seeds.append(impl.packet.encode_quic_retry(version, cid(4), cid(8), cid(8), cid(20), 0))
    seeds.append(impl.packet.encode_quic_version_negotiation(cid(3), cid(9), [V1, V2]))
    seeds.append(b"\x41" + cid(8) + bytes(20))
    for s in seeds:     # every truncation of every seed
        for k in range(len(s) + 1):
            yield [f"codec.header {hx(s[:k])} {r.choice(['none', 8])}"]
    # every value of the bits the RFC leaves to the sender: the 4 type-specific bits of a long header (reserved
    # bits, packet-number length 1-4 before protection / Retry's unused bits), the 7 unused bits of Version
    # Negotiation, the 6 low bits of a short header (spin, reserved, key phase, packet-number length)
    for s in seeds:
        if s[0] & 0x80 and s[1:5] == bytes(4):
            lows = range(128)
            base = 0x80
        elif s[0] & 0x80:
            lows = range(16)
            base = s[0] & 0xF0
        else:
            lows = range(64)
            base = 0x40
        for low in lows:
            yield [f"codec.header {(bytes([base | low]) + s[1:]).hex()} {r.choice(['none', 8])}"]
    # length fields that lie: DCID length, SCID length, token length, payload Length, each +-1/+-2 and
    # at the 20/21 boundary, in every long-header seed (the rest of the bytes unchanged)
    for s in seeds[:-1]:
        dl = s[5]
        spos = 6 + dl
        idx = [5, spos, spos + 1 + s[spos]]            # dcid len, scid len, token length / Length
        if (s[0] >> 4) & 3 == (1 if s[1:5] == V2.to_bytes(4, "big") else 0) and s[1:5] != bytes(4):
            idx.append(idx[2] + 1 + (s[idx[2]] & 0x3F))    # Initial: the Length field after the token
        for i in idx:
            if i >= len(s):
                continue
            for nv in {s[i] - 2, s[i] - 1, s[i] + 1, s[i] + 2, 0, 20, 21, 63, 64}:
                if 0 <= nv < 256 and nv != s[i]:
                    m = bytearray(s)
                    m[i] = nv
                    yield [f"codec.header {bytes(m).hex()} none", f"codec.header {bytes(m).hex()} 8"]
    for _ in range(n):
        s = r.choice(seeds)
        for _ in range(r.randrange(1, 4)):
            s = mutate(r, s)
        yield [f"codec.header {hx(s)} {r.choice(['none', 0, 8, 20, 21])}"]
    for _ in range(n // 2):
        k = r.randrange(0, 40)
        s = bytes(r.randrange(256) for _ in range(k))
        yield [f"codec.header {hx(s)} {r.choice(['none', 0, 8])}"]


def oracle_header_fuzz(case, out):
    for op, o in zip(case, out):
        if o.startswith("err ") and o not in ("err ValueError", "err BufferReadError", "err TypeError"):
            return (f"{op[:80]!r}: undocumented error {o!r}", {"kind": "header-error-class"})
        if o.startswith("err TypeError") and op.split()[2] != "none":
            return (f"{op[:80]!r}: {o!r}", {"kind": "header-error-class"})
        if o.startswith("ok "):
            d = kv(o)
            n = len(op.split()[1]) // 2 if op.split()[1] != "-" else 0
            if int(d["used"]) > n or int(d["len"]) > n:
                return (f"{op[:80]!r}: header claims {d['len']} bytes / used {d['used']} of {n}", {"kind": "header-overrun"})
        # independent RFC 9000 §17 reader: same verdict, same fields, same consumed length
        t = op.split()
        data = b"" if t[1] == "-" else bytes.fromhex(t[1])
        want = c17_rfc.rfc_header_decode(data, None if t[2] == "none" else int(t[2]))
        if want is None and o.startswith("ok "):
            return (f"{op[:90]!r}: accepted as {o!r}; an RFC 9000 §17 reader rejects it (a CID / token / payload "
                    f"length field runs past the packet or exceeds its limit)", {"kind": "header-declared-length"})
        if want is not None and o != want:
            return (f"{op[:90]!r}: got {o!r}; an RFC 9000 §17 reader gives {want!r}", {"kind": "header-value"})
    return None


# ------------------------------------------------- D. transport parameters
INT_IDS = [0x01, 0x03, 0x04, 0x05, 0x06, 0x07, 0x08, 0x09, 0x0A, 0x0B, 0x0E, 0x20]
BYTES_IDS = [0x00, 0x02, 0x0F, 0x10, 0xC37]
ALL_IDS = [0x00, 0x01, 0x02, 0x03, 0x04, 0x05, 0x06, 0x07, 0x08, 0x09, 0x0A, 0x0B, 0x0C, 0x0D, 0x0E, 0x0F, 0x10,
           0x11, 0x20, 0xC37]
INT_VALUES = [0, 1, 63, 64, 16383, 16384, (1 << 30) - 1, 1 << 30, P62 - 1]
BYTES_VALUES = [b"", b"\x00", cid(8), cid(16), cid(20), cid(300)]
TOKEN = bytes(range(16))
PREF_VALUES = [
    f"P/01020304/443/none/0/-/{TOKEN.hex()}",
    f"P/none/0/{bytes(range(1, 17)).hex()}/65535/{cid(20).hex()}/{TOKEN.hex()}",
    f"P/ffffffff/0/{(bytes(15) + bytes([1])).hex()}/1/{cid(255).hex()}/{bytes(16).hex()}",
    f"P/none/0/none/0/{cid(4).hex()}/{TOKEN.hex()}",
]
VINFO_VALUES = [f"V/1/-", f"V/{V2}/1", f"V/1/{V2},1,4294967295", "V/4294967295/" + ",".join(["1"] * 40)]


def tp_value(pid, i):
    if pid in INT_IDS:
        return str(INT_VALUES[i % len(INT_VALUES)])
    if pid in BYTES_IDS:
        return hx(BYTES_VALUES[i % len(BYTES_VALUES)])
    if pid == 0x0C:
        return "1"
    if pid == 0x0D:
        return PREF_VALUES[i % len(PREF_VALUES)]
    return VINFO_VALUES[i % len(VINFO_VALUES)]


def tp_text(mask, salt):
    items = []
    for j, pid in enumerate(ALL_IDS):
        if mask >> j & 1:
            items.append(f"{pid:x}={tp_value(pid, salt + j * 7 + mask)}")
    return ";".join(items) if items else "-"


def tp_subset_cases(r, thorough):
    """all subsets (thorough) / all subsets of size <=2 and >=19 plus a sample (quick); values rotate
    through the boundary lists so that every (parameter, boundary value) pair occurs many times"""
    if thorough:
        masks = range(1 << 20)
    else:
        masks = [m for m in range(1 << 20) if bin(m).count("1") <= 2 or bin(m).count("1") >= 19]
        masks += [r.randrange(1 << 20) for _ in range(3000)]
    for m in masks:
        txt = tp_text(m, m % 11)
        yield [f"codec.tp_roundtrip {txt}", f"spec.tp {txt}"]
    # every parameter alone with every boundary value
    for j, pid in enumerate(ALL_IDS):
        for i in range(9):
            txt = f"{pid:x}={tp_value(pid, i)}"
            yield [f"codec.tp_roundtrip {txt}", f"spec.tp {txt}", f"codec.tp_push {txt} 400", f"codec.tp_push {txt} 3"]


def oracle_tp(case, out):
    t = case[0].split()
    if t[0] != "codec.tp_roundtrip":
        return None
    if out[0] != "ok " + t[1]:
        return (f"transport parameters {t[1][:120]!r} came back as {out[0][:160]!r}", {"kind": "tp-roundtrip"})
    if len(out) > 1 and case[1].startswith("spec.tp ") and out[1].startswith("ok "):
        # the real encoder's bytes, read by the RFC 9000 §18 walker
        enc = b"" if out[1] == "ok -" else bytes.fromhex(out[1].split()[1])
        got = c17_rfc.rfc_tp_decode(enc)
        if got != t[1]:
            return (f"encoding of {t[1][:100]!r} is {enc.hex()[:120]}, which an RFC 9000 §18 reader decodes as "
                    f"{got!r}", {"kind": "tp-encoding"})
    return None


def tp_out_of_range_cases():
    bad = ["1=4611686018427387904", "1=18446744073709551621", f"d=P/01020304/65536/none/0/-/{TOKEN.hex()}",
           f"d=P/01020304/1/none/0/{cid(256).hex()}/{TOKEN.hex()}", f"d=P/01020304/1/none/0/-/{cid(15).hex()}",
           f"d=P/00000000/443/none/0/-/{TOKEN.hex()}", "11=V/0/1", "11=V/1/0", "11=V/4294967296/1",
           f"0={cid(300).hex() * 220}", f"c37={cid(255).hex() * 257}"]
    for b in bad:
        yield [f"codec.tp_roundtrip {b}", f"codec.tp_push {b} 70000"]


def tp_decode_cases(impl, r, n, thorough):
    for a in range(256):
        yield [f"codec.tp_pull {a:02x}"]
    step = 1 if thorough else 7
    for ab in range(r.randrange(step), 65536, step):
        yield [f"codec.tp_pull {ab:04x}"]
    # length fields that lie: every known id with every length 0..5 over a fixed 4-byte body
    for pid in ALL_IDS + [0x21, 0x3F]:
        idb = rfc_varint_encode(pid)
        for ln in range(0, 6):
            for body in (b"", b"\x05", b"\x40\x05", b"\x00\x00\x00\x01", b"\x00\x00\x00\x01\x00\x00\x00\x02"):
                yield [f"codec.tp_pull {(idb + bytes([ln]) + body).hex()}"]
    seeds = []
    for m in [r.randrange(1 << 20) for _ in range(40)] + [(1 << 20) - 1, 1 << 13, 1 << 17]:
        o = impl.step(f"codec.tp_push {tp_text(m, 3)} 8000")
        if o.startswith("ok ") and o != "ok -":
            seeds.append(bytes.fromhex(o.split()[1]))
    for s in seeds[:6]:
        for k in range(len(s) + 1):
            yield [f"codec.tp_pull {hx(s[:k])}"]
    for _ in range(n):
        s = r.choice(seeds)
        for _ in range(r.randrange(1, 4)):
            s = mutate(r, s)
        yield [f"codec.tp_pull {hx(s)}"]
    for _ in range(n // 2):
        s = bytes(r.choice([r.randrange(0, 0x12), r.randrange(256), 0]) for _ in range(r.randrange(0, 30)))
        yield [f"codec.tp_pull {hx(s)}"]


def tp_length_lie_cases(impl):
    """targeted family: for EVERY known parameter id, a well-formed value whose declared length is
    shorter / longer than the varint or fixed structure inside, alone, followed by a valid parameter,
    and preceded by one (an over-run that lands exactly on the next parameter boundary is the case a
    decoder that only checks 'consumed at least the declared length' accepts)"""
    suffixes = [b"", bytes.fromhex("0c00"), bytes.fromhex("010480000005")]
    prefixes = [b"", bytes.fromhex("0e0102")]
    for pid in ALL_IDS:
        idb = rfc_varint_encode(pid)
        bodies = []
        for i in range(9):
            o = impl.step(f"codec.tp_push {pid:x}={tp_value(pid, i)} 2000")
            if o.startswith("ok "):
                enc = b"" if o == "ok -" else bytes.fromhex(o.split()[1])
                ln = rfc_varint_decode(enc[len(idb):])
                bodies.append(enc[len(idb) + ln[1]:])
        if pid in INT_IDS:      # non-minimal varints of every width too
            bodies += [b"\x40\x0a", b"\x80\x00\x00\x0a", b"\xc0\x00\x00\x00\x00\x00\x00\x0a"]
        seen = set()
        for body in bodies:
            for delta in (-8, -4, -3, -2, -1, 0, 1, 2, 3, 4):
                declared = len(body) + delta
                if declared < 0 or (declared, body) in seen:
                    continue
                seen.add((declared, body))
                for pre in prefixes:
                    for suf in suffixes:
                        yield [f"codec.tp_pull {hx(pre + idb + rfc_varint_encode(declared) + body + suf)}"]


def oracle_tp_decode(impl):
    def f(case, out):
        for op, o in zip(case, out):
            data = b"" if op.split()[1] == "-" else bytes.fromhex(op.split()[1])
            want = c17_rfc.rfc_tp_decode(data)     # RFC 9000 §18 walk, written from the RFC
            if o.startswith("err "):
                if o not in ("err ValueError", "err BufferReadError"):
                    return (f"{op[:80]!r}: undocumented error {o!r}", {"kind": "tp-error-class"})
                if want is not None:
                    return (f"{op[:80]!r}: a well-formed parameter sequence ({want[:100]}) was rejected: {o}",
                            {"kind": "tp-reject-valid"})
                continue
            if want is None:
                return (f"transport parameters {data.hex()} accepted as {o.split()[1][:120]!r} although some "
                        f"parameter does not occupy exactly its declared length (RFC 9000 §18 id/length/value walk "
                        f"fails): the decoder read past a declared length", {"kind": "tp-declared-length"})
            if o.split()[1] != want:
                return (f"transport parameters {data.hex()} decoded as {o.split()[1][:120]!r}; an RFC 9000 §18 "
                        f"reader gives {want[:120]!r}", {"kind": "tp-value"})
            # re-encoding must give an encoding whose RFC walk yields the same values
            o4 = impl.step(f"codec.tp_push {want} 70000")
            if o4.startswith("ok "):
                enc = b"" if o4 == "ok -" else bytes.fromhex(o4.split()[1])
                if c17_rfc.rfc_tp_decode(enc) != want:
                    return (f"{data.hex()} decoded as {want[:100]!r}; its re-encoding {enc.hex()[:120]} reads as "
                            f"{c17_rfc.rfc_tp_decode(enc)!r}", {"kind": "tp-reencode"})
            elif len(data) <= 65536:
                return (f"{data.hex()[:80]} decoded as {want[:100]!r} which cannot be re-encoded: {o4}",
                        {"kind": "tp-reencode"})
            # accepted: re-encoding decodes to the same set (C17, second sentence)
            txt = o.split()[1]
            n = 0 if op.split()[1] == "-" else len(op.split()[1]) // 2
            if kv(o)["used"] != str(n):
                return (f"{op[:80]!r}: consumed {kv(o)['used']} of {n}", {"kind": "tp-consumed"})
            o2 = impl.step(f"codec.tp_roundtrip {txt}")
            if o2 != "ok " + txt:
                return (f"{op[:80]!r} decoded {txt[:120]!r}; re-encoding gives {o2[:160]!r}", {"kind": "tp-reencode"})
        return None
    return f


def _replay_codec(path):
    """replay of Buffer / packet.py / frame / retry-token witnesses"""
    tree.activate()
    from harness.impl_codec import CodecImpl
    impl = CodecImpl()
    oracles = {
        "int-roundtrip": oracle_int, "size": oracle_size, "int-decode-prefixes": oracle_varint_decode,
        "ack-roundtrip": oracle_ack, "ack-capacity": oracle_ack, "ack-budget": oracle_ack_budget, "ack-decode": oracle_ack_decode(impl, {}),
        "header-roundtrip": oracle_header, "header-decode": oracle_header_fuzz, "tp-subsets": oracle_tp,
        "tp-declared-length": oracle_tp_decode(impl), "tp-decode": oracle_tp_decode(impl),
    }
    import json
    from checks import c17_frames
    name = (json.load(open(path)).get("signature") or {}).get("oracle", "")
    if name == "tls-ext-bodies":
        from checks import c17_tlsext
        from harness.impl_tlsext import TlsExtImpl
        timpl = TlsExtImpl()
        return runner.replay_ops(path, lambda: timpl, c17_tlsext.ORACLES)
    if name in c17_frames.ORACLES or name.startswith("frames-") or name == "retry-token":
        from harness.impl_frames import FrameImpl
        fimpl = FrameImpl()
        return runner.replay_ops(path, lambda: fimpl, c17_frames.ORACLES)
    return runner.replay_ops(path, lambda: impl, oracles)


# ----------------------------------------------------------------- the check
def main(tier):
    ctx = core.Ctx("C17", tier)
    tree.activate()
    from harness.impl_codec import CodecImpl

    ctx.prove(PROP_MODULES, [])
    ctx.cov["trusted_base"] = [
        "Lean 4.33.0 kernel (+ leanchecker in thorough tier)",
        "axioms: subset of {propext, Classical.choice, Quot.sound} (audited by #print axioms)",
        "hand-written model AQ.Model.Codec tied by differential correspondence (this run) to _buffer.c, buffer.py, "
        "quic/packet.py and the header writer of quic/packet_builder.py; fresh Buffer memory is modelled as zeros "
        "(the adapter zero-fills `codec.new` buffers); C `|`/`>>` on disjoint bit fields modelled arithmetically",
        "AQ.Model.CodecSpec written from RFC 9000 §16-19, RFC 9368 §3, RFC 9369 §3 (independent of aioquic)",
        "external: AES-GCM Retry integrity tag (a parameter of the model; checked here against RFC 9001 §5.8 / "
        "RFC 9369 §3.3.3 constants), os.urandom (a parameter), ipaddress text<->packed conversion",
        "harness/impl_codec.py canonicalisation; CPython 3.12 PyArg_ParseTuple semantics for B/H/I/K/n",
    ]
    ctx.assumptions = [
        "round-trip theorems are for in-range values (ints below the field width / 2^62, CID length <= 20, "
        "token/tag sizes as in the RFC); out-of-range values are covered by the truncation law and by correspondence",
        "TLS handshake message codecs are decided by a separate check",
    ]
    r = rng.make("c17")
    thorough = tier == "thorough"
    impl = CodecImpl()
    one = lambda: impl   # noqa: E731  (every case starts by resetting what it uses)

    def run(name, cases, oracle=None, nontrivial=None):
        return runner.run_cases(ctx, name, cases, one, oracle, nontrivial, fresh_impl_per_case=False)

    # ---- A. integers and the Buffer object
    values = boundary_values()
    values += [r.randrange(0, P62) for _ in range(200 if not thorough else 5000)]
    values += [r.randrange(0, P64) for _ in range(200 if not thorough else 5000)]
    values += [-r.randrange(1, P64) for _ in range(20 if not thorough else 500)]
    cases = list(int_cases(values))
    run("int-roundtrip", cases, oracle_int, lambda c, o: abs(int(c[1].split()[1])) > 63)
    ctx.sample({"int-roundtrip": cases[len(cases) // 2]})
    run("capacity", list(capacity_cases()))
    run("size", list(size_cases(values)), oracle_size)
    run("varint-spec", list(spec_varint_cases(values)))
    cases = list(prefix_cases(r, thorough))
    run("int-decode-prefixes", cases, oracle_varint_decode, lambda c, o: any(x.startswith("ok") for x in o[1:]))
    ctx.sample({"int-decode": cases[300]})
    cases = list(buffer_random_cases(r, 2000 if not thorough else 60000))
    run("buffer-random", cases, None, lambda c, o: any(x.startswith("err") for x in o) and any(x.startswith("ok ") for x in o[1:]))
    ctx.sample({"buffer-random": cases[1][:8]})

    # ---- B. ACK frames
    delays = [0, 63, 64, P62 - 1]
    bases = [0, 1, 58, 16380, P62 - 6] if not thorough else [0, 1, 2, 58, 62, 16380, 16384, (1 << 30) - 3, P62 - 7, P62 - 6]
    cases = list(ack_cases(impl, 6, bases, delays if thorough else [0, 64, P62 - 1]))
    run("ack-roundtrip", cases, oracle_ack, lambda c, o: "," in c[0].split()[1])
    ctx.sample({"ack": cases[77]})
    cases = list(ack_cases(impl, 4, [0, 100], [5], caps=range(0, 12)))
    run("ack-capacity", cases, oracle_ack)
    run("ack-illformed", list(ack_illformed_cases()))
    cases = list(ack_budget_cases(impl, 9 if thorough else 7, [0] if not thorough else [0, 58, 16380], thorough))
    cases += list(ack_budget_cases(impl, 4, [60, 16380, P62 - 5], True))
    run("ack-budget", cases, oracle_ack_budget, lambda c, o: any(" n=1 " not in x for x in o))
    ctx.sample({"ack-budget": cases[100][:4]})
    cases = list(ack_decode_cases(r, 3000 if not thorough else 100000, thorough))
    run("ack-decode", cases, oracle_ack_decode(impl, ctx.notes), lambda c, o: any(x.startswith("ok ") for x in o))
    ctx.sample({"ack-decode": cases[70000 % len(cases)]})

    # ---- C. headers
    cases = list(header_cases(impl, thorough, r))
    run("header-roundtrip", cases, oracle_header)
    ctx.sample({"header": [x[:90] for x in cases[100]]})
    cases = list(header_fuzz_cases(impl, r, 4000 if not thorough else 150000, thorough))
    run("header-decode", cases, oracle_header_fuzz, lambda c, o: any(x.startswith("ok ") for x in o))

    # ---- D. transport parameters
    run("tp-subsets", tp_subset_cases(r, thorough), oracle_tp, lambda c, o: c[0].count("=") >= 2)
    run("tp-out-of-range", list(tp_out_of_range_cases()))
    cases = list(tp_length_lie_cases(impl))
    run("tp-declared-length", cases, oracle_tp_decode(impl), lambda c, o: True)
    ctx.sample({"tp-declared-length": cases[len(cases) // 3]})
    cases = list(tp_decode_cases(impl, r, 4000 if not thorough else 150000, thorough))
    run("tp-decode", cases, oracle_tp_decode(impl), lambda c, o: any(x.startswith("ok ") and not x.startswith("ok - ") for x in o))
    ctx.sample({"tp-decode": cases[-1]})

    ctx.cov["rule"] = (
        "integers: every value within ±2 of 0, 63/64, 255/256, 16383/16384, 65535/65536, 2^30, 2^32, 2^62, 2^63, 2^64 plus "
        "random 62/64-bit and negative values x every push/pull width; every push against every free space 0..9; every "
        "1-byte and (thorough: every / quick: every 5th) 2-byte string for every reader; random Buffer op sequences. "
        "ACK: every non-empty subset of 6 consecutive packet numbers at several bases (0 … 2^62-6) x delays, every "
        "capacity 0..11, ill-formed sets, every 1-byte/(sampled) 2-byte string, all 4-field frames over 0..5, random bytes. "
        "Headers: CID length pairs 0..20 (thorough: all 441; quick: border+diagonal+sample) x Initial/0-RTT/Handshake x "
        "v1/v2/unknown version, Retry x v1/v2, Version Negotiation, short headers x spin x key phase x host_cid_length; "
        "every truncation of seed packets, bit flips, random bytes. Transport parameters: thorough all 2^20 subsets "
        "(quick: sizes <=2, >=19 and 3000 random) with rotating boundary values, each parameter alone with each boundary "
        "value, out-of-range values, lying length fields (for every known id: declared length -8..+4 around the varint / "
        "fixed structure inside, alone, before and after a valid parameter), truncations, mutations; long-header seeds "
        "with DCID/SCID/token/Length fields off by 1-2 and at 20/21. Every decoder verdict (transport parameters, ACK "
        "frames, headers) is compared with an independent plain-Python reader written from RFC 9000 §17/§18/§19.3 "
        "(checks/c17_rfc.py): accepted => every structure fills exactly its declared length, same values, same consumed "
        "length, and the re-encoding reads back identically; rejected => the RFC reader rejects too. Non-trivial = value beyond one byte / "
        "multi-range set / accepted decode / >=2 parameters; distinct by op-sequence hash."
    )
    ctx.cov["exhaustive"] = True
    # TLS handshake message codecs (tls.py): round trips, declared-length confinement, acceptance model
    from checks import c17_tls
    c17_tls.run(ctx, tier)
    # every QUIC frame + Retry token plaintext: model vs real writers (sim payloads) vs harness/frames.py
    from checks import c17_frames
    c17_frames.run(ctx, tier)
    # typed TLS extension bodies: model encoders/decoders vs the real tls.py helpers
    from checks import c17_tlsext
    c17_tlsext.run(ctx, tier)
    return ctx.finish()


def replay(path):
    """re-execute a replay file; the TLS section owns the witnesses of the TLS message codecs"""
    import json
    d = json.load(open(path))
    if d.get("kind") != "impl-witness":
        print("the replay names a broken obligation / correspondence, nothing to execute:", json.dumps(d.get("broken", []))[:600])
        return 1
    from checks import c17_tls
    if c17_tls.owns(d):
        tree.activate()
        problems = c17_tls.replay_witness(d)
        for p in problems:
            print("still failing:", p[:400])
        if not problems:
            print("no longer failing")
        return 1 if problems else 0
    return _replay_codec(path)
