"""C11 — TLS handshake messages are accepted only in protocol order.

proof:   AQ.Props.C11 about the machine REGENERATED from tls.py on every run
         (tools/extract_tls.py -> lean/AQ/Gen/TlsMachine.lean): accepted types =
         RFC table, clean refusal, no completion without verified
         CertificateVerify + Finished unless PSK (all message sequences), only the
         legal flights complete, keys after authentication
tie:     T1 regeneration (extraction fails loudly on unknown shapes) + T2: real
         tls.Context objects in all 13 states x every handshake type, and
         adversarial flights of a key-holding server, compared with the
         generated machine's prediction through the compiled driver
oracle:  written from the property text / RFC 8446 (tables below), evaluated on
         the implementation's own behaviour
"""
import itertools
import os
import subprocess
import sys

from harness import core, lean, rng, tree

HERE = os.path.dirname(os.path.dirname(os.path.abspath(__file__)))

# RFC 8446 Appendix A + RFC 9001 (no EndOfEarlyData / KeyUpdate): expected next types
RFC_NEXT = {
    "CLIENT_HANDSHAKE_START": set(),
    "CLIENT_EXPECT_SERVER_HELLO": {2},
    "CLIENT_EXPECT_ENCRYPTED_EXTENSIONS": {8},
    "CLIENT_EXPECT_CERTIFICATE_REQUEST_OR_CERTIFICATE": {13, 11},
    "CLIENT_EXPECT_CERTIFICATE": {11},
    "CLIENT_EXPECT_CERTIFICATE_VERIFY": {15},
    "CLIENT_EXPECT_FINISHED": {20},
    "CLIENT_POST_HANDSHAKE": {4},
    "SERVER_EXPECT_CLIENT_HELLO": {1},
    "SERVER_EXPECT_CERTIFICATE": {11},
    "SERVER_EXPECT_CERTIFICATE_VERIFY": {15},
    "SERVER_EXPECT_FINISHED": {20},
    "SERVER_POST_HANDSHAKE": set(),
}
EE, CR, CERT, CV, FIN, NST = 8, 13, 11, 15, 20, 4
LEGAL = {False: [[EE, CERT, CV, FIN], [EE, CR, CERT, CV, FIN]], True: [[EE, FIN]]}


def regenerate(ctx):
    """T1: regenerate the machine from the tree under test; a failure is a broken tie"""
    r = subprocess.run([sys.executable, os.path.join(HERE, "tools", "extract_tls.py"), "-v"],
                       capture_output=True, text=True)
    ctx.notes["extract_tls"] = (r.stdout + r.stderr).strip()[-400:]
    if r.returncode != 0:
        ctx.broken.append({"kind": "broken-tie", "tool": "extract_tls.py", "log": r.stderr[-1500:]})
        return False
    return True


class Corr:
    """collects (model op, implementation line) pairs and diffs them in one driver run"""

    def __init__(self, ctx):
        self.ctx = ctx
        self.ops, self.impl, self.desc = [], [], []

    def add(self, op, line, desc):
        self.ops.append(op)
        self.impl.append(line)
        self.desc.append(desc)

    def flush(self, name):
        if not self.ops:
            return 0
        out = lean.run_driver(self.ops)
        bad = 0
        for op, i, m, d in zip(self.ops, self.impl, out, self.desc):
            if i != m:
                bad += 1
                if bad <= 3:
                    self.ctx.disagreement(name, [d, op], m, i, 0)
        self.ctx.cov["traces_validated_against_impl"] += len(self.ops)
        self.ops, self.impl, self.desc = [], [], []
        return bad


def type_name(t, tls):
    try:
        return tls.HandshakeType(t).name
    except ValueError:
        return "unknown"


def check_env_ok(ctx, o, R, desc):
    """EnvOK of the model: attribute-reading tests have the value at handler entry"""
    if o.fn is None:
        return
    for name, attr, expect in (("ee_resumed", "session_resumed", lambda v: v),
                               ("fin_cert_requested", "certificate_request_none", lambda v: not v)):
        t = next(x for x in R["tests"] if x["name"] == name)
        if t["fn"] == o.fn and t["line"] in o.lines.get(o.fn, []):
            if (name in o.tests) != bool(expect(o.attrs0[attr])):
                ctx.disagreement("env-ok", [desc, name], str(expect(o.attrs0[attr])), str(name in o.tests), 0)
    if o.fn == "_server_handle_hello" and o.exc is None:
        # the model treats these tests as independent inputs; in the code they are tied
        T = set(o.tests)
        psk = "sh_psk_offered" in T and "sh_ticket_ok" in T
        for name, want in (("sh_no_psk_a", not psk), ("sh_no_psk_b", not psk)):
            if (name in T) != want:
                ctx.disagreement("env-ok", [desc, name], str(want), str(name in T), 0)
        if "sh_no_psk_b" in T and (("sh_request_cert_a" in T) != ("sh_request_cert_b" in T)):
            ctx.disagreement("env-ok", [desc, "sh_request_cert"], "equal", "different", 0)
    t = next(x for x in R["tests"] if x["name"] == "ch_psk_reject")
    if t["fn"] == o.fn and t["line"] in o.lines.get(o.fn, []) and o.attrs0["key_schedule_psk_none"]:
        if "ch_psk_reject" not in o.tests:
            ctx.disagreement("env-ok", [desc, "ch_psk_reject"], "True", "False", 0)


def observe_case(ctx, corr, I, R, tls, c, kt, msg, desc):
    o = I.observe(c, msg, kt)
    t = type_name(msg[0], tls) if msg else "unknown"
    # dispatch correspondence
    if o.state0.name == "CLIENT_HANDSHAKE_START":
        got = o.fn or "refuse"
    else:
        got = o.fn if o.fn is not None else "refuse"
    corr.add(f"tls.dispatch {o.state0.name} {t}", f"ok {got}", desc)
    if o.fn is not None:
        corr.add(I.model_op(o), I.impl_line(o), desc)
        check_env_ok(ctx, o, R, desc)
    if o.post_assert:
        ctx.witness("AssertionError from `assert input_buf.eof()` escaped handle_message", {"case": desc},
                    {"oracle": "post-assert"})
    return o


def states_x_types(ctx, corr, thorough):
    """(a) all 13 states x every handshake type"""
    from aioquic import tls
    from harness import impl_tls as I, tlsdrive as D, tlsscen as S
    R = I.ir()
    pool = S.pool()
    types = [int(t) for t in tls.HandshakeType] + [0, 3, 255]
    n = 0
    for st in S.CLIENT_STATES + S.SERVER_STATES:
        for t in types:
            variants = ["genuine", "pool"] if t in RFC_NEXT[st] else ["pool"]
            for v in variants:
                c, kt, nxt = S.drive(st)
                if v == "genuine" and nxt and nxt[0] == t:
                    msg = nxt
                else:
                    msg = pool.get(t) or D.minimal(t)
                desc = f"state={st} type={t} ({v})"
                o = observe_case(ctx, corr, I, R, tls, c, kt, msg, desc)
                n += 1
                ctx.count(("sxt", st, t, v), True)
                # ---- oracle from the property text
                if st == "CLIENT_HANDSHAKE_START":
                    if o.exc is not None or o.state1.name != "CLIENT_EXPECT_SERVER_HELLO":
                        ctx.witness(f"fresh client did not send its hello: {o.exc!r}", {"case": desc}, {"oracle": "start"})
                    continue
                if t not in RFC_NEXT[st]:
                    problems = []
                    if not isinstance(o.exc, tls.AlertUnexpectedMessage):
                        problems.append(f"raised {o.exc!r} instead of AlertUnexpectedMessage")
                    if o.state1 != o.state0:
                        problems.append(f"state changed to {o.state1.name}")
                    if o.keys:
                        problems.append(f"keys installed {o.keys}")
                    if o.hash:
                        problems.append("transcript hash updated")
                    if o.resumed_now != o.resumed0:
                        problems.append("resumption flag changed")
                    if problems:
                        ctx.witness(f"{st}: message type {t} not permitted by TLS 1.3 here but " + "; ".join(problems),
                                    {"kind": "state-type", "state": st, "type": t, "message": msg.hex()},
                                    {"oracle": "unexpected-type", "state": st, "type": t})
                elif v == "genuine" and o.exc is not None:
                    ctx.witness(f"{st}: genuine next message of type {t} refused: {o.exc!r}", {"case": desc},
                                {"oracle": "genuine-refused", "state": st})
    ctx.notes["states_x_types"] = n


def sequences(thorough):
    base = [EE, CR, CERT, CV, FIN]
    seqs = []
    for k in range(0, 6):
        for sub in itertools.combinations(base, k):
            seqs += [list(p) for p in itertools.permutations(sub)]
    if thorough:
        # repetitions: every sequence of length <= 4 over the five types, and the
        # legal flights with one message duplicated at every position
        for k in range(1, 5):
            seqs += [list(p) for p in itertools.product(base, repeat=k)]
        for fl in LEGAL[False] + LEGAL[True]:
            for i in range(len(fl)):
                for j in range(len(fl) + 1):
                    seqs.append(fl[:j] + [fl[i]] + fl[j:])
    else:
        for fl in LEGAL[False] + LEGAL[True]:
            for i in range(len(fl)):
                seqs.append(fl[:i + 1] + fl[i:])
    seen, out = set(), []
    for s in seqs:
        if tuple(s) not in seen:
            seen.add(tuple(s))
            out.append(s)
    return out


def adversarial_flights(ctx, corr, thorough, r):
    """(b) every ordering / omission / repetition of the server flight, sent by a
    server that holds all keys and recomputes CertificateVerify and Finished over
    the transcript actually sent"""
    from aioquic import tls
    from harness import impl_tls as I, tlsdrive as D, tlsscen as S
    R = I.ir()
    seqs = sequences(thorough)
    store = S.ticket_store()
    cr_msg = S.pool()[CR]
    variants = [("cert-rsa", False), ("resumed", True)]
    if thorough:
        variants += [("cert-ec256", False)]
    total = completed = 0
    for vname, resumed in variants:
        for seq in seqs:
            if resumed:
                p = S.resumed_pair(store)
            elif vname == "cert-ec256":
                p = D.Pair(D.client(ident=S.ident("ec256")), D.server(ident=S.ident("ec256")))
            else:
                p = D.Pair(D.client(), D.server())
            p.hello()
            assert p.serve() is None
            assert p.s.session_resumed == resumed
            f = D.Forger(p)
            if resumed:
                # the forger knows the long-term key too: it may add certificate messages
                f.key, f.sigalg = S.ident("rsa")[2], 0x0804
                cert = S.pool()[CERT]
            else:
                cert = None
            msgs = f.flight(seq, cr=cr_msg, cert=cert)
            exc, _ = D.feed(p.c, f.sh)
            assert exc is None, exc
            raised = None
            done_at = None
            for i, m in enumerate(msgs):
                o = observe_case(ctx, corr, I, R, tls, p.c, p.ck, m, f"{vname} flight={seq} step={i}")
                if o.exc is not None:
                    raised = o.exc
                    break
                if done_at is None and p.c.state == tls.State.CLIENT_POST_HANDSHAKE:
                    done_at = i + 1
            # the messages processed up to completion must be exactly a legal flight;
            # whatever follows completion is covered by the POST_HANDSHAKE row of (a)
            done = done_at is not None
            legal = (seq[:done_at] in LEGAL[resumed]) if done else (seq in LEGAL[resumed])
            total += 1
            completed += done
            ctx.count(("flight", vname, tuple(seq)), True)
            if done and not legal:
                ctx.witness(f"client ({vname}) completed the handshake on the illegal server flight {seq}",
                            {"kind": "genuine", "variant": vname, "flight": seq[:done_at],
                             "messages": [m.hex() for m in msgs]},
                            {"oracle": "illegal-flight-completes", "variant": vname, "flight": seq[:done_at]})
            if legal and not done:
                ctx.witness(f"client ({vname}) refused the legal flight {seq}: {raised!r}",
                            {"kind": "genuine", "variant": vname, "flight": seq},
                            {"oracle": "legal-flight-refused", "variant": vname})
            if done and not resumed and not any(k == CV for k in seq[:done_at]):
                ctx.witness("client finished without CertificateVerify and without PSK", {"flight": seq},
                            {"oracle": "finished-without-cv"})
            if not done:
                # no 1-RTT key may have been released
                if any(k.endswith("ONE_RTT") for k in p.ck.names()):
                    ctx.witness(f"1-RTT keys released although the handshake did not complete (flight {seq})",
                                {"variant": vname, "flight": seq, "keys": p.ck.names()},
                                {"oracle": "keys-before-auth", "variant": vname})
    # a client that did not offer a PSK must refuse a ServerHello selecting one
    p = D.Pair(D.client(), D.server())
    p.hello()
    assert p.serve() is None
    sh = tls.pull_server_hello(__import__("aioquic.buffer", fromlist=["Buffer"]).Buffer(data=p.server_flight[0]))
    sh.pre_shared_key = 0
    from aioquic.buffer import Buffer
    b = Buffer(capacity=1024)
    tls.push_server_hello(b, sh)
    o = observe_case(ctx, corr, I, R, tls, p.c, p.ck, b.data, "psk selected but not offered")
    if o.exc is None or p.c.session_resumed:
        ctx.witness("client accepted a pre_shared_key selection it never offered", {"server_hello": b.data.hex()},
                    {"oracle": "psk-not-offered"})
    ctx.notes["flights"] = {"sequences": total, "completed": completed}


def quic_level_flights(ctx, thorough, r, only=None):
    """the same adversary seen by a real client QuicConnection: a real server
    QuicConnection whose TLS engine's handshake flight is replaced (harness-side
    wrap of Context.handle_message) by a reordered / shortened flight re-signed and
    re-MACed with its own key schedule; HandshakeCompleted must appear on the
    client only for a legal flight"""
    from aioquic import tls
    from aioquic.buffer import Buffer
    from harness import sim as simmod, tlsdrive as D
    seqs = sequences(False)
    if not thorough:
        legal = [s for s in seqs if s in LEGAL[False]]
        others = [s for s in seqs if s not in LEGAL[False]]
        seqs = legal + r.sample(others, 36)
    if only is not None:
        seqs = [list(only)]
    orig = tls.Context.handle_message
    plan = {}

    def handle_message(self, input_data, output_buf):
        first = (not self._is_client) and self.state == tls.State.SERVER_EXPECT_CLIENT_HELLO
        orig(self, input_data, output_buf)
        if first and "seq" in plan and self.state in (tls.State.SERVER_EXPECT_FINISHED, tls.State.SERVER_EXPECT_CERTIFICATE):
            ch = bytes(input_data)
            sh = output_buf[tls.Epoch.INITIAL].data
            flight = D.split(output_buf[tls.Epoch.HANDSHAKE].data)

            class P:
                pass
            pair = P()
            pair.s, pair.client_hello, pair.server_flight = self, ch, [sh] + flight
            f = D.Forger(pair)
            msgs = f.flight(plan["seq"], cr=D.minimal(13))
            hb = output_buf[tls.Epoch.HANDSHAKE]
            hb.seek(0)
            hb.push_bytes(b"".join(msgs))
            plan["msgs"] = msgs

    tls.Context.handle_message = handle_message
    done_illegal = 0
    try:
        for k, seq in enumerate(seqs):
            plan.clear()
            plan["seq"] = seq
            s = simmod.Sim(3000 + k)
            try:
                s.connect()
                s.fair_phase(max_steps=60, done=lambda: s.client.terminated or s.client.conn._handshake_complete)
            finally:
                s.close_taps()
            completed = any(type(e).__name__ == "HandshakeCompleted" for _, e in s.client.events)
            ctx.count(("quic-flight", tuple(seq)), True)
            # The whole forged flight travels in one CRYPTO stream, so tls.handle_message processes all of
            # it in one call: a legal flight followed by further messages (e.g. [8, 11, 15, 20, 13], a
            # post-handshake CertificateRequest nobody offered) raises unexpected_message inside that call,
            # BEFORE the connection looks at the TLS state — the client then closes with CRYPTO_ERROR and
            # rightly never reports HandshakeCompleted.  Had the trailing message come in a later packet
            # the client would complete first and close afterwards.  Both are correct, so:
            #   exactly a legal flight        -> HandshakeCompleted must appear
            #   no legal prefix at all        -> HandshakeCompleted must not appear
            #   legal prefix + trailing junk  -> either (the trailing message must only never be accepted,
            #                                    which the POST_HANDSHAKE row of the state x type table checks)
            exact = seq in LEGAL[False]
            legal = any(seq[:n] in LEGAL[False] for n in range(len(seq) + 1))
            if completed and not legal:
                done_illegal += 1
                ctx.witness(f"client QuicConnection reported HandshakeCompleted on the illegal server flight {seq}",
                            {"kind": "quic-flight", "flight": seq, "messages": [m.hex() for m in plan.get("msgs", [])]},
                            {"oracle": "illegal-flight-completes", "level": "quic", "flight": seq})
            if exact and not completed:
                ctx.witness(f"client QuicConnection did not complete on the legal flight {seq}: "
                            f"{[e for _, e in s.client.events][-1:]}", {"kind": "quic-flight", "flight": seq},
                            {"oracle": "legal-flight-refused", "level": "quic"})
            if s.client.raised:
                ctx.witness(f"client QuicConnection raised on flight {seq}: {s.client.raised}", {"flight": seq},
                            {"oracle": "quic-raise"})
    finally:
        tls.Context.handle_message = orig
    ctx.notes["quic_level_flights"] = {"sequences": len(seqs), "illegal_completed": done_illegal}


def quic_app_data_before_finished(ctx, seeds=(4100, 4101, 4102)):
    """loss scenario: the client's Handshake packet(s) carrying its Finished are lost while
    the 1-RTT packet with application data reaches the server.  The server's 1-RTT read
    key must not exist before the client Finished verified, so the packet is undecryptable:
    no stream data may be delivered to the application while the server's TLS engine is
    still waiting for Finished"""
    from aioquic.buffer import Buffer
    from aioquic.quic.packet import pull_quic_header
    from harness import sim as simmod

    def short_header_part(data, cid_len):
        """the datagram with every long-header (Initial / Handshake) packet removed"""
        out, pos = b"", 0
        while pos < len(data):
            if not (data[pos] & 0x80):
                out += data[pos:]
                break
            buf = Buffer(data=data[pos:])
            hdr = pull_quic_header(buf, host_cid_length=cid_len)
            n = hdr.packet_length
            if n <= 0:
                break
            pos += n
        return out

    n = 0
    for seed in seeds:
        s = simmod.Sim(seed)
        try:
            s.connect()
            c, sv = s.client.conn, s.server.conn
            steps = 0
            while s.pending and steps < 40 and not c._handshake_complete:
                steps += 1
                d = s.pending.pop(0)
                s.now += 0.001
                s.deliver(d)
            if not c._handshake_complete:
                continue
            s.api(s.client, "send_stream_data", 0, b"application data sent right after the client finished", end_stream=False)
            s.transmit(s.client)
            held = [d for d in s.pending if d["src"] is s.client]
            s.pending[:] = [d for d in s.pending if d["src"] is not s.client]
            delivered = []
            for d in held:
                rest = short_header_part(d["data"], len(sv.host_cid))
                if rest:
                    d2 = dict(d, data=rest)
                    delivered.append(rest.hex())
                    s.now += 0.001
                    s.deliver(d2)
            n += 1
            ctx.count(("quic-early-1rtt", seed), bool(delivered))
            evs = [type(e).__name__ for _, e in s.server.events]
            state = sv.tls.state.name
            got_data = "StreamDataReceived" in evs
            if got_data and (state != "SERVER_POST_HANDSHAKE" or "HandshakeCompleted" not in evs
                             or evs.index("StreamDataReceived") < evs.index("HandshakeCompleted")):
                ctx.witness(
                    f"server delivered StreamDataReceived from a 1-RTT packet while its TLS engine is in {state} (the "
                    f"client's Handshake packets with Finished were lost): the 1-RTT read key was installed before the "
                    f"client Finished verified; server events: {evs}",
                    {"kind": "quic-early-1rtt", "seed": seed, "delivered_1rtt_datagrams": delivered, "server_events": evs},
                    {"oracle": "key-before-authentication", "level": "quic"})
            if s.server.raised:
                ctx.witness(f"server raised on an early 1-RTT packet: {s.server.raised}", {"kind": "quic-early-1rtt", "seed": seed},
                            {"oracle": "quic-raise"})
        finally:
            s.close_taps()
    ctx.notes["quic_early_1rtt"] = n


def main(tier):
    ctx = core.Ctx("C11", tier)
    ok = regenerate(ctx)
    tree.activate()
    ctx.prove(["AQ.Props.C11"], [])
    ctx.cov["trusted_base"] = [
        "Lean 4.33.0 kernel (+ leanchecker in thorough tier); axioms subset of {propext, Classical.choice, Quot.sound}",
        "tools/extract_tls.py + tools/tls_emit.py (Python ast -> action lists); every statement / call shape of the "
        "handlers is classified or the extraction fails; their reading of the source is cross-checked by T2",
        "AQ.Model.TlsMachine: interpreter of the action lists (enabled steps in order up to the first raise)",
        "AQ.Model.TlsSpec: RFC 8446 App. A / RFC 9001 tables written by hand",
        "harness/impl_tls.py (sys.settrace observation), harness/tlsdrive.py (key-holding forger)",
    ]
    ctx.assumptions = [
        "EnvOK: `self._session_resumed`, `self._key_schedule_psk is None`, `self._certificate_request is not None` are "
        "read at a point where the attribute still has its handler-entry value (checked on every observed transition)",
        "symbolic crypto: VerifySig / VerifyFinished / VerifyCert are atomic actions whose result is an input; their "
        "cryptographic soundness is outside C11 (see C03)",
        "CRYPTO data of any encryption level reaches the same TLS state machine (connection.py does not bind message "
        "types to packet number spaces); C11 is stated at the TLS message level",
    ]
    # failing-input search when an obligation or the tie no longer checks
    def search():
        from harness import tlsrogue
        tlsrogue.run(ctx, full=True, label="rogue-server-search")
        quic_app_data_before_finished(ctx)
    ctx.search = search
    if not ok:
        return ctx.finish()
    okb, log, _ = lean.lake_build(["aqdriver"])     # the driver links the regenerated machine
    if not okb:
        ctx.broken.append({"kind": "broken-tie", "tool": "lake build aqdriver", "log": log[-1500:]})
        return ctx.finish()
    from harness import impl_tls as I, tlsdrive as D
    D.tap_extract()
    I.tap_hash()
    thorough = tier == "thorough"
    corr = Corr(ctx)
    states_x_types(ctx, corr, thorough)
    bad = corr.flush("tls-machine/states-x-types")
    adversarial_flights(ctx, corr, thorough, rng.make("c11"))
    bad += corr.flush("tls-machine/adversarial-flights")
    from harness import tlsrogue
    tlsrogue.genuine_dfs(ctx)           # repetitions (each message up to 2x), prefix-tree search on the real client
    tlsrogue.rogue_content_dfs(ctx)     # rogue server varying ServerHello / EncryptedExtensions content
    tlsrogue.key_release_oracle(ctx)    # every traffic secret only while processing its authenticating message
    tlsrogue.refusal_oracle(ctx)        # a forged Finished / CertificateVerify is refused and changes nothing
    tlsrogue.bad_certificate_refusals(ctx)   # genuine signature, unacceptable certificate; flight split at every byte
    tlsrogue.binder_refusals(ctx)            # resumed ClientHello whose binder does not verify, early data on
    tlsrogue.quic_binder_refusals(ctx)       # the same on real connections: 0-RTT receive keys never valid
    quic_app_data_before_finished(ctx)  # lost client Finished, 1-RTT packet arrives first
    quic_level_flights(ctx, thorough, rng.make("c11-quic"))
    ctx.notes["correspondence_mismatches"] = bad
    ctx.cov["exhaustive"] = True
    ctx.cov["rule"] = (
        "exhaustive: real tls.Context driven into each of the 13 states x all 12 handshake types + 3 values outside "
        "the enum (well-formed message of that type; genuine next message for the permitted ones); all permutations "
        "of all sub-multisets of {EE, CertificateRequest, Certificate, CertificateVerify, Finished} (+ repetitions; "
        "thorough: all sequences of length <= 4 with repetition) re-signed / re-MACed by a key-holding server, for a "
        "certificate client and a PSK-resuming client; each processed message compared with the regenerated machine "
        "(handler, exception class, new state, released keys, transcript updates, resumption flag)"
    )
    ctx.sample({"op": corr.desc[:1]})
    return ctx.finish()


def replay(path):
    """re-execute the recorded flight / message of a replay file against the current tree"""
    import json
    d = json.load(open(path))
    if d.get("kind") != "impl-witness":
        print("the replay names a broken obligation / tie, nothing to execute:", json.dumps(d.get("broken", []))[:600])
        return 1
    tree.activate()
    from harness import tlsrogue, tlsdrive as D, tlsscen as S
    rep = d.get("replay", {})
    kind = rep.get("kind")
    ctx = core.Ctx("replay", "quick")
    if kind == "quic-early-1rtt":
        quic_app_data_before_finished(ctx, seeds=(rep["seed"],))
        ws = ctx.witnesses
    elif kind in ("rogue", "genuine", "rogue-content", "key-release", "refusal", "bad-cert-refusal", "binder-refusal", "quic-bad-cert-split", "quic-binder-refusal"):
        ws = tlsrogue.replay(rep)
        if d.get("signature", {}).get("oracle") == "legal-flight-refused" and not _completes(rep):
            ws = [{"what": d["what"]}]
    elif kind == "quic-flight":
        D.tap_extract()
        quic_level_flights(ctx, False, rng.make("replay"), only=rep["flight"])
        ws = ctx.witnesses
    elif kind == "state-type":
        from aioquic import tls
        D.tap_extract()
        c, kt, _ = S.drive(rep["state"])
        st0, k0 = c.state, len(kt.calls)
        exc, _ = D.feed(c, bytes.fromhex(rep["message"]))
        bad = not isinstance(exc, tls.AlertUnexpectedMessage) or c.state != st0 or len(kt.calls) != k0
        ws = [{"what": f"{rep['state']}: type {rep['type']} -> {exc!r}, state {c.state.name}"}] if bad else []
    else:
        print("this witness is not re-executable on its own; re-run ./check C11 with VERIF_SEED set to the seed in the file name")
        return 2
    for w in ws:
        print("still failing:", w["what"][:400])
    if not ws:
        print("no longer failing")
    return 1 if ws else 0


def _completes(rep):
    from aioquic import tls
    from harness import tlsrogue, core as _core
    c = _core.Ctx("replay", "quick")
    v = {"cert-rsa": "certificate", "cert-ec256": "certificate-ec256"}.get(rep["variant"], rep["variant"])
    tlsrogue.genuine_dfs(c, label="replay", only=(v, rep["flight"]))
    return c.notes["replay"]["completed"] == 1
