"""C01 — reliable, ordered, exactly-once stream delivery over any lossy network.

proof:   AQ.Props.C01       one directed stream end to end (prefix, exactly-once end marker, no stream error,
                            conservation, bounded progress, fuel-bounded fair schedule `c01_liveness_bounded_partial`)
         AQ.Props.C01Multi  the connection's stream table: every per-stream theorem for every stream under any
                            interleaving, discard rule, service queue
         AQ.Props.C01Loss   loss detection is complete (recovery model of C08): packet / time threshold on an
                            ACK, the loss timer and the PTO probe report what must be reported
         AQ.Props.C01Keys   1-RTT key-update bookkeeping: generations differ by at most one, the current
                            generation is always readable, counterexamples for the two pre-fix behaviours
tie:     per directed stream of every simulated connection the op sequence (write / emit / deliver / ack / lose /
         reset / discards) is derived from harness-side observation of the two real QuicConnection objects and
         replayed on the compiled model (`sys.`); the same run gives the stream-table op sequence (`tab.`:
         api / arrive / report / serve with the observed loop iterations, inputs and queue tail) and the key-update
         op sequence (`ku.`: request_key_update, every 1-RTT packet built, every decrypt attempt); the key-update
         model is also compared with two real CryptoPairs on every op sequence of length 4 (thorough: 5) + random
oracle:  written from the property text, evaluated on the events the two real connections hand to the
         application (prefix, exactly-once end marker, completeness after a fair phase, no termination, no
         exception; deliberate writes after FIN/reset must raise and change nothing)
runs:    directed scenarios (DIRECTED: one per defect found so far, each fails when its fix is reverted, and the
         family fin-overtakes/<sender>/<stream>/k<1..4>/<v1|v2>: a lone FIN datagram overtakes k data datagrams)
         + PRNG connections (quick 120, thorough 1500); replay: ./check C01 --replay <file> (every witness kind)
"""
import collections
import json
import random

from harness import core, lean, rng, tree

CLIENT_OWN = [0, 4, 8, 2, 6]      # client-initiated bidi 0,4,8 / uni 2,6
SERVER_OWN = [1, 5, 3, 7]         # server-initiated bidi 1,5 / uni 3,7
V1 = 0x00000001
V2 = 0x6B3343CF


# ------------------------------------------------------------------ oracle
class Oracle:
    """the property, from its text; sees only API calls made and events handed out"""

    def __init__(self):
        self.written = collections.defaultdict(bytearray)   # (sender name, sid) -> bytes written
        self.fin = set()
        self.reset = set()
        self.delivered = collections.defaultdict(bytearray)
        self.ends = collections.Counter()
        self.violations = []          # (kind, text)
        self.last_sent = {}           # endpoint name -> virtual time of its last datagram
        self.terminations = []        # (endpoint name, virtual time, error_code, reason)
        self.expect_raise = False     # the next API call is a deliberate misuse (write after FIN / reset)
        self.misuse = collections.Counter()

    def bad(self, kind, text):
        self.violations.append((kind, text))

    def on_event(self, sim, ep, ev):
        n = type(ev).__name__
        if n == "StreamDataReceived":
            k = (ep.peer.name, ev.stream_id)
            self.delivered[k] += ev.data
            if not bytes(self.written[k]).startswith(bytes(self.delivered[k])):
                self.bad("not-a-prefix", f"{k}: delivered bytes are not a prefix of the written bytes "
                                         f"(delivered {len(self.delivered[k])}, written {len(self.written[k])})")
            if ev.end_stream:
                self.ends[k] += 1
                if self.ends[k] > 1:
                    self.bad("end-twice", f"{k}: end of stream signalled {self.ends[k]} times")
                if k not in self.fin:
                    self.bad("end-unwritten", f"{k}: end of stream signalled but the sender never wrote FIN")
                elif bytes(self.delivered[k]) != bytes(self.written[k]):
                    self.bad("end-early", f"{k}: end of stream signalled after {len(self.delivered[k])} of "
                                          f"{len(self.written[k])} bytes")
        elif n == "StreamReset":
            k = (ep.peer.name, ev.stream_id)
            if k not in self.reset:
                self.bad("reset-unrequested", f"{k}: StreamReset delivered but the sender never reset the stream")
        elif n == "ConnectionTerminated":
            self.terminations.append((ep.name, sim.now, int(ev.error_code), ev.reason_phrase))
            self.bad("terminated", f"{ep.name}: ConnectionTerminated error_code={ev.error_code} "
                                   f"frame_type={ev.frame_type} reason={ev.reason_phrase!r}")

    def on_datagram_sent(self, sim, ep, d):
        self.last_sent[ep.name] = sim.now

    def on_raise(self, sim, ep, name, args, exc):
        if self.expect_raise and isinstance(exc, (AssertionError, ValueError)):
            self.misuse[type(exc).__name__] += 1
            return
        self.bad("api-exception", f"{ep.name}.{name} raised {type(exc).__name__}: {exc}")

    def complete(self):
        for k in self.written:
            if k in self.reset:
                continue
            if bytes(self.delivered[k]) != bytes(self.written[k]):
                return False
            if k in self.fin and self.ends[k] < 1:
                return False
        return True

    def final(self):
        for k in sorted(self.written):
            if k in self.reset:
                continue
            if bytes(self.delivered[k]) != bytes(self.written[k]):
                self.bad("undelivered-bytes", f"{k}: {len(self.delivered[k])} of {len(self.written[k])} written bytes "
                                              f"delivered after the fair phase")
            elif k in self.fin and self.ends[k] < 1:
                self.bad("undelivered-fin", f"{k}: all {len(self.written[k])} bytes delivered but end of stream never "
                                            f"signalled after the fair phase")


# --------------------------------------------------------------- scenario
def scenario(r):
    """connection parameters + network fault probabilities, all from the PRNG"""
    ver = r.choice([V1, V2])
    return {
        "cc": r.choice(["reno", "cubic"]),
        "version": ver,
        "steps": r.choice([80, 200, 400]),
        "p_app": r.choice([0.15, 0.3]),
        "p_drop": r.choice([0.0, 0.05, 0.15, 0.3]),
        "p_dup": r.choice([0.0, 0.1, 0.3]),
        "p_reorder": r.choice([0.0, 0.3, 0.7]),
        "p_rebind": r.choice([0.0, 0.0, 0.03]),
        "p_timer": r.choice([0.1, 0.2]),
        "sizes": r.choice([[0, 1, 10, 300], [0, 1, 10, 1000, 5000], [1, 1200, 20000]]),
        "p_fin": r.choice([0.1, 0.3]),
        "p_reset": r.choice([0.0, 0.03, 0.08]),
        "p_key": r.choice([0.0, 0.03, 0.06]),
        "p_cid": r.choice([0.0, 0.03]),
        "p_ping": 0.05,
        # a write on a stream that already has data becomes: flush, then (in a later call) an empty
        # write with end_stream=True — the FIN rides alone in its own datagram
        "p_sepfin": r.choice([0.0, 0.15, 0.4]),
        # single-datagram reordering: the newest datagram in the network overtakes all the others
        # and is delivered first, nothing is lost
        "p_front": r.choice([0.0, 0.1, 0.3]),
    }


def search_scenario(name):
    """failing-input search: no loss / duplication / rebinding, lone FIN datagrams, newest-first reordering"""
    r = random.Random(f"c01-search/{name}")
    return {**scenario(r), "steps": 200, "p_app": 0.3, "p_drop": 0.0, "p_dup": 0.0, "p_reorder": r.choice([0.0, 0.2]),
            "p_rebind": 0.0, "p_reset": 0.0, "p_key": 0.0, "p_cid": 0.0, "sizes": [1, 1000, 1200, 3000],
            "p_fin": 0.05, "p_sepfin": 0.6, "p_front": r.choice([0.3, 0.6])}


def fair_phase(s, done, max_steps=20000):
    """loss-free in-order network with virtual time: deliver what is in flight,
    otherwise fire the earliest timer.  An endpoint whose timer is already due but
    whose handle_timer()/datagrams_to_send() neither sends anything nor moves the
    timer (e.g. an ACK is due but the anti-amplification limit of an unvalidated
    path blocks every send) must not starve the other endpoint: time goes on and
    the other endpoint's timer fires."""
    stuck = {}
    for _ in range(max_steps):
        if done():
            return True
        if s.pending:
            d = s.pending.pop(0)
            s.now += 0.001
            s.deliver(d)
            stuck.clear()
            continue
        cands = []
        for ep in s.endpoints:
            if ep.terminated:
                continue
            t = s.check_timer(ep)
            if t is not None and stuck.get(ep.name) != t:
                cands.append((t, ep.name, ep))
        if not cands:
            return done()
        t, _, ep = min(cands)
        before = s.dgram_id
        s.fire_timer(ep)
        if s.dgram_id == before and s.check_timer(ep) == t:
            stuck[ep.name] = t
        else:
            stuck.pop(ep.name, None)
    return done()


def run_conn(conn_seed, sc=None, directed=None, trace=True):
    """one simulated connection.  Returns dict with oracle violations, tracer,
    the script that was executed (for replay) and the network log."""
    from harness import sim as simmod
    from harness.impl_streamsys import Tracer
    from harness.impl_keyupdate import KeyTracer

    r = random.Random(f"c01-script/{conn_seed}")
    if sc is None:
        sc = scenario(r)
    orc = Oracle()
    tracer = Tracer()
    keys = KeyTracer()
    other = V1 if sc["version"] == V2 else V2
    copts = {"congestion_control_algorithm": sc["cc"], "original_version": sc["version"],
             "supported_versions": [sc["version"], other]}
    sopts = {"congestion_control_algorithm": sc["cc"]}
    executed = []
    res = {"seed": conn_seed, "scenario": sc, "oracle": orc, "tracer": tracer, "keys": keys, "script": executed,
           "handshake": False, "fair_done": False}
    keys.__enter__()
    tracer.__enter__()
    s = None
    try:
        s = simmod.Sim(conn_seed, client_options=copts, server_options=sopts, monitors=[tracer, keys, orc] if trace else [orc])
        tracer.sim = s
        res["sim"] = s
        ok = s.handshake()
        res["handshake"] = ok
        if not ok:
            orc.bad("handshake", "handshake did not complete over a loss-free network")
            return res
        res["version_on_wire"] = s.client.conn._version
        keys.start(s)
        uid = [0]

        def app_action():
            x = r.random()
            ep = r.choice(s.endpoints)
            if x < sc["p_key"]:
                executed.append((s.steps, ep.name, "request_key_update"))
                s.api(ep, "request_key_update")
                return
            x -= sc["p_key"]
            if x < sc["p_cid"]:
                executed.append((s.steps, ep.name, "change_connection_id"))
                s.api(ep, "change_connection_id")
                return
            x -= sc["p_cid"]
            if x < sc["p_ping"]:
                uid[0] += 1
                executed.append((s.steps, ep.name, "send_ping", uid[0]))
                s.api(ep, "send_ping", uid[0])
                return
            own = CLIENT_OWN if ep.is_client else SERVER_OWN
            peer_bidi = [sid for sid in (SERVER_OWN if ep.is_client else CLIENT_OWN)
                         if sid % 4 < 2 and sid in ep.conn._streams]
            sid = r.choice(own + peer_bidi)
            k = (ep.name, sid)
            if k in orc.fin or k in orc.reset:
                if r.random() < 0.15:
                    # application misuse: write after FIN / reset (also on a discarded stream id);
                    # must raise (AssertionError, ValueError once the id is discarded) and change nothing
                    executed.append((s.steps, ep.name, "send_stream_data", sid, 3, False, "misuse"))
                    n0 = sum(orc.misuse.values())
                    orc.expect_raise = True
                    s.api(ep, "send_stream_data", sid, b"xyz")
                    orc.expect_raise = False
                    if sum(orc.misuse.values()) == n0:
                        orc.bad("write-after-end", f"{k}: send_stream_data after FIN/reset was accepted")
                return
            if k in orc.written and len(orc.written[k]) and r.random() < sc.get("p_sepfin", 0.0):
                s.transmit(ep)                       # the data leaves first …
                executed.append((s.steps, ep.name, "send_stream_data", sid, 0, True, "separate-fin"))
                orc.fin.add(k)
                s.api(ep, "send_stream_data", sid, b"", end_stream=True)   # … the FIN in a later call
                s.transmit(ep)
                return
            if k in orc.written and r.random() < sc["p_reset"] * 3:
                code = r.randrange(1, 100)
                executed.append((s.steps, ep.name, "reset_stream", sid, code))
                orc.reset.add(k)
                s.api(ep, "reset_stream", sid, code)
            else:
                n = r.choice(sc["sizes"])
                data = bytes(r.randrange(256) for _ in range(n)) if n < 2000 else r.randbytes(n)
                fin = r.random() < sc["p_fin"]
                executed.append((s.steps, ep.name, "send_stream_data", sid, n, fin))
                orc.written[k] += data
                if fin:
                    orc.fin.add(k)
                s.api(ep, "send_stream_data", sid, data, end_stream=fin)
            if r.random() < 0.7:
                s.transmit(ep)

        for _ in range(sc["steps"] if directed is None else 0):
            if any(ep.terminated for ep in s.endpoints):
                break
            if r.random() < sc["p_app"]:
                app_action()
            elif len(s.pending) > 1 and r.random() < sc.get("p_front", 0.0):
                d = s.pending.pop()                  # the newest datagram overtakes all the others
                s.now += 0.0005
                s.log.append(f"front #{d['id']} -> {d['dst'].name}")
                s.deliver(d)
            else:
                if not s.adversarial_step(p_drop=sc["p_drop"], p_dup=sc["p_dup"], p_reorder=sc["p_reorder"],
                                          p_timer=sc["p_timer"], p_rebind=sc["p_rebind"]):
                    app_action()
        if directed is not None:
            directed(s, orc, executed)
        for ep in s.endpoints:
            s.transmit(ep)
        res["fair_done"] = fair_phase(s, lambda: orc.complete() and not s.pending)
        orc.final()
        tracer.finish()
    finally:
        if s is not None:
            s.close_taps()          # first: the Sim's taps wrap the KeyTracer's wrappers
        tracer.__exit__()
        keys.__exit__()
    return res


def directed_reset_reorder(s, orc, executed):
    """25600 bytes written (only part of them sent: congestion window), then
    reset_stream; the network delivers the LAST data datagram first, then the
    RESET_STREAM datagram, then the other data datagrams in order."""
    c = s.client
    data = bytes(range(256)) * 100
    executed.append((s.steps, "client", "send_stream_data", 0, len(data), False))
    orc.written[("client", 0)] += data
    s.api(c, "send_stream_data", 0, data)
    s.transmit(c)
    for _ in range(20):
        if len(s.pending) >= 8:
            break
        s.fire_timer(c)
    n1 = len(s.pending)
    executed.append((s.steps, "client", "reset_stream", 0, 7))
    orc.reset.add(("client", 0))
    s.api(c, "reset_stream", 0, 7)
    s.transmit(c)
    for _ in range(20):
        if len(s.pending) > n1:
            break
        s.fire_timer(c)
    ds = list(s.pending)
    s.pending.clear()
    order = [ds[n1 - 1]] + ds[n1:] + ds[:n1 - 1] if n1 else ds
    for d in order:
        s.now += 0.001
        s.log.append(f"deliver #{d['id']} -> {d['dst'].name}")
        s.deliver(d)


def directed_dup_fin(s, orc, executed):
    """a FIN-carrying STREAM frame retransmitted spuriously: the datagram with
    the FIN is delayed beyond the probe timeout, the retransmission arrives
    first, then the original"""
    c = s.client
    executed.append((s.steps, "client", "send_stream_data", 4, 10, True))
    orc.written[("client", 4)] += b"0123456789"
    orc.fin.add(("client", 4))
    s.api(c, "send_stream_data", 4, b"0123456789", end_stream=True)
    s.transmit(c)
    held = list(s.pending)
    s.pending.clear()
    for _ in range(12):
        if orc.ends[("client", 4)] >= 1:
            break
        s.fire_timer(c)            # PTO: probe; its ACK makes loss detection declare the held packet lost
        for _ in range(20):
            if not s.pending:
                break
            d = s.pending.pop(0)
            s.now += 0.001
            s.log.append(f"deliver #{d['id']} -> {d['dst'].name}")
            s.deliver(d)
    for d in held:                 # the delayed original arrives after its retransmission
        s.now += 0.001
        s.log.append(f"deliver #{d['id']} -> {d['dst'].name} (delayed)")
        s.deliver(d)


def directed_fin_only(s, orc, executed):
    """two streams exist; 5000 bytes on stream 0 fill the packets, stream 4 has
    only a FIN to send: it is served when the packet has no room for a header"""
    c = s.client
    for sid in (0, 4):
        executed.append((s.steps, "client", "send_stream_data", sid, 0, False))
        orc.written[("client", sid)] += b""
        s.api(c, "send_stream_data", sid, b"")
    s.transmit(c)
    s.fair_phase(max_steps=60, done=lambda: not s.pending)
    data = b"x" * 5000
    executed.append((s.steps, "client", "send_stream_data", 0, len(data), False))
    orc.written[("client", 0)] += data
    s.api(c, "send_stream_data", 0, data)
    executed.append((s.steps, "client", "send_stream_data", 4, 0, True))
    orc.fin.add(("client", 4))
    s.api(c, "send_stream_data", 4, b"", end_stream=True)


def directed_key_update_twice(s, orc, executed):
    """two key updates by the client; the only datagram protected with the first
    new key generation is lost; then data + FIN over a fair network"""
    c = s.client
    executed.append((s.steps, "client", "request_key_update"))
    s.api(c, "request_key_update")
    executed.append((s.steps, "client", "send_ping", 1))
    s.api(c, "send_ping", 1)
    s.transmit(c)
    for d in s.pending:
        s.log.append(f"drop #{d['id']}")
    s.pending.clear()
    executed.append((s.steps, "client", "request_key_update"))
    s.api(c, "request_key_update")
    executed.append((s.steps, "client", "send_stream_data", 0, 5, True))
    orc.written[("client", 0)] += b"hello"
    orc.fin.add(("client", 0))
    s.api(c, "send_stream_data", 0, b"hello", end_stream=True)


def directed_key_update_lost(s, orc, executed):
    """the client requests a key update while it has only ACKs to send; its
    first packet protected with the new keys is lost; the server keeps sending"""
    c, sv = s.client, s.server
    executed.append((s.steps, "client", "request_key_update"))
    s.api(c, "request_key_update")
    data = bytes(range(250)) * 12
    executed.append((s.steps, "server", "send_stream_data", 3, len(data), False))
    orc.written[("server", 3)] += data
    s.api(sv, "send_stream_data", 3, data)
    s.transmit(sv)
    for _ in range(10):
        while s.pending and s.pending[0]["dst"] is c:
            d = s.pending.pop(0)
            s.now += 0.001
            s.deliver(d)
        if any(d["dst"] is sv for d in s.pending):
            break
        s.fire_timer(c)
    for d in s.pending:
        s.log.append(f"drop #{d['id']}")
    s.pending.clear()                      # the ACK(s) with the new key phase are lost
    executed.append((s.steps, "server", "send_stream_data", 3, len(data), True))
    orc.written[("server", 3)] += data
    orc.fin.add(("server", 3))
    s.api(sv, "send_stream_data", 3, data, end_stream=True)


def directed_rebind_challenge_lost(s, orc, executed):
    """the client's address changes (NAT rebinding) for one ACK-only datagram;
    the server's PATH_CHALLENGE on the new path is lost; the client has nothing
    to send any more while the server has stream data"""
    from harness import sim as simmod
    c, sv = s.client, s.server
    executed.append((s.steps, "server", "send_ping", 1))
    s.api(sv, "send_ping", 1)
    s.transmit(sv)
    s.client.addr = simmod.CLIENT_ADDR2
    s.log.append("rebind client")
    for _ in range(6):
        for d in [d for d in s.pending if d["dst"] is c]:
            s.pending.remove(d)
            s.now += 0.001
            s.deliver(d)
        if any(d["dst"] is sv for d in s.pending):
            break
        s.fire_timer(c)                    # delayed ACK
    held = [d for d in s.pending if d["dst"] is sv]      # the client's ACK, still in the network
    s.pending.clear()
    data = bytes(range(200)) * 30
    executed.append((s.steps, "server", "send_stream_data", 3, len(data), True))
    orc.written[("server", 3)] += data
    orc.fin.add(("server", 3))
    s.api(sv, "send_stream_data", 3, data, end_stream=True)
    s.transmit(sv)
    for d in s.pending:
        s.log.append(f"drop #{d['id']}")    # the first flight of the data is lost
    s.pending.clear()
    for d in held:
        s.now += 0.001
        s.deliver(d, simmod.CLIENT_ADDR2)   # the ACK arrives from the new address: the server switches path
    for d in s.pending:
        s.log.append(f"drop #{d['id']}")    # and what it could send there (PATH_CHALLENGE, a little data) is lost
    s.pending.clear()


DIRECTED = {"rebind-challenge-lost": directed_rebind_challenge_lost, "key-update-lost": directed_key_update_lost, "reset-reorder": directed_reset_reorder, "dup-fin": directed_dup_fin, "fin-only": directed_fin_only,
            "key-update-twice": directed_key_update_twice}



def _drain_sender(s, ep, sid):
    """let pacing / the congestion window send everything the stream has pending"""
    s.transmit(ep)
    for _ in range(40):
        st = ep.conn._streams.get(sid)
        if st is None or (not list(st.sender._pending) and not st.sender._pending_eof):
            return
        if not s.fire_timer(ep):
            return


def make_fin_overtakes(sender, sid, k):
    """the application writes k datagrams' worth of data, then — in a LATER call — an empty write with
    end_stream=True, so the FIN rides alone in its own datagram; the network delivers that one datagram
    FIRST and then the k data datagrams in order, nothing is lost"""
    def directed(s, orc, executed):
        ep = s.client if sender == "client" else s.server
        key = (ep.name, sid)
        data = bytes((i * 7 + k) % 256 for i in range(1100 * k))
        executed.append((s.steps, ep.name, "send_stream_data", sid, len(data), False))
        orc.written[key] += data
        s.api(ep, "send_stream_data", sid, data)
        _drain_sender(s, ep, sid)
        data_dgrams = [d for d in s.pending if d["dst"] is ep.peer]
        executed.append((s.steps, ep.name, "send_stream_data", sid, 0, True))
        orc.fin.add(key)
        s.api(ep, "send_stream_data", sid, b"", end_stream=True)
        _drain_sender(s, ep, sid)
        fin_dgrams = [d for d in s.pending if d["dst"] is ep.peer and d not in data_dgrams]
        for d in fin_dgrams + data_dgrams:
            s.pending.remove(d)
        for d in fin_dgrams + data_dgrams:          # the FIN datagram overtakes the data
            s.now += 0.0005
            s.log.append(f"deliver #{d['id']} -> {d['dst'].name}" + (" (FIN first)" if d in fin_dgrams else ""))
            s.deliver(d)
    return directed


DIRECTED_SC = {}
for _ver, _vn in ((V1, "v1"), (V2, "v2")):
    for _sender, _sid in (("client", 0), ("client", 2), ("server", 1), ("server", 3)):
        for _k in (1, 2, 3, 4):
            _name = f"fin-overtakes/{_sender}/{_sid}/k{_k}/{_vn}"
            DIRECTED[_name] = make_fin_overtakes(_sender, _sid, _k)
            DIRECTED_SC[_name] = {"version": _ver}


def directed_scenario(name):
    return {**scenario(random.Random(0)), "cc": "reno", "version": V1, **DIRECTED_SC.get(name, {})}


STARVED_KINDS = ("terminated", "undelivered-bytes", "undelivered-fin")


def rebind_starved(res):
    """TRIGGER PREDICATE of the recorded finding C01-rebind-challenge-lost, evaluated on a failing run:
    the run ended in idle timeouts only, and some endpoint E
      * has as current network path (`_network_paths[0]`) a path that is NOT validated,
      * whose anti-amplification budget cannot hold even the smallest 1-RTT packet
        (`can_send(3 + len(dcid) + 1 + 16)` is false),
      * while E still had something to send (bytes in flight, pending stream data / RESET, or a probe),
      * and its peer sent nothing during the whole idle-timeout period before E gave up
        (so nothing could raise E's budget)."""
    s, orc = res.get("sim"), res["oracle"]
    if s is None or not orc.terminations:
        return False
    if any(reason != "Idle timeout" for _, _, _, reason in orc.terminations):
        return False
    for ep in s.endpoints:
        conn = ep.conn
        if not conn._network_paths:
            continue
        path = conn._network_paths[0]
        smallest = 3 + len(conn._peer_cid.cid) + 1 + 16
        if path.is_validated or path.can_send(smallest):
            continue
        has_work = (conn._loss.bytes_in_flight > 0 or conn._probe_pending
                    or any((not st.sender.buffer_is_empty) or st.sender.reset_pending for st in conn._streams.values()))
        gave_up = [t for name, t, _, _ in orc.terminations if name == ep.name]
        if not has_work or not gave_up:
            continue
        idle = conn._configuration.idle_timeout
        if orc.last_sent.get(ep.peer.name, 0.0) <= gave_up[0] - idle + 1e-6:
            return True
    return False


INIT_LINE = ("ok | S[empty=1 hi=0 fin=0 rp=0 next=0 start=0 stop=0 bfin=none pend=[] peof=0 acked=[] afin=0] "
             "R[hi=0 fin=0 start=0 fs=none rg=[] buflen=0 gone=0] sgone=0 wire=0 rwire=0 bytes=0 ends=0 resets=0")


def describe(res, limit=60):
    sc = dict(res["scenario"])
    log = res["sim"].log if "sim" in res else []
    return {"conn_seed": res["seed"], "scenario": sc, "script": [list(x) for x in res["script"]][:400],
            "network_log_tail": log[-limit:], "network_steps": len(log)}


def check_batch(ctx, results):
    """replay the derived op sequences of a batch of connections on the model"""
    cases, impl = [], []
    owners = []
    for res in results:
        for key, t in sorted(res["tracer"].traces.items()):
            exp = list(t.expect)
            exp[0] = INIT_LINE if exp else exp
            cases.append(t.lines)
            impl += exp
            owners.append((res, key))
    for res in results:
        tr = res["tracer"]
        cases.append(tr.tab_lines)
        impl += tr.tab_expect
        owners.append((res, ("stream-table",)))
        kt = res["keys"]
        if kt.lines:
            cases.append(kt.lines)
            impl += [e if e is not None else "<incomplete>" for e in kt.expect]
            owners.append((res, ("key-update",)))
    if not cases:
        return
    model = lean.run_driver([l for c in cases for l in c])
    mism = core.diff_streams(ctx, "streamsys", cases, impl, model)
    for m in mism[:3]:
        if m[0] >= 0:
            ci, oi, il, ml = m
            res, key = owners[ci]
            ctx.broken.append({
                "kind": "broken-correspondence", "correspondence": "streamsys", "conn": describe(res, 20),
                "stream": list(key), "first_diff_index": oi, "ops": cases[ci][max(0, oi - 6): oi + 1],
                "model": ml, "impl": il})
    ctx.cov["traces_validated_against_impl"] += len(cases)


def run_all(ctx, seeds, batch=25, directed=True):
    stats = collections.Counter()
    pend = []
    jobs = ([(name, None) for name in DIRECTED] if directed else []) + [(cs, None) for cs in seeds]
    for cs, _ in jobs:
        if cs in DIRECTED:
            res = run_conn(cs, sc=directed_scenario(cs), directed=DIRECTED[cs])
        elif isinstance(cs, str) and cs.startswith("search/"):
            res = run_conn(cs, sc=search_scenario(cs))
        else:
            res = run_conn(cs)
        orc, tr = res["oracle"], res["tracer"]
        flags = set()
        nops = 0
        for t in tr.traces.values():
            flags |= t.flags
            nops += len(t.lines)
        stats["connections"] += 1
        stats["model_ops"] += nops
        stats["streams"] += len(tr.traces)
        for f in flags:
            stats["flag:" + f] += 1
        for k, v in res["keys"].stats.items():
            stats["keys:" + k] += v
        for k, v in orc.misuse.items():
            stats["misuse:" + k] += v
        for p in res["keys"].problems[:3]:
            ctx.broken.append({"kind": "broken-correspondence", "correspondence": "keyupdate-derivation",
                               "problem": p, "conn": describe(res, 20)})
        sc = res["scenario"]
        stats[f"cc:{sc['cc']}"] += 1
        stats[f"version:{res.get('version_on_wire', 0):#x}"] += 1
        log = res["sim"].log if "sim" in res else []
        for w in ("drop", "dup", "rebind"):
            if any(l.startswith(w) for l in log):
                stats["net:" + w] += 1
        for a in ("request_key_update", "change_connection_id", "reset_stream"):
            if any(x[2] == a for x in res["script"]):
                stats["api:" + a] += 1
        nontrivial = "loss" in flags and any(l.startswith("dup") for l in log)
        ctx.count((cs, tuple(map(tuple, res["script"]))), nontrivial)
        seen = set()
        starved = bool(orc.violations) and rebind_starved(res)
        for kind, text in orc.violations:
            if kind in seen:
                continue
            seen.add(kind)
            sig = {"oracle": kind}
            if starved and kind in STARVED_KINDS:
                sig = {"oracle": "terminated/undelivered", "cause": "rebind-starved"}
                stats["cause:rebind-starved"] += 1
            ctx.witness(f"{kind}: {text}", {**describe(res), "all_violations": [f"{k}: {t}" for k, t in orc.violations][:10]},
                        sig)
            stats["violation:" + kind] += 1
        for p in tr.problems[:3]:
            ctx.broken.append({"kind": "broken-correspondence", "correspondence": "streamsys-derivation",
                               "problem": p, "conn": describe(res, 20)})
            stats["derivation-problem"] += 1
        if len(ctx.cov["samples"]) < 3 and tr.traces:
            k, t = sorted(tr.traces.items())[0]
            ctx.sample({"conn_seed": cs, "stream": list(k), "ops": [l[:60] for l in t.lines[:8]]})
        res.pop("sim", None)
        pend.append(res)
        if len(pend) >= batch:
            check_batch(ctx, pend)
            pend = []
    check_batch(ctx, pend)
    return stats


def pair_cases(r, thorough):
    """key-update model vs two real CryptoPairs: every op sequence of length k
    over {request A/B, send A/B, deliver 0..2}, then random longer ones"""
    import itertools
    alpha = ["ku.request 1", "ku.request 0", "ku.send 1 0", "ku.send 0 0", "ku.deliver 0", "ku.deliver 1", "ku.deliver 2"]
    for seq in itertools.product(alpha, repeat=5 if thorough else 4):
        yield ["ku.pnew 0"] + list(seq)
    for _ in range(4000 if thorough else 300):
        case, n = ["ku.pnew 0"], 0
        for _ in range(r.randrange(5, 40)):
            x = r.random()
            if x < 0.2:
                case.append(f"ku.request {r.randrange(2)}")
            elif x < 0.55:
                case.append(f"ku.send {r.randrange(2)} 0")
                n += 1
            else:
                case.append(f"ku.deliver {r.randrange(n + 1)}")
        yield case


def check_pairs(ctx, thorough):
    from harness.impl_keyupdate import PairImpl
    r = rng.make("c01-keys")
    cases = list(pair_cases(r, thorough))
    impl = []
    im = PairImpl()
    rejected = updates = 0
    for case in cases:
        out = [im.step(l) for l in case]
        impl += out
        rejected += sum(o.startswith("rejected") for o in out)
        updates += sum(o.startswith("accepted upd=1") for o in out)
    model = lean.run_driver([l for c in cases for l in c])
    for m in core.diff_streams(ctx, "keyupdate-pair", cases, impl, model)[:3]:
        if m[0] >= 0:
            ci, oi, il, ml = m
            ctx.broken.append({"kind": "broken-correspondence", "correspondence": "keyupdate-pair",
                               "ops": cases[ci][: oi + 1], "model": ml, "impl": il})
    ctx.cov["traces_validated_against_impl"] += len(cases)
    ctx.notes["keyupdate_pair"] = {"cases": len(cases), "ops": len(impl), "rejected": rejected, "remote_updates": updates}


def main(tier):
    ctx = core.Ctx("C01", tier)
    tree.activate()
    ctx.prove(["AQ.Props.C01", "AQ.Props.C01Multi", "AQ.Props.C01Keys", "AQ.Props.C01Loss"], [])
    ctx.cov["trusted_base"] = [
        "Lean 4.33.0 kernel (+ leanchecker in thorough tier)",
        "axioms: subset of {propext, Classical.choice, Quot.sound} (audited by #print axioms)",
        "hand-written models AQ.Model.StreamSys (+ AQ.Model.Stream), AQ.Model.StreamTable, AQ.Model.KeyUpdate tied to "
        "connection.py / stream.py / crypto.py by per-step differential correspondence on op sequences derived from "
        "real connections and real CryptoPairs (this run)",
        "harness/sim.py, harness/impl_streamsys.py, harness/impl_keyupdate.py (derivation of ops + canonical lines), "
        "harness/frames.py",
    ]
    ctx.assumptions = [
        "stream theorems are per directed stream, lifted to every stream of the connection table (C01Multi); "
        "flow-control / stream-limit / direction checks are modelled as passing (C06/C07)",
        "key-update theorems (C01Keys): AEAD abstraction (a packet authenticates only under the key generation that "
        "protected it), ACK frames honest (C12), 1-RTT phase starts at packet number >= 1",
        "each emitted frame's delivery is reported at most once and only after emission (C08 callbacks-once); "
        "checked on every run by the derivation (a report naming no outstanding frame is a failure)",
        "liveness: fuel-bounded fair schedule proved for the one-stream model under hypotheses (every in-flight "
        "frame reported, ACK honesty, adequate builder space / credit); that loss detection, timers and path "
        "validation establish them is covered by the oracle runs only",
        "writes after FIN/reset on the same stream are exercised as misuse: they must raise and change nothing",
    ]
    thorough = tier == "thorough"
    n = 1500 if thorough else 100
    base = ctx.seed * 1000003
    check_pairs(ctx, thorough)

    def search():
        """a correspondence / proof obligation broke without an oracle witness: hunt for a failing input
        with lone-FIN writes and newest-first single-datagram reordering on an otherwise perfect network"""
        st = run_all(ctx, [f"search/{ctx.seed}/{i}" for i in range(400 if thorough else 150)], directed=False)
        ctx.notes["search_stats"] = {k: v for k, v in st.items() if k.startswith("violation") or k == "connections"}
    ctx.search = search
    stats = run_all(ctx, [base + i for i in range(n)])
    ctx.notes["stats"] = dict(stats)
    ctx.cov["rule"] = (
        "PRNG scripts of send_stream_data (sizes 0..20000, FIN) / reset_stream / send_ping / request_key_update / "
        "change_connection_id on client streams 0,4,8,2,6 and server streams 1,5,3,7 (and the peer's bidi streams "
        "once they exist) x reno/cubic x QUIC v1/v2 x per-datagram drop/dup/reorder/rebind probabilities, "
        "adversarial phase then fair phase. Non-trivial = a connection in which some STREAM frame was declared "
        "lost and some datagram was duplicated by the network; distinct by (seed, script) hash.")
    return ctx.finish()


class _ReplayCtx:
    """minimal ctx for re-diffing one connection"""

    def __init__(self):
        self.broken = []
        self.cov = collections.defaultdict(int)


def _rerun(cs):
    if cs in DIRECTED:
        return run_conn(cs, sc=directed_scenario(cs), directed=DIRECTED[cs])
    if isinstance(cs, str) and cs.startswith("search/"):
        return run_conn(cs, sc=search_scenario(cs))
    return run_conn(int(cs) if not isinstance(cs, int) else cs)


def replay(path):
    """every witness kind this check can write:
    impl-witness (oracle kinds: not-a-prefix, end-twice, end-unwritten, end-early, reset-unrequested, terminated,
      api-exception, write-after-end, handshake, undelivered-bytes, undelivered-fin)  -> re-run the connection;
    no-longer-checks entries: streamsys / stream-table / key-update / *-derivation (re-run the connection and
      re-diff it against the model), keyupdate-pair (re-run the op lines on real CryptoPairs and the model),
      broken-theorem / audit (rebuild the Lean module and show the log)."""
    tree.activate()
    d = json.load(open(path))
    rc = 0
    if d.get("kind") == "impl-witness":
        rp = d.get("replay") or {}
        res = _rerun(rp["conn_seed"])
        kinds = {k for k, _ in res["oracle"].violations}
        for k, t in res["oracle"].violations:
            print(f"VIOLATION-REPRODUCED {k}: {t}")
        sig = d.get("signature") or {}
        want = sig.get("oracle")
        cause = "rebind-starved" if res["oracle"].violations and rebind_starved(res) else None
        print(f"trigger predicate: cause={cause!r} (recorded {sig.get('cause')!r})")
        ok = (want in kinds) or (want == "terminated/undelivered" and kinds & set(STARVED_KINDS) and cause == sig.get("cause"))
        print(f"recorded kind {want!r}: {'reproduced' if ok else 'NOT reproduced on this tree'}")
        print("script:", res["script"][:50])
        print("network log tail:", res["sim"].log[-40:] if "sim" in res else [])
        return 1 if res["oracle"].violations else 0
    seen = set()
    for b in d.get("broken", []):
        corr = b.get("correspondence")
        if corr == "keyupdate-pair":
            from harness.impl_keyupdate import PairImpl
            im = PairImpl()
            ops = b["ops"]
            impl = [im.step(l) for l in ops]
            model = lean.run_driver(ops)
            for l, i, m in zip(ops, impl, model):
                print(("DIFF " if i != m else "     ") + l + "\n       impl  " + i + "\n       model " + m)
            rc |= int(impl != model)
        elif "conn" in b:
            cs = b["conn"]["conn_seed"]
            if cs in seen:
                continue
            seen.add(cs)
            res = _rerun(cs)
            for p in res["tracer"].problems + res["keys"].problems:
                print("DERIVATION-PROBLEM", p)
                rc = 1
            rctx = _ReplayCtx()
            res.pop("sim", None)
            check_batch(rctx, [res])
            for x in rctx.broken:
                print("CORRESPONDENCE-DIFF", json.dumps({k: v for k, v in x.items() if k != "conn"}, default=str)[:1500])
                rc = 1
            if not rctx.broken:
                print(f"connection {cs!r}: model and implementation agree on this tree")
        elif b.get("kind") in ("broken-theorem", "audit"):
            mod = b.get("module")
            print(json.dumps(b, indent=1, default=str)[:3000])
            if mod and mod != "leanchecker":
                ok, log, _ = lean.lake_build([mod])
                print(f"rebuild {mod}: {'ok' if ok else 'FAILED'}")
                rc |= int(not ok)
            else:
                rc = 1
        else:
            print(json.dumps(b, indent=1, default=str)[:3000])
            rc = 1
    return rc
