"""C01 — reliable, ordered, exactly-once stream delivery over any lossy network.

proof:   AQ.Props.C01 about the end-to-end one-stream model AQ.Model.StreamSys
         (send half + wire + receive half wired as connection.py wires them),
         composing the C10 theorems about the two halves
tie:     per directed stream of every simulated connection the op sequence
         (write / emit / deliver / ack / lose / reset / discard) is derived from
         harness-side observation of the two real QuicConnection objects and
         replayed on the compiled model; every step's projected state is diffed
oracle:  written from the property text, evaluated on the events the two real
         connections hand to the application (prefix, exactly-once end marker,
         completeness after a fair phase, no termination, no exception)
runs:    five directed scenarios (DIRECTED: one per defect found so far, each
         fails when its fix commit is reverted) + PRNG connections
         (quick 60, thorough 1500); replay: ./check C01 --replay <file>
"""
import collections
import json
import random

from harness import core, lean, rng, tree

CLIENT_OWN = [0, 4, 8, 2, 6]      # client-initiated bidi 0,4,8 / uni 2,6
SERVER_OWN = [1, 5, 3, 7]         # server-initiated bidi 1,5 / uni 3,7
V1 = 0x00000001
V2 = 0x6B3343CF


# ------------------------------------------------------------------ oracle
class Oracle:
    """the property, from its text; sees only API calls made and events handed out"""

    def __init__(self):
        self.written = collections.defaultdict(bytearray)   # (sender name, sid) -> bytes written
        self.fin = set()
        self.reset = set()
        self.delivered = collections.defaultdict(bytearray)
        self.ends = collections.Counter()
        self.violations = []          # (kind, text)

    def bad(self, kind, text):
        self.violations.append((kind, text))

    def on_event(self, sim, ep, ev):
        n = type(ev).__name__
        if n == "StreamDataReceived":
            k = (ep.peer.name, ev.stream_id)
            self.delivered[k] += ev.data
            if not bytes(self.written[k]).startswith(bytes(self.delivered[k])):
                self.bad("not-a-prefix", f"{k}: delivered bytes are not a prefix of the written bytes "
                                         f"(delivered {len(self.delivered[k])}, written {len(self.written[k])})")
            if ev.end_stream:
                self.ends[k] += 1
                if self.ends[k] > 1:
                    self.bad("end-twice", f"{k}: end of stream signalled {self.ends[k]} times")
                if k not in self.fin:
                    self.bad("end-unwritten", f"{k}: end of stream signalled but the sender never wrote FIN")
                elif bytes(self.delivered[k]) != bytes(self.written[k]):
                    self.bad("end-early", f"{k}: end of stream signalled after {len(self.delivered[k])} of "
                                          f"{len(self.written[k])} bytes")
        elif n == "StreamReset":
            k = (ep.peer.name, ev.stream_id)
            if k not in self.reset:
                self.bad("reset-unrequested", f"{k}: StreamReset delivered but the sender never reset the stream")
        elif n == "ConnectionTerminated":
            self.bad("terminated", f"{ep.name}: ConnectionTerminated error_code={ev.error_code} "
                                   f"frame_type={ev.frame_type} reason={ev.reason_phrase!r}")

    def on_raise(self, sim, ep, name, args, exc):
        self.bad("api-exception", f"{ep.name}.{name} raised {type(exc).__name__}: {exc}")

    def complete(self):
        for k in self.written:
            if k in self.reset:
                continue
            if bytes(self.delivered[k]) != bytes(self.written[k]):
                return False
            if k in self.fin and self.ends[k] < 1:
                return False
        return True

    def final(self):
        for k in sorted(self.written):
            if k in self.reset:
                continue
            if bytes(self.delivered[k]) != bytes(self.written[k]):
                self.bad("undelivered-bytes", f"{k}: {len(self.delivered[k])} of {len(self.written[k])} written bytes "
                                              f"delivered after the fair phase")
            elif k in self.fin and self.ends[k] < 1:
                self.bad("undelivered-fin", f"{k}: all {len(self.written[k])} bytes delivered but end of stream never "
                                            f"signalled after the fair phase")


# --------------------------------------------------------------- scenario
def scenario(r):
    """connection parameters + network fault probabilities, all from the PRNG"""
    ver = r.choice([V1, V2])
    return {
        "cc": r.choice(["reno", "cubic"]),
        "version": ver,
        "steps": r.choice([80, 200, 400]),
        "p_app": r.choice([0.15, 0.3]),
        "p_drop": r.choice([0.0, 0.05, 0.15, 0.3]),
        "p_dup": r.choice([0.0, 0.1, 0.3]),
        "p_reorder": r.choice([0.0, 0.3, 0.7]),
        "p_rebind": r.choice([0.0, 0.0, 0.03]),
        "p_timer": r.choice([0.1, 0.2]),
        "sizes": r.choice([[0, 1, 10, 300], [0, 1, 10, 1000, 5000], [1, 1200, 20000]]),
        "p_fin": r.choice([0.1, 0.3]),
        "p_reset": r.choice([0.0, 0.03, 0.08]),
        "p_key": r.choice([0.0, 0.03, 0.06]),
        "p_cid": r.choice([0.0, 0.03]),
        "p_ping": 0.05,
    }


def fair_phase(s, done, max_steps=20000):
    """loss-free in-order network with virtual time: deliver what is in flight,
    otherwise fire the earliest timer.  An endpoint whose timer is already due but
    whose handle_timer()/datagrams_to_send() neither sends anything nor moves the
    timer (e.g. an ACK is due but the anti-amplification limit of an unvalidated
    path blocks every send) must not starve the other endpoint: time goes on and
    the other endpoint's timer fires."""
    stuck = {}
    for _ in range(max_steps):
        if done():
            return True
        if s.pending:
            d = s.pending.pop(0)
            s.now += 0.001
            s.deliver(d)
            stuck.clear()
            continue
        cands = []
        for ep in s.endpoints:
            if ep.terminated:
                continue
            t = s.check_timer(ep)
            if t is not None and stuck.get(ep.name) != t:
                cands.append((t, ep.name, ep))
        if not cands:
            return done()
        t, _, ep = min(cands)
        before = s.dgram_id
        s.fire_timer(ep)
        if s.dgram_id == before and s.check_timer(ep) == t:
            stuck[ep.name] = t
        else:
            stuck.pop(ep.name, None)
    return done()


def run_conn(conn_seed, sc=None, directed=None, trace=True):
    """one simulated connection.  Returns dict with oracle violations, tracer,
    the script that was executed (for replay) and the network log."""
    from harness import sim as simmod
    from harness.impl_streamsys import Tracer

    r = random.Random(f"c01-script/{conn_seed}")
    if sc is None:
        sc = scenario(r)
    orc = Oracle()
    tracer = Tracer()
    other = V1 if sc["version"] == V2 else V2
    copts = {"congestion_control_algorithm": sc["cc"], "original_version": sc["version"],
             "supported_versions": [sc["version"], other]}
    sopts = {"congestion_control_algorithm": sc["cc"]}
    executed = []
    res = {"seed": conn_seed, "scenario": sc, "oracle": orc, "tracer": tracer, "script": executed,
           "handshake": False, "fair_done": False}
    tracer.__enter__()
    s = None
    try:
        s = simmod.Sim(conn_seed, client_options=copts, server_options=sopts, monitors=[tracer, orc] if trace else [orc])
        tracer.sim = s
        res["sim"] = s
        ok = s.handshake()
        res["handshake"] = ok
        if not ok:
            orc.bad("handshake", "handshake did not complete over a loss-free network")
            return res
        res["version_on_wire"] = s.client.conn._version
        uid = [0]

        def app_action():
            x = r.random()
            ep = r.choice(s.endpoints)
            if x < sc["p_key"]:
                executed.append((s.steps, ep.name, "request_key_update"))
                s.api(ep, "request_key_update")
                return
            x -= sc["p_key"]
            if x < sc["p_cid"]:
                executed.append((s.steps, ep.name, "change_connection_id"))
                s.api(ep, "change_connection_id")
                return
            x -= sc["p_cid"]
            if x < sc["p_ping"]:
                uid[0] += 1
                executed.append((s.steps, ep.name, "send_ping", uid[0]))
                s.api(ep, "send_ping", uid[0])
                return
            own = CLIENT_OWN if ep.is_client else SERVER_OWN
            peer_bidi = [sid for sid in (SERVER_OWN if ep.is_client else CLIENT_OWN)
                         if sid % 4 < 2 and sid in ep.conn._streams]
            sid = r.choice(own + peer_bidi)
            k = (ep.name, sid)
            if k in orc.fin or k in orc.reset:
                return
            if k in orc.written and r.random() < sc["p_reset"] * 3:
                code = r.randrange(1, 100)
                executed.append((s.steps, ep.name, "reset_stream", sid, code))
                orc.reset.add(k)
                s.api(ep, "reset_stream", sid, code)
            else:
                n = r.choice(sc["sizes"])
                data = bytes(r.randrange(256) for _ in range(n)) if n < 2000 else r.randbytes(n)
                fin = r.random() < sc["p_fin"]
                executed.append((s.steps, ep.name, "send_stream_data", sid, n, fin))
                orc.written[k] += data
                if fin:
                    orc.fin.add(k)
                s.api(ep, "send_stream_data", sid, data, end_stream=fin)
            if r.random() < 0.7:
                s.transmit(ep)

        for _ in range(sc["steps"] if directed is None else 0):
            if any(ep.terminated for ep in s.endpoints):
                break
            if r.random() < sc["p_app"]:
                app_action()
            else:
                if not s.adversarial_step(p_drop=sc["p_drop"], p_dup=sc["p_dup"], p_reorder=sc["p_reorder"],
                                          p_timer=sc["p_timer"], p_rebind=sc["p_rebind"]):
                    app_action()
        if directed is not None:
            directed(s, orc, executed)
        for ep in s.endpoints:
            s.transmit(ep)
        res["fair_done"] = fair_phase(s, lambda: orc.complete() and not s.pending)
        orc.final()
        tracer.finish()
    finally:
        tracer.__exit__()
        if s is not None:
            s.close_taps()
    return res


def directed_reset_reorder(s, orc, executed):
    """25600 bytes written (only part of them sent: congestion window), then
    reset_stream; the network delivers the LAST data datagram first, then the
    RESET_STREAM datagram, then the other data datagrams in order."""
    c = s.client
    data = bytes(range(256)) * 100
    executed.append((s.steps, "client", "send_stream_data", 0, len(data), False))
    orc.written[("client", 0)] += data
    s.api(c, "send_stream_data", 0, data)
    s.transmit(c)
    for _ in range(20):
        if len(s.pending) >= 8:
            break
        s.fire_timer(c)
    n1 = len(s.pending)
    executed.append((s.steps, "client", "reset_stream", 0, 7))
    orc.reset.add(("client", 0))
    s.api(c, "reset_stream", 0, 7)
    s.transmit(c)
    for _ in range(20):
        if len(s.pending) > n1:
            break
        s.fire_timer(c)
    ds = list(s.pending)
    s.pending.clear()
    order = [ds[n1 - 1]] + ds[n1:] + ds[:n1 - 1] if n1 else ds
    for d in order:
        s.now += 0.001
        s.log.append(f"deliver #{d['id']} -> {d['dst'].name}")
        s.deliver(d)


def directed_dup_fin(s, orc, executed):
    """a FIN-carrying STREAM frame retransmitted spuriously: the datagram with
    the FIN is delayed beyond the probe timeout, the retransmission arrives
    first, then the original"""
    c = s.client
    executed.append((s.steps, "client", "send_stream_data", 4, 10, True))
    orc.written[("client", 4)] += b"0123456789"
    orc.fin.add(("client", 4))
    s.api(c, "send_stream_data", 4, b"0123456789", end_stream=True)
    s.transmit(c)
    held = list(s.pending)
    s.pending.clear()
    for _ in range(12):
        if orc.ends[("client", 4)] >= 1:
            break
        s.fire_timer(c)            # PTO: probe; its ACK makes loss detection declare the held packet lost
        for _ in range(20):
            if not s.pending:
                break
            d = s.pending.pop(0)
            s.now += 0.001
            s.log.append(f"deliver #{d['id']} -> {d['dst'].name}")
            s.deliver(d)
    for d in held:                 # the delayed original arrives after its retransmission
        s.now += 0.001
        s.log.append(f"deliver #{d['id']} -> {d['dst'].name} (delayed)")
        s.deliver(d)


def directed_fin_only(s, orc, executed):
    """two streams exist; 5000 bytes on stream 0 fill the packets, stream 4 has
    only a FIN to send: it is served when the packet has no room for a header"""
    c = s.client
    for sid in (0, 4):
        executed.append((s.steps, "client", "send_stream_data", sid, 0, False))
        orc.written[("client", sid)] += b""
        s.api(c, "send_stream_data", sid, b"")
    s.transmit(c)
    s.fair_phase(max_steps=60, done=lambda: not s.pending)
    data = b"x" * 5000
    executed.append((s.steps, "client", "send_stream_data", 0, len(data), False))
    orc.written[("client", 0)] += data
    s.api(c, "send_stream_data", 0, data)
    executed.append((s.steps, "client", "send_stream_data", 4, 0, True))
    orc.fin.add(("client", 4))
    s.api(c, "send_stream_data", 4, b"", end_stream=True)


def directed_key_update_twice(s, orc, executed):
    """two key updates by the client; the only datagram protected with the first
    new key generation is lost; then data + FIN over a fair network"""
    c = s.client
    executed.append((s.steps, "client", "request_key_update"))
    s.api(c, "request_key_update")
    executed.append((s.steps, "client", "send_ping", 1))
    s.api(c, "send_ping", 1)
    s.transmit(c)
    for d in s.pending:
        s.log.append(f"drop #{d['id']}")
    s.pending.clear()
    executed.append((s.steps, "client", "request_key_update"))
    s.api(c, "request_key_update")
    executed.append((s.steps, "client", "send_stream_data", 0, 5, True))
    orc.written[("client", 0)] += b"hello"
    orc.fin.add(("client", 0))
    s.api(c, "send_stream_data", 0, b"hello", end_stream=True)


def directed_key_update_lost(s, orc, executed):
    """the client requests a key update while it has only ACKs to send; its
    first packet protected with the new keys is lost; the server keeps sending"""
    c, sv = s.client, s.server
    executed.append((s.steps, "client", "request_key_update"))
    s.api(c, "request_key_update")
    data = bytes(range(250)) * 12
    executed.append((s.steps, "server", "send_stream_data", 3, len(data), False))
    orc.written[("server", 3)] += data
    s.api(sv, "send_stream_data", 3, data)
    s.transmit(sv)
    for _ in range(10):
        while s.pending and s.pending[0]["dst"] is c:
            d = s.pending.pop(0)
            s.now += 0.001
            s.deliver(d)
        if any(d["dst"] is sv for d in s.pending):
            break
        s.fire_timer(c)
    for d in s.pending:
        s.log.append(f"drop #{d['id']}")
    s.pending.clear()                      # the ACK(s) with the new key phase are lost
    executed.append((s.steps, "server", "send_stream_data", 3, len(data), True))
    orc.written[("server", 3)] += data
    orc.fin.add(("server", 3))
    s.api(sv, "send_stream_data", 3, data, end_stream=True)


DIRECTED = {"key-update-lost": directed_key_update_lost, "reset-reorder": directed_reset_reorder, "dup-fin": directed_dup_fin, "fin-only": directed_fin_only,
            "key-update-twice": directed_key_update_twice}


INIT_LINE = ("ok | S[empty=1 hi=0 fin=0 rp=0 next=0 start=0 stop=0 bfin=none pend=[] peof=0 acked=[] afin=0] "
             "R[hi=0 fin=0 start=0 fs=none rg=[] buflen=0 gone=0] wire=0 rwire=0 bytes=0 ends=0 resets=0")


def describe(res, limit=60):
    sc = dict(res["scenario"])
    log = res["sim"].log if "sim" in res else []
    return {"conn_seed": res["seed"], "scenario": sc, "script": [list(x) for x in res["script"]][:400],
            "network_log_tail": log[-limit:], "network_steps": len(log)}


def check_batch(ctx, results):
    """replay the derived op sequences of a batch of connections on the model"""
    cases, impl = [], []
    owners = []
    for res in results:
        for key, t in sorted(res["tracer"].traces.items()):
            exp = list(t.expect)
            exp[0] = INIT_LINE if exp else exp
            cases.append(t.lines)
            impl += exp
            owners.append((res, key))
    if not cases:
        return
    model = lean.run_driver([l for c in cases for l in c])
    mism = core.diff_streams(ctx, "streamsys", cases, impl, model)
    for m in mism[:3]:
        if m[0] >= 0:
            ci, oi, il, ml = m
            res, key = owners[ci]
            ctx.broken.append({
                "kind": "broken-correspondence", "correspondence": "streamsys", "conn": describe(res, 20),
                "stream": list(key), "first_diff_index": oi, "ops": cases[ci][max(0, oi - 6): oi + 1],
                "model": ml, "impl": il})
    ctx.cov["traces_validated_against_impl"] += len(cases)


def run_all(ctx, seeds, batch=25):
    stats = collections.Counter()
    pend = []
    jobs = [(name, None) for name in DIRECTED] + [(cs, None) for cs in seeds]
    for cs, _ in jobs:
        if cs in DIRECTED:
            res = run_conn(cs, sc={**scenario(random.Random(0)), "cc": "reno", "version": V1}, directed=DIRECTED[cs])
        else:
            res = run_conn(cs)
        orc, tr = res["oracle"], res["tracer"]
        flags = set()
        nops = 0
        for t in tr.traces.values():
            flags |= t.flags
            nops += len(t.lines)
        stats["connections"] += 1
        stats["model_ops"] += nops
        stats["streams"] += len(tr.traces)
        for f in flags:
            stats["flag:" + f] += 1
        sc = res["scenario"]
        stats[f"cc:{sc['cc']}"] += 1
        stats[f"version:{res.get('version_on_wire', 0):#x}"] += 1
        log = res["sim"].log if "sim" in res else []
        for w in ("drop", "dup", "rebind"):
            if any(l.startswith(w) for l in log):
                stats["net:" + w] += 1
        for a in ("request_key_update", "change_connection_id", "reset_stream"):
            if any(x[2] == a for x in res["script"]):
                stats["api:" + a] += 1
        nontrivial = "loss" in flags and any(l.startswith("dup") for l in log)
        ctx.count((cs, tuple(map(tuple, res["script"]))), nontrivial)
        seen = set()
        for kind, text in orc.violations:
            if kind in seen:
                continue
            seen.add(kind)
            ctx.witness(f"{kind}: {text}", {**describe(res), "all_violations": [f"{k}: {t}" for k, t in orc.violations][:10]},
                        {"oracle": kind})
            stats["violation:" + kind] += 1
        for p in tr.problems[:3]:
            ctx.broken.append({"kind": "broken-correspondence", "correspondence": "streamsys-derivation",
                               "problem": p, "conn": describe(res, 20)})
            stats["derivation-problem"] += 1
        if len(ctx.cov["samples"]) < 3 and tr.traces:
            k, t = sorted(tr.traces.items())[0]
            ctx.sample({"conn_seed": cs, "stream": list(k), "ops": [l[:60] for l in t.lines[:8]]})
        res.pop("sim", None)
        pend.append(res)
        if len(pend) >= batch:
            check_batch(ctx, pend)
            pend = []
    check_batch(ctx, pend)
    return stats


def main(tier):
    ctx = core.Ctx("C01", tier)
    tree.activate()
    ctx.prove(["AQ.Props.C01"], [])
    ctx.cov["trusted_base"] = [
        "Lean 4.33.0 kernel (+ leanchecker in thorough tier)",
        "axioms: subset of {propext, Classical.choice, Quot.sound} (audited by #print axioms)",
        "hand-written model AQ.Model.StreamSys (+ AQ.Model.Stream) tied to connection.py / stream.py by per-step "
        "differential correspondence on op sequences derived from real connections (this run)",
        "harness/sim.py, harness/impl_streamsys.py (derivation of ops + canonical lines), harness/frames.py",
    ]
    ctx.assumptions = [
        "theorems are per stream and per direction; flow-control / stream-limit checks of _handle_stream_frame are "
        "modelled as passing (C06/C07)",
        "each emitted frame's delivery is reported at most once and only after emission (C08 callbacks-once); "
        "checked on every run by the derivation (a report naming no outstanding frame is a failure)",
        "liveness: bounded-progress lemma proved; the temporal statement over infinite fair runs, loss detection / "
        "PTO firing and packet protection (key update) are covered by the oracle runs only",
        "the application does not write or reset after FIN/reset on the same stream",
    ]
    thorough = tier == "thorough"
    n = 1500 if thorough else 150
    base = ctx.seed * 1000003
    stats = run_all(ctx, [base + i for i in range(n)])
    ctx.notes["stats"] = dict(stats)
    ctx.cov["rule"] = (
        "PRNG scripts of send_stream_data (sizes 0..20000, FIN) / reset_stream / send_ping / request_key_update / "
        "change_connection_id on client streams 0,4,8,2,6 and server streams 1,5,3,7 (and the peer's bidi streams "
        "once they exist) x reno/cubic x QUIC v1/v2 x per-datagram drop/dup/reorder/rebind probabilities, "
        "adversarial phase then fair phase. Non-trivial = a connection in which some STREAM frame was declared "
        "lost and some datagram was duplicated by the network; distinct by (seed, script) hash.")
    return ctx.finish()


def replay(path):
    tree.activate()
    d = json.load(open(path))
    rp = d.get("replay") or {}
    if "conn_seed" not in rp:
        print(json.dumps(d, indent=1)[:4000])
        return 0
    cs = rp["conn_seed"]
    if cs in DIRECTED:
        res = run_conn(cs, sc={**scenario(random.Random(0)), "cc": "reno", "version": V1}, directed=DIRECTED[cs])
    else:
        res = run_conn(cs)
    for k, t in res["oracle"].violations:
        print(f"VIOLATION-REPRODUCED {k}: {t}")
    for p in res["tracer"].problems:
        print("DERIVATION-PROBLEM", p)
    print("script:", res["script"][:50])
    print("network log tail:", res["sim"].log[-40:] if "sim" in res else [])
    return 1 if res["oracle"].violations else 0
