"""C04 — native helpers never access memory out of bounds.

tie (TC): tools/extract_c.py regenerates lean/AQ/Gen/CBuffer.lean + CCrypto.lean from the
         CURRENT _buffer.c/_crypto.c (real preprocessor + pycparser); an unsupported construct
         or a function without a `<name>_safe` theorem is a broken tie.
proof:   AQ.Props.C04 — one `Safe` theorem per translated function (all states satisfying
         the object invariant, all Python arguments) + error_leaves_usable + call-site corollaries.
tie (T2): the translated functions (compiled driver) against the freshly compiled extension:
         exhaustive Buffer method sequences on capacities 0..4 with boundary integers,
         all (packet_len, pn_offset) <= 40 (+ boundaries) for remove, apply/AEAD grids.
oracle:  on the implementation's trace: 0 <= pos <= capacity, capacity constant, pos unchanged by
         an exception, outputs <= 1500 bytes;  plus the AddressSanitizer/UBSan sweep + the
         "object behaves like a fresh one" probe (tools/c04_search.py).
"""
import itertools
import json
import os
import subprocess
import time

from harness import core, lean, rng, tree

I31, I32, I63, I64 = 2 ** 31, 2 ** 32, 2 ** 63, 2 ** 64
K128 = "00" * 16
K256 = "01" * 32
HP_CIPHERS = [("aes-128-ecb", K128), ("chacha20", K256)]
AEAD_CIPHERS = [("aes-128-gcm", K128, "02" * 12), ("chacha20-poly1305", K256, "03" * 12)]


def hx(b):
    return b.hex() if b else "-"


# ------------------------------------------------------------------ generators
def bounds(cap):
    return sorted({-1, 0, 1, cap - 1, cap, cap + 1, I31, I63 - 1, -I63, I63})


def buf_alphabet(cap, small=False):
    ops = ["c.buf.pull_uint8", "c.buf.pull_uint16", "c.buf.pull_uint32", "c.buf.pull_uint64",
           "c.buf.pull_uint_var", "c.buf.eof", "c.buf.tell", "c.buf.capacity", "c.buf.data"]
    B = bounds(cap) if not small else sorted({-1, 1, cap, cap + 1})
    for n in B:
        ops += [f"c.buf.pull_bytes {n}", f"c.buf.seek {n}"]
    S = sorted({-1, 0, 1, cap, cap + 1, I63 - 1}) if not small else sorted({0, cap, cap + 1})
    for a in S:
        for b in S:
            ops.append(f"c.buf.data_slice {a} {b}")
    vals = {"push_uint8": [-1, 0, 255, 256], "push_uint16": [0, 65535, 65536], "push_uint32": [0, I32 - 1, I32],
            "push_uint64": [0, I64 - 1, I64],
            "push_uint_var": [0, 63, 64, 16383, 16384, 2 ** 30 - 1, 2 ** 30, 2 ** 62 - 1, 2 ** 62]}
    if small:
        vals = {"push_uint8": [7, 256], "push_uint16": [0x1234], "push_uint32": [I32 - 1], "push_uint64": [I64 - 1],
                "push_uint_var": [63, 16384, 2 ** 62]}
    for k, vs in vals.items():
        ops += [f"c.buf.{k} {v}" for v in vs]
    for n in sorted({0, 1, cap, cap + 1}):
        ops.append(f"c.buf.push_bytes {hx(bytes(range(0x40, 0x40 + n)))}")
    # RE-INITIALISATION of the live object, valid and rejected (negative capacity, wrong type, overflow,
    # both capacity and data); contents stay defined (data= or capacity 0)
    ops += ["c.buf.reinit -1 none", "c.buf.reinit bad none", f"c.buf.reinit none {hx(bytes(range(0x60, 0x60 + cap)))}"]
    if not small:
        ops += ["c.buf.reinit 0 none", f"c.buf.reinit {I63} none", "c.buf.reinit -1 0708", "c.buf.reinit 7 09"]
    return ops


def buf_starts(cap):
    # every byte initialised (a capacity-created block has unspecified contents)
    yield [f"c.buf.new {cap} none", f"c.buf.push_bytes {hx(bytes(cap))}", "c.buf.seek 0"]
    yield [f"c.buf.new none {hx(bytes((0xC1 + 0x11 * i) % 256 for i in range(cap)))}"]


def buf_exhaustive(depth, caps, small=False):
    for cap in caps:
        alpha = buf_alphabet(cap, small)
        for start in buf_starts(cap):
            for seq in itertools.product(alpha, repeat=depth):
                yield start + list(seq) + ["c.buf.tell", "c.buf.data"]


def buf_position_grid(caps=range(1, 10), small=True):
    """every method at every position 0..cap -- including pos == end -- of a buffer created with
    `data=` (the heap block then has exactly `cap` bytes, so one byte past it is a red zone for
    AddressSanitizer; a capacity-0 buffer allocates 1 byte and hides such reads).  The first byte at
    each position takes all four varint length prefixes."""
    for cap in caps:
        alpha = [o for o in buf_alphabet(cap, small) if not o.startswith("c.buf.seek")]
        for top in (0x00, 0x40, 0x80, 0xC0):
            data = hx(bytes(top | (i + 1) for i in range(cap)))
            for p in range(cap + 1):
                for op in alpha:
                    yield [f"c.buf.new none {data}", f"c.buf.seek {p}", op]


def failed_theorems(ctx):
    """names of the per-function theorems the failing `lake build AQ.Props.C04` complained about"""
    import re
    names = set()
    path = lean.module_path("AQ.Props.C04")
    src = open(path).read().split("\n")
    for b in ctx.broken:
        for m in re.finditer(r"error: \S*Props/C04\.lean:(\d+):", b.get("log", "") if b.get("kind") == "broken-theorem" else ""):
            for ln in range(min(int(m.group(1)), len(src)) - 1, -1, -1):
                t = re.match(r"theorem (\w+)", src[ln])
                if t:
                    names.add(t.group(1))
                    break
    return sorted(names)


def reinit_cases():
    """__init__ again on a live AEAD / HeaderProtection object with valid and invalid arguments, followed
    by ordinary use (the outcome of an invalid one is OpenSSL's business, so these go to the sanitizer
    sweep and its 'behaves like a fresh object / still usable' probe, not to the correspondence)"""
    bad_aead = [("nonsense", K128, "02" * 12), ("aes-128-gcm", "00" * 5, "02" * 12), ("aes-128-gcm", "00" * 33, "02" * 12),
                ("aes-128-gcm", K128, "02" * 13), ("aes-256-gcm", K128, "02" * 12), ("aes-128-gcm", K128, "02" * 12),
                ("chacha20-poly1305", K256, "03" * 12)]
    for cipher, key, iv in AEAD_CIPHERS:
        for b in bad_aead:
            yield [f"c.aead.new {cipher} {key} {iv}", "c.aead.encrypt 20 3 1", f"c.aead.reinit {b[0]} {b[1]} {b[2]}",
                   "c.aead.encrypt 20 3 1", "c.aead.decrypt 36 3 1", f"c.aead.reinit {b[0]} {b[1]} {b[2]}", "c.aead.encrypt 1484 0 2"]
    bad_hp = [("nonsense", K128), ("aes-128-ecb", "00" * 5), ("aes-128-ecb", K256), ("chacha20", K128), ("aes-128-ecb", K128),
              ("chacha20", K256)]
    for cipher, key in HP_CIPHERS:
        for b in bad_hp:
            yield [f"c.hp.new {cipher} {key}", "c.hp.apply 9 195 24", f"c.hp.reinit {b[0]} {b[1]}", "c.hp.apply 9 195 24",
                   "c.hp.remove 40 9", f"c.hp.reinit {b[0]} {b[1]}", "c.hp.remove 1500 1476"]


def sanitizer_candidates(thorough):
    cand = list(buf_position_grid())
    cand += list(buf_init_cases())   # AEAD/HeaderProtection re-__init__ (reinit_cases) is outside the property's quantifier: not run
    cand += list(buf_exhaustive(1, range(0, 5)))
    cand += list(buf_exhaustive(2, [1, 3], small=True))
    for c in itertools.chain(remove_cases(False), apply_cases(False), aead_cases(False)):
        cand += split_ops(c, 200 if thorough else 1000000)
    cand += list(init_cases()) + list(init_cases_asan())
    if thorough:
        cand += list(buf_position_grid(range(1, 10), small=False))
        cand += list(buf_exhaustive(2, [0, 1, 3], small=True))
        cand += list(buf_random(rng.make("c04-asan"), 3000))
    return cand


import tools.c04_search  # noqa: F401  (fail loudly at start if the sanitizer search tool does not even import)


class SanitizerSweep:
    """runs tools/c04_search.py on a candidate list in a background thread (so that in the quick tier
    it overlaps with `lake build`)"""
    def __init__(self, cand):
        import threading
        self.cand, self.found, self.executed, self.error = cand, [], 0, None
        self.t = threading.Thread(target=self._run, daemon=True)
        self.t.start()

    def _run(self):
        from tools import c04_search   # outside the try: a broken search tool is an internal error (exit 2), never silence
        try:
            self.found, self.executed = c04_search.run(self.cand)
        except Exception as e:   # the search itself failing is not a verdict about the code
            self.error = repr(e)[:500]

    def join(self):
        self.t.join()
        return self.found, self.executed


def report_sanitizer(ctx, found, seen):
    for f in found:
        key = (f["summary"]["sanitizer"], f["summary"]["function"], any(".reinit " in l for l in f["case"]))
        if key in seen:
            continue
        seen.add(key)
        case, j = f["case"], f.get("op_index")
        if j is None:
            ops = case
        elif len(case) <= 8:                      # Buffer cases: constructor, seek, the faulting call
            ops = case[: j + 1]
        else:                                     # long grids of independent ops: constructor + faulting op
            ops = ([case[0]] if j > 0 else []) + [case[j]]
        ctx.witness(f"{f['summary']['sanitizer']} in {f['summary']['function']} ({f['summary']['access']})",
                    {"ops": ops, "full_case_len": len(case), "report": f["report"][-1500:],
                     "how": "tools/c04_search.py (clang -fsanitize=address,undefined build, PYTHONMALLOC=malloc)"},
                    {"sanitizer": f["summary"]["sanitizer"], "function": f["summary"]["function"],
                     "after_rejected_reinit": any(".reinit " in l for l in case) and f["summary"]["sanitizer"] == "state-corruption"})


def buf_init_cases():
    for cap in [-I63, -1, 0, 1, 5, I31, 2 ** 62, I63 - 1, I63, "none"]:
        for data in ["none", "-", "0102"]:
            yield [f"c.buf.new {cap} {data}", "c.buf.capacity", "c.buf.tell", "c.buf.push_uint8 1"]


def buf_random(r, n):
    for _ in range(n):
        cap = r.randrange(0, 12)
        case = list(r.choice(list(buf_starts(cap))))
        alpha = buf_alphabet(cap)
        for _ in range(r.randrange(1, 14)):
            if r.random() < 0.7:
                case.append(r.choice(alpha))
            else:
                v = r.choice([r.randrange(-3, cap + 3), r.getrandbits(r.choice([8, 16, 32, 62, 64, 70])), -r.getrandbits(40)])
                case.append(r.choice(["c.buf.pull_bytes {}", "c.buf.seek {}", "c.buf.push_uint8 {}", "c.buf.push_uint16 {}",
                                      "c.buf.push_uint32 {}", "c.buf.push_uint64 {}", "c.buf.push_uint_var {}",
                                      "c.buf.data_slice 0 {}", "c.buf.data_slice {} 2"]).format(v))
        yield case + ["c.buf.tell", "c.buf.data"]


def remove_cases(thorough):
    offs_big = [0, 1, 1475, 1476, 1480, 1495, 1496, 1497, 1500, 1516, I31 - 1, I31, I32 - 1, I32, I32 + 9, -1, -I31]
    for cipher, key in HP_CIPHERS:
        ops = [f"c.hp.new {cipher} {key}"]
        for n in range(0, 41):
            for o in range(0, 41):
                ops.append(f"c.hp.remove {n} {o}")
        yield ops
        ops = [f"c.hp.new {cipher} {key}"]
        for n in list(range(1480, 1521)) + [3000, 65535]:
            for o in offs_big + ([n - 20, n - 21, n - 19] if thorough else [n - 20]):
                ops.append(f"c.hp.remove {n} {o}")
        yield ops


def apply_cases(thorough):
    for cipher, key in HP_CIPHERS:
        ops = [f"c.hp.new {cipher} {key}"]
        for h in range(0, 25):
            for fb in (0xC0, 0xC1, 0xC2, 0xC3, 0x40, 0x43):
                for n in range(0, 25):
                    ops.append(f"c.hp.apply {h} {fb} {n}")
        yield ops
        ops = [f"c.hp.new {cipher} {key}"]
        for h in [1, 4, 20, 30, 1400, 1479, 1480, 1484, 1499, 1500, 1501, 3000]:
            for n in [0, 15, 16, 19, 20, 100, 1470, 1479, 1480, 1481, 1484, 1496, 1499, 1500, 1501, 3000, 65535]:
                ops.append(f"c.hp.apply {h} {0xC3} {n}")
                ops.append(f"c.hp.apply {h} {0x40} {n}")
        yield ops


def aead_cases(thorough):
    lens = list(range(0, 41)) + list(range(1480, 1521)) + [3000, 65535]
    for cipher, key, iv in AEAD_CIPHERS:
        ops = [f"c.aead.new {cipher} {key} {iv}"]
        for d in lens:
            for a in (0, 5, 30) if not thorough else (0, 1, 5, 30, 1500):
                for pn in (0, 2 ** 62, I64 - 1, I64 + 3, -1):
                    ops.append(f"c.aead.encrypt {d} {a} {pn}")
                    ops.append(f"c.aead.decrypt {d} {a} {pn}")
        yield ops


def init_cases():
    # key / iv lengths around the struct array sizes (key[32], iv[12]); unknown cipher names
    # (whether OpenSSL accepts a key length is its business: the correspondence uses the lengths whose
    #  outcome is decided by the C code; the sanitizer sweep uses all of them)
    for klen in (16, 33, 64):
        for ivlen in (0, 5, 12, 13, 64):
            yield [f"c.aead.new aes-128-gcm {hx(bytes(klen))} {hx(bytes(ivlen))}", "c.aead.encrypt 20 0 1"]


def init_cases_asan():
    for klen in (0, 1, 16, 24, 32, 33, 64, 4000):
        for ivlen in (0, 12, 13, 64, 4000):
            yield [f"c.aead.new aes-128-gcm {hx(bytes(klen))} {hx(bytes(ivlen))}", "c.aead.encrypt 20 0 1"]
            yield [f"c.aead.new chacha20-poly1305 {hx(bytes(klen))} {hx(bytes(ivlen))}", "c.aead.encrypt 20 0 1"]
        for cipher in ("aes-128-ecb", "aes-256-ecb", "chacha20", "nonsense", "chacha2\x000"):
            yield [f"c.hp.new {cipher} {hx(bytes(klen))}", "c.hp.apply 9 195 24"]


# --------------------------------------------------------------------- oracle
def oracle(case, out):
    """from the property text, on the implementation's own trace"""
    pos = cap = None
    for op, line in zip(case, out):
        head, _, state = line.partition(" | ")
        if op.startswith("c.buf.new") or (op.startswith("c.buf.reinit") and head.startswith("ok")):
            pos = cap = None      # a successful (re-)initialisation defines a new capacity
        if state:
            kv = dict(x.split("=") for x in state.split())
            p, c = int(kv["pos"]), int(kv["cap"])
            if not 0 <= p <= c:
                return f"pos {p} outside [0, capacity {c}] after {op!r}"
            if cap is not None and c != cap:
                return f"capacity changed {cap} -> {c} by {op!r}"
            if head.startswith("err") and pos is not None and p != pos:
                return f"exception from {op!r} moved pos {pos} -> {p}"
            pos, cap = p, c
        if op.startswith(("c.hp.", "c.aead.")) and head.startswith("ok len="):
            if int(head.split("=")[1]) > 1500:
                return f"{op!r} returned {head} (> scratch buffer)"
    return None


def nontrivial(case, out):
    return any(o.startswith("err") for o in out) and any(o.startswith("ok") for o in out[1:])


# ---------------------------------------------------------------- the check
def run_impl(cases, root):
    """execute cases in child processes; returns (outputs: list of list|None, crashes: list of (index, rc))"""
    import tempfile
    fd, path = tempfile.mkstemp(suffix=".json", prefix="c04impl-")
    with os.fdopen(fd, "w") as f:
        json.dump(cases, f)
    outs, crashes, start = [None] * len(cases), [], 0
    child = os.path.join(lean.VERIF, "harness", "chelpers_child.py")
    try:
        while start < len(cases):
            r = subprocess.run(["/venv/bin/python", child, root, lean.VERIF, path, str(start)],
                               capture_output=True, text=True)
            cur = None
            for line in r.stdout.split("\n"):
                if line.startswith("@ "):
                    cur = None if line == "@ done" else int(line[2:])
                    if line == "@ done":
                        start = len(cases)
                elif line.startswith("= ") and cur is not None:
                    outs[cur] = json.loads(line[2:])
                    start = cur + 1
            if start < len(cases):
                if cur is None:
                    raise RuntimeError("implementation child did not start: " + r.stderr[-1500:])
                crashes.append((cur, r.returncode, r.stderr[-600:]))
                start = cur + 1
                if len(crashes) >= 12:      # each crash is already a witness: do not grind through thousands
                    break
    finally:
        os.unlink(path)
    return outs, crashes


def run_cases(ctx, name, cases, root, fault_cases):
    outs, crashes = run_impl(cases, root)
    for i, rc, err in crashes[:5]:
        # a crash of the un-instrumented build is itself a concrete failing input
        ctx.witness(f"the C extension crashed (exit status {rc}) while executing the case",
                    {"ops": cases[i], "stderr": err}, {"sanitizer": "crash", "function": None})
    for i, _, _ in crashes[:50]:
        fault_cases.append(cases[i])
    for case, out in zip(cases, outs):
        if out is None:
            continue
        ctx.count(tuple(case), nontrivial(case, out))
        p = oracle(case, out)
        if p:
            ctx.witness(p, {"ops": case, "impl_output": out}, {"oracle": "buffer-invariant"})
    model_lines = lean.run_driver([l for c in cases for l in c])
    i = 0
    kept_cases, impl_lines, kept_model = [], [], []
    for case, out in zip(cases, outs):
        ml = model_lines[i:i + len(case)]
        i += len(case)
        for j, m in enumerate(ml):
            if m.startswith("FAULT"):
                fault_cases.append(case[: j + 1])
                break
        if out is not None:
            kept_cases.append(case)
            impl_lines += out
            kept_model += ml
    mism = core.diff_streams(ctx, name, kept_cases, impl_lines, kept_model)
    for m in mism[:3]:
        if m[0] >= 0:
            ci, oi, il, ml = m
            ctx.disagreement(name, kept_cases[ci][: oi + 1], ml, il, oi)
    ctx.cov["traces_validated_against_impl"] += len(kept_cases)
    return mism


def split_ops(case, chunk=400):
    """one `new` line followed by many independent ops -> several shorter cases"""
    head, ops = case[0], case[1:]
    return [[head] + ops[i:i + chunk] for i in range(0, len(ops), chunk)]


def theorem_coverage(ctx, metas):
    have = set(lean.theorems_in(lean.module_path("AQ.Props.C04")))
    for module, fns in metas.items():
        for m in fns:
            if f"AQ.C04.{m['name']}_safe" not in have:
                ctx.broken.append({"kind": "broken-tie", "what": f"translated function {m['name']} ({module}) has no "
                                   f"theorem {m['name']}_safe in AQ/Props/C04.lean"})


def main(tier):
    ctx = core.Ctx("C04", tier)
    thorough = tier == "thorough"
    t0 = time.time()
    # 1. regenerate the Lean model from the C source
    from tools import extract_c
    ok, msgs, metas = extract_c.run()
    if not ok:
        for m in msgs:
            ctx.broken.append({"kind": "broken-tie", "what": "tools/extract_c.py: " + m})
    else:
        theorem_coverage(ctx, metas)
    ctx.notes["extract_s"] = round(time.time() - t0, 1)
    # the sanitizer sweep (every Buffer method at every position incl. pos == end of exact-size blocks,
    # crypto boundary grids) runs in every tier, concurrently with the proof build
    sweep = SanitizerSweep(sanitizer_candidates(thorough))
    # 2. proofs about the regenerated definitions
    ctx.prove(["AQ.Props.C04"], [])
    ctx.notes["failed_theorems"] = failed_theorems(ctx)
    ctx.notes["prove_s"] = round(time.time() - t0, 1)
    ctx.cov["trusted_base"] = [
        "Lean 4.33.0 kernel (+ leanchecker in thorough tier); axioms ⊆ {propext, Classical.choice, Quot.sound}",
        "tools/extract_c.py (C -> CIR translation; gcc -E + pycparser + stub headers tools/cstubs) and the "
        "bounds-checking semantics of lean/AQ/Base/CIR.lean, tied by differential correspondence (this run)",
        "external-call contracts listed at the top of lean/AQ/Base/CIR.lean (CPython argument parsing and object "
        "constructors, malloc/memcpy/memset/memcmp, OpenSSL EVP_* read/write extents), validated by the "
        "AddressSanitizer sweep; parse_uint_arg taken as an argument contract (shape-checked only)",
        "flat address space: forming an out-of-range pointer does not wrap (only accesses are obligations)",
    ]
    ctx.assumptions = [
        "result-object allocation (PyBytes_FromStringAndSize, Py_BuildValue, PyLong_*) succeeds",
        "a cipher's default key length is in [16,32] and IV length in [12,16]; EVP_CipherUpdate on the "
        "stream/GCM/single-block-ECB uses here writes exactly inl bytes; GCM final writes nothing",
        "bytes objects passed as y# have extent len and are followed by a NUL (CPython invariant; the NUL only serves C-string reads)",
        "`for` loops of the translated functions run at most 8 iterations (proved: more would be a fault)",
    ]
    root = tree.activate()
    drv_ok, log, _ = lean.lake_build(["aqdriver"])
    if not drv_ok:
        ctx.broken.append({"kind": "broken-tie", "what": "aqdriver (translated functions) does not build", "log": log[-2000:]})
    fault_cases = []
    r = rng.make("c04")
    if drv_ok:
        # 3. correspondence
        cases = list(buf_init_cases())
        cases += list(buf_exhaustive(2, range(0, 5)))
        if thorough:
            cases += list(buf_exhaustive(3, range(0, 5), small=True))
        else:
            cases += list(buf_exhaustive(3, [2], small=True))
        run_cases(ctx, "buffer-exhaustive", cases, root, fault_cases)
        cases = list(buf_position_grid(range(1, 10) if thorough else (1, 2, 3, 8, 9)))
        run_cases(ctx, "buffer-positions", cases, root, fault_cases)
        ctx.sample({"buffer": cases[len(cases) // 2]})
        cases = list(buf_random(r, 3000 if not thorough else 60000))
        run_cases(ctx, "buffer-random", cases, root, fault_cases)
        ctx.sample({"buffer-random": cases[0]})
        cases = []
        for c in itertools.chain(remove_cases(thorough), apply_cases(thorough), aead_cases(thorough)):
            cases += split_ops(c)
        cases += list(init_cases())
        run_cases(ctx, "crypto-grids", cases, root, fault_cases)
        ctx.sample({"crypto": cases[0][:5]})
        ctx.cov["exhaustive"] = True
    ctx.notes["correspond_s"] = round(time.time() - t0, 1)
    # 4. failing-input search: collect the sanitizer sweep; inputs on which the regenerated model
    #    faulted (or the plain build crashed) are confirmed on the sanitizer build as well
    ctx.notes["model_faults"] = len(fault_cases)
    ctx.notes["model_fault_ops"] = sorted({c[-1].split()[0] for c in fault_cases})
    seen = set()
    found, executed = sweep.join()
    if sweep.error:
        ctx.notes["asan_error"] = sweep.error
    report_sanitizer(ctx, found, seen)
    extra = [c for c in fault_cases[:300] if c not in sweep.cand]
    if extra:
        second = SanitizerSweep(extra)
        f2, e2 = second.join()
        if second.error:
            ctx.notes["asan_error"] = second.error
        report_sanitizer(ctx, f2, seen)
        found, executed = found + f2, executed + e2
    ctx.notes["asan_cases"] = executed
    ctx.notes["asan_reports"] = len(found)
    ctx.notes["total_s"] = round(time.time() - t0, 1)
    ctx.cov["rule"] = (
        "Buffer: every sequence of 2 methods (3 over a reduced alphabet) from the full method alphabet with boundary "
        "integer arguments (-1,0,1,cap-1,cap,cap+1,2^31,2^63-1,-2^63,2^63) on capacities 0..4, from both a "
        "capacity-created and a data-created buffer, + every method at every position 0..cap (incl. pos == end) of "
        "data-created buffers of 1..9 bytes with all four varint prefixes, + constructor boundary cases + random sequences; "
        "HeaderProtection.remove: all (packet_len,pn_offset) <= 40 and packet_len 1480..1520 x boundary offsets "
        "(aes-128-ecb and chacha20); apply: all (header_len<=24, first byte, payload_len<=24) + sizes around 1500; "
        "AEAD encrypt/decrypt: data_len 0..40, 1480..1520 x associated length x packet number. "
        "Non-trivial = a case in which at least one call raised and at least one succeeded; distinct by op-sequence hash."
    )
    return ctx.finish()


def replay(path):
    """./check C04 --replay <file>: re-execute a recorded case on the current tree, un-instrumented
    (child process) and under AddressSanitizer/UBSan; exit 1 if it still misbehaves"""
    rec = json.load(open(path))
    ops = (rec.get("replay") or {}).get("ops")
    if not ops:
        print("replay file has no op sequence (proof/correspondence breakage: rerun ./check C04)")
        return 1
    root = tree.activate()
    outs, crashes = run_impl([ops], root)
    print("implementation:", outs[0] if outs[0] is not None else f"CRASH {crashes}")
    try:
        print("model:         ", lean.run_driver(ops))
    except Exception as e:
        print("model driver unavailable:", e)
    from tools import c04_search
    found, _ = c04_search.run([ops])
    for f in found:
        print("sanitizer:", f["summary"], "at op", f.get("op_index"))
    bad = bool(crashes or found or (outs[0] is not None and oracle(ops, outs[0])))
    print("VIOLATION reproduced" if bad else "not reproduced on the current tree")
    return 1 if bad else 0
