"""Independent decoders written in plain Python from the RFC text (not from
aioquic, not from the Lean model), used as oracles by checks/c17.py for every
length-prefixed structure: transport parameters (RFC 9000 §18, RFC 9368 §3),
ACK frames (RFC 9000 §19.3), packet headers (RFC 9000 §17.2/17.3, RFC 9369 §3.2).

Each `rfc_*_decode` returns the canonical text the line protocol uses for an
accepted input, or None when the input is not a well-formed encoding.  A
structure inside a length-prefixed field must occupy EXACTLY the declared
length: that is what "never reading past the declared length of an enclosing
field" means for a decoder that accepts."""

V2 = 0x6B3343CF
INT_IDS = {0x01, 0x03, 0x04, 0x05, 0x06, 0x07, 0x08, 0x09, 0x0A, 0x0B, 0x0E, 0x20}
BYTES_IDS = {0x00, 0x02, 0x0F, 0x10, 0xC37}
FLAG_ID = 0x0C
PREF_ID = 0x0D
VINFO_ID = 0x11
ORDER = [0x00, 0x01, 0x02, 0x03, 0x04, 0x05, 0x06, 0x07, 0x08, 0x09, 0x0A, 0x0B, 0x0C, 0x0D, 0x0E, 0x0F, 0x10,
         0x11, 0x20, 0xC37]


def hx(b):
    return bytes(b).hex() if b else "-"


def varint(data, pos=0):
    """RFC 9000 A.1; (value, next position) or None if the bytes run out"""
    if pos >= len(data):
        return None
    n = 1 << (data[pos] >> 6)
    if pos + n > len(data):
        return None
    v = data[pos] & 0x3F
    for i in range(1, n):
        v = (v << 8) | data[pos + i]
    return v, pos + n


# ------------------------------------------------------ transport parameters
def tp_walk(data):
    """RFC 9000 §18: sequence of (id, length, value); None if an id, a length or
    a value runs past the end"""
    out = []
    pos = 0
    while pos < len(data):
        a = varint(data, pos)
        if a is None:
            return None
        b = varint(data, a[1])
        if b is None:
            return None
        end = b[1] + b[0]
        if end > len(data):
            return None
        out.append((a[0], data[b[1]:end]))
        pos = end
    return out


def tp_value_text(pid, value):
    """the value of a known parameter, which must fill `value` exactly; None if it does not"""
    if pid in INT_IDS:
        a = varint(value)
        if a is None or a[1] != len(value):
            return None
        return str(a[0])
    if pid in BYTES_IDS:
        return hx(value)
    if pid == FLAG_ID:
        return "1" if len(value) == 0 else None
    if pid == PREF_ID:
        # IPv4 (4) port (2) IPv6 (16) port (2) CID length (1) CID (..) stateless reset token (16)
        if len(value) < 25:
            return None
        cl = value[24]
        if len(value) != 25 + cl + 16:
            return None
        h4, p4 = value[0:4], int.from_bytes(value[4:6], "big")
        h6, p6 = value[6:22], int.from_bytes(value[22:24], "big")
        a4 = "none/0" if h4 == bytes(4) else f"{h4.hex()}/{p4}"
        a6 = "none/0" if h6 == bytes(16) else f"{h6.hex()}/{p6}"
        return f"P/{a4}/{a6}/{hx(value[25:25 + cl])}/{hx(value[25 + cl:])}"
    if pid == VINFO_ID:
        # RFC 9368 §3: Chosen Version (32) then Available Versions (32 each); version 0 is a parse failure (§4)
        if len(value) < 4 or len(value) % 4:
            return None
        vs = [int.from_bytes(value[i:i + 4], "big") for i in range(0, len(value), 4)]
        if 0 in vs:
            return None
        return f"V/{vs[0]}/" + (",".join(map(str, vs[1:])) if vs[1:] else "-")
    return ""   # unknown id: skipped


def rfc_tp_decode(data):
    """canonical text of the decoded set (known ids, last occurrence wins, PARAMS
    order) or None when some parameter does not fill its declared length"""
    w = tp_walk(data)
    if w is None:
        return None
    vals = {}
    for pid, value in w:
        t = tp_value_text(pid, value)
        if t is None:
            return None
        if pid in INT_IDS or pid in BYTES_IDS or pid in (FLAG_ID, PREF_ID, VINFO_ID):
            vals[pid] = t
    items = [f"{pid:x}={vals[pid]}" for pid in ORDER if pid in vals]
    return ";".join(items) if items else "-"


# ----------------------------------------------------------------- ACK frames
def rfc_ack_decode(data):
    """RFC 9000 §19.3 (body after the type byte, no ECN counts): Largest, Delay,
    Range Count, First Range, then exactly Range Count (Gap, Length) pairs.
    Returns (ranges text ascending, delay, bytes used) or None if fields are missing.
    Negative packet numbers are computed as the arithmetic gives them (the
    codec under test does not reject them; that is reported separately)."""
    f = []
    pos = 0
    for _ in range(4):
        a = varint(data, pos)
        if a is None:
            return None
        f.append(a[0])
        pos = a[1]
    largest, delay, count, first = f
    ranges = [(largest - first, largest + 1)]
    smallest = largest - first
    for _ in range(count):
        a = varint(data, pos)
        if a is None:
            return None
        b = varint(data, a[1])
        if b is None:
            return None
        pos = b[1]
        lg = smallest - a[0] - 2
        ranges.insert(0, (lg - b[0], lg + 1))
        smallest = lg - b[0]
    return ",".join(f"{x}:{y}" for x, y in ranges), delay, pos


# -------------------------------------------------------------------- headers
def rfc_header_decode(data, host_cid_length):
    """RFC 9000 §17.2 / §17.3, RFC 9369 §3.2, with aioquic's documented local
    rules: connection ids longer than 20 bytes and a zero fixed bit are rejected
    for every version.  Returns the canonical `ok …` line or None (reject)."""
    n = len(data)
    if n < 1:
        return None
    fb = data[0]
    if fb & 0x80:
        if n < 6:
            return None
        version = int.from_bytes(data[1:5], "big")
        pos = 5
        dl = data[pos]
        if dl > 20 or pos + 1 + dl > n:
            return None
        dcid = data[pos + 1:pos + 1 + dl]
        pos += 1 + dl
        if pos >= n:
            return None
        sl = data[pos]
        if sl > 20 or pos + 1 + sl > n:
            return None
        scid = data[pos + 1:pos + 1 + sl]
        pos += 1 + sl
        if version == 0:
            if (n - pos) % 4:
                return None
            vs = [int.from_bytes(data[i:i + 4], "big") for i in range(pos, n, 4)]
            return (f"ok ver=0 type=VERSION_NEGOTIATION len={n} dcid={hx(dcid)} scid={hx(scid)} token=- tag=- "
                    f"versions=[{','.join(map(str, vs))}] used={n}")
        if not fb & 0x40:
            return None
        bits = (fb >> 4) & 3
        if version == V2:
            ptype = ["RETRY", "INITIAL", "ZERO_RTT", "HANDSHAKE"][bits]
        else:
            ptype = ["INITIAL", "ZERO_RTT", "HANDSHAKE", "RETRY"][bits]
        token = tag = b""
        if ptype == "RETRY":
            if n - pos < 16:
                return None
            token, tag = data[pos:n - 16], data[n - 16:]
            pos = n
            length = 0
        else:
            if ptype == "INITIAL":
                a = varint(data, pos)
                if a is None or a[1] + a[0] > n:
                    return None
                token = data[a[1]:a[1] + a[0]]
                pos = a[1] + a[0]
            a = varint(data, pos)
            if a is None:
                return None
            length, pos = a
            if pos + length > n:
                return None
        return (f"ok ver={version} type={ptype} len={pos + length} dcid={hx(dcid)} scid={hx(scid)} "
                f"token={hx(token)} tag={hx(tag)} versions=[] used={pos}")
    if not fb & 0x40:
        return None
    if host_cid_length is None or host_cid_length < 0 or 1 + host_cid_length > n:
        return None
    dcid = data[1:1 + host_cid_length]
    return (f"ok ver=none type=ONE_RTT len={n} dcid={hx(dcid)} scid=- token=- tag=- versions=[] "
            f"used={1 + host_cid_length}")
