"""C13 — datagram emission respects size, padding and anti-amplification rules
(+ the flight-budget clause of C08, theorem AQ.Props.C08.flight_budget).

proof:   AQ.Props.C13 / AQ.Props.C08b about AQ.Model.Builder (QuicPacketBuilder
         arithmetic) and AQ.Model.Amplification (QuicNetworkPath ledger + budgets
         of datagrams_to_send), for every disciplined call sequence
tie:     (1) builder line protocol on a real QuicPacketBuilder with a real
             CryptoPair: exhaustive budget grid x scripts, then random call
             sequences (disciplined like connection.py, and arbitrary);
         (2) every builder call real QuicConnections make inside
             datagrams_to_send (harness/sim.py schedules: loss, duplication,
             reordering, junk, rebinding, 0-RTT, close) replayed on the model,
             the budgets compared with the modelled formulas, and the caller
             discipline the theorems assume evaluated by the model (`discB`)
oracle:  written from the property text on the wire taps: datagram sizes,
         Initial padding, 3x rule per destination address (own notion of
         "validated"), in-flight bytes per send call versus cwnd - in flight
"""
from harness import core, lean, rng, tree

UND = " # undisciplined"


_seen = {}


def witness_once(ctx, what, replay, sig):
    """one witness per (oracle, kind): the first concrete input; the rest are counted"""
    k = tuple(sorted(sig.items()))
    _seen[k] = _seen.get(k, 0) + 1
    if _seen[k] == 1:
        ctx.witness(what, replay, sig)
    ctx.notes.setdefault("witness_counts", {})["/".join(str(v) for _, v in k)] = _seen[k]


def _strip(lines):
    return [m[:-len(UND)] if m.endswith(UND) else m for m in lines]


def builder_part(ctx, r, thorough):
    from harness import gen_builder as G, oracle_builder as O
    from harness.impl_builder import BuilderImpl
    cases, outs, flags = [], [], []
    ex = list(G.gen_exhaustive())
    co = list(G.gen_coalesce())
    if not thorough:
        ex = ex[::2]
        co = co[::3]
    ex += co
    for c in ex:
        conc, out = G.resolve(c, BuilderImpl)
        cases.append(conc); outs.append(out); flags.append(True)
    for _ in range(15000 if thorough else 3000):
        d = r.random() < 0.7
        conc, out = G.resolve(G.gen_random(r, r.choice([6, 15, 40]), disciplined=d), BuilderImpl, skip_after_stop=d)
        cases.append(conc); outs.append(out); flags.append(d)
    for c, o, d in zip(cases, outs, flags):
        nt = any(x.startswith("ok d=[") and not x.startswith("ok d=[]") for x in o)
        ctx.count(tuple(c), nt)
        if d:
            v = O.check(c, o, True)
            if v:
                witness_once(ctx, f"builder: {v[1]}", {"ops": c, "impl_output": o}, {"oracle": "builder", "kind": v[0]})
    flat = [l for c in cases for l in c]
    model = _strip(lean.run_driver(flat))
    mism = core.diff_streams(ctx, "builder", cases, [l for o in outs for l in o], model)
    for m in mism[:3]:
        if m[0] >= 0:
            ci, oi, il, ml = m
            ctx.disagreement("builder", cases[ci][: oi + 1], ml, il, oi)
    ctx.cov["traces_validated_against_impl"] += len(cases)
    ctx.sample({"builder": cases[len(ex)][:8] if len(cases) > len(ex) else cases[0]})
    ctx.notes["builder_cases"] = {"exhaustive": len(ex), "random": len(cases) - len(ex)}


def connection_part(ctx, thorough):
    from harness import amp_scen as A
    from harness.impl_builder import BuilderTap
    from harness.impl_amp import AmpObserver, compare
    n_seeds = 80 if thorough else 12
    stats = {"builders": 0, "builder_lines": 0, "budget_checked": 0, "amp_lines": 0, "amp_sends": 0, "amp_validate": 0,
             "amp_promote": 0, "amp_new_address": 0, "ping_with_full_window": 0, "path_response_from_other_address": 0}
    orc_n = {}
    runs = []
    for seed in range(n_seeds):
        for mode in ("handshake", "zero_rtt", "migration"):
            runs.append(("scenario", f"{rng.seed()}/{seed}/{mode}", mode))
        for kind in ("client_0rtt_pto", "server_silent_client", "server_close", "ping_full_window", "three_addresses", "cert_sizes", "handshake_addresses"):
            runs.append(("directed", f"{rng.seed()}/{seed}", kind))
    # oracle-only runs (no builder / ledger replay): many cheap schedules of the rarer interleavings
    for seed in range(240 if thorough else 60):
        sim, orc = A.directed(f"{rng.seed()}/light{seed}", "handshake_addresses")
        sim.close_taps()
        ctx.count(("light", seed), orc.n["unvalidated_sends"] > 0)
        for kind, text in orc.problems:
            witness_once(ctx, f"wire: {text}", {"harness": "amp_scen.directed", "seed": f"{rng.seed()}/light{seed}",
                                                "mode": "handshake_addresses", "log_tail": sim.log[-25:]},
                         {"oracle": "wire", "kind": kind})
        ctx.cov["traces_validated_against_impl"] += 1
    for how, seed, mode in runs:
        tap = BuilderTap()
        amps = [AmpObserver("server"), AmpObserver("client")]
        try:
            if how == "scenario":
                sim, orc = A.run_scenario(seed, mode, steps=140 if thorough else 90, extra=[tap] + amps)
            else:
                sim, orc = A.directed(seed, mode, extra=[tap] + amps)
        finally:
            for o in amps:
                o.close()
            tap.close()
        sim.close_taps()
        replay = {"harness": f"amp_scen.{'run_scenario' if how == 'scenario' else 'directed'}", "seed": seed, "mode": mode,
                  "log_tail": sim.log[-25:]}
        for k, v in orc.n.items():
            orc_n[k] = orc_n.get(k, 0) + v
        ctx.count((how, seed, mode), orc.n["unvalidated_sends"] > 0 or orc.n["padded"] > 0)
        for kind, text in orc.problems:
            witness_once(ctx, f"wire: {text}", replay, {"oracle": "wire", "kind": kind})
        # every builder call of the real connections, replayed on the model
        lines = [l for c in tap.cases for l in c[0]]
        exp = [l for c in tap.cases for l in c[1]]
        stats["builders"] += len(tap.cases)
        stats["builder_lines"] += len(lines)
        stats["budget_checked"] += tap.budget_checked
        if lines:
            raw = lean.run_driver(lines)
            model = _strip(raw)
            for i, (l, m, e) in enumerate(zip(lines, model, exp)):
                if m != e:
                    ctx.disagreement("connection-builder", {"replay": replay, "line": l}, m, e, i)
                    break
            und = [lines[i] for i, m in enumerate(raw) if m.endswith(UND)]
            if und:
                ctx.broken.append({"kind": "broken-correspondence", "correspondence": "caller-discipline",
                                   "error": "connection.py made a builder call outside the discipline the theorems assume",
                                   "calls": und[:3], "replay": replay})
        # the path ledger and the budgets of every receive_datagram / datagrams_to_send call
        for o in amps:
            if not o.lines:
                continue
            bad = compare(o, lean.run_driver(o.lines))
            stats["amp_lines"] += len(o.lines)
            stats["amp_sends"] += o.sends
            stats["ping_with_full_window"] += o.limited_ping_calls
            stats["path_response_from_other_address"] += o.cross_address_responses
            stats["amp_validate"] += sum(l.startswith("amp.validate") for l in o.lines)
            stats["amp_promote"] += sum(l.startswith("amp.promote") for l in o.lines)
            stats["amp_new_address"] += sum(l.startswith("amp.rxnew") for l in o.lines)
            if bad:
                i, l, m, e = bad
                ctx.disagreement("amp", {"replay": replay, "endpoint": o.role, "ops_tail": o.lines[max(0, i - 5): i + 1]}, m, e, i)
        for bm in tap.budget_mismatch[:1]:
            ctx.disagreement("datagrams_to_send-budgets", replay, str(bm["expected"]), str(bm["got"]), 0)
        ctx.cov["traces_validated_against_impl"] += 1
    ctx.notes["connection"] = {**stats, **orc_n, "runs": len(runs)}


def main(tier):
    ctx = core.Ctx("C13", tier)
    tree.activate()
    ctx.prove(["AQ.Props.C13", "AQ.Props.C08b"], [])
    ctx.cov["trusted_base"] = [
        "Lean 4.33.0 kernel (+ leanchecker in thorough tier); axioms within {propext, Classical.choice, Quot.sound}",
        "AQ.Model.Builder abstracts the buffer to its position; CryptoPair.encrypt_packet adds exactly the 16-byte tag "
        "(checked on every packet of the correspondence: real CryptoPair, real sizes)",
        "harness/impl_builder.py, harness/sim.py taps, harness/frames.py (RFC 9000 parser); CPython semantics between observations",
        "the oracle's notion of a validated address: a Handshake packet authenticated from it, or a PATH_RESPONSE echoing a "
        "PATH_CHALLENGE sent to it; the client's chosen server address",
    ]
    ctx.assumptions = [
        "caller discipline of the builder theorems (AQ.Builder.Disciplined): frame type fits the announced capacity; no ACK / "
        "CONNECTION_CLOSE frame started in a packet already holding a congestion-controlled frame; frame bodies within "
        "remaining_buffer_space (and remaining_flight_space once in flight); a packet without congestion-controlled frames has "
        ">= 2 payload bytes — confirmed by the model's discB on every builder call of the connection-level runs",
        "the model follows the code with fixes/C13-initial-padding.diff, C13-min-payload.diff, C13-close-amplification.diff, "
        "C08-ack-first.diff applied; on a tree without them the correspondence and the oracles report the differences",
        "bytes appended after the last packet of a datagram (Initial padding) are not part of any packet: the builder counts "
        "them against max_flight_bytes, recovery's bytes_in_flight does not",
    ]
    r = rng.make("c13")
    thorough = tier == "thorough"
    builder_part(ctx, r, thorough)
    connection_part(ctx, thorough)
    ctx.cov["rule"] = (
        "builder: grid of (max_flight_bytes, max_total_bytes) around 0 / header / 128-byte rule / 1200 / 2400 x 10 scripts x "
        "client|server; a padding-requiring Initial with Handshake / 0-RTT / 1-RTT packets coalesced behind it x budgets "
        "1199..max_datagram_size+1 (flight < buffer, total < buffer, both) x max_datagram_size 1200/1280/1350/1500; then random call sequences with budgets, CID/token lengths and max_datagram_size varied (70% sized "
        "like connection.py, 30% arbitrary: correspondence only). connection: handshake / 0-RTT / migration schedules under "
        "loss, duplication, reordering, junk datagrams from three addresses, client rebinding, random close(), three "
        "max_datagram_size pairs; directed: silent peer + odd-sized junk + PTO, 0-RTT with a full window, application close "
        "with the budget used up; the client's address changing DURING the handshake (each client datagram from A or B, "
        "individual datagrams of either side lost, chains of four sizes, then a large response); server certificate chains of four sizes (in-memory EC leaf alone / +1 / +5 intermediates, "
        "the repo's RSA chain) x a client never heard from again (own address, spoofed source, replayed first Initial, junk) "
        "over 6-10 PTO rounds, and the same chains in the random handshake / migration schedules; after every call the "
        "endpoint's bytes_sent / bytes_received per unvalidated path are compared with the harness's own per-address counts of "
        "the datagrams actually exchanged; three client addresses (migration to B, the server challenges B, the PATH_RESPONSE and later "
        "packets arrive from a never-challenged C or a spoofed source; validation ops are derived from the wire: a Handshake "
        "packet from the address, or a PATH_RESPONSE -> the path the challenge was SENT to), application PINGs with the window full of stream data; spoofed-source Initials (valid "
        "Initial keys, third address), send_ping() at random. Both endpoints' path ledgers and budgets are replayed on "
        "AQ.Model.Amplification after every receive_datagram / datagrams_to_send. Non-trivial = at least one datagram produced / an unvalidated send or a padded datagram."
    )
    return ctx.finish()


def replay(path):
    """re-execute a replay file against the current tree"""
    import json
    tree.activate()
    d = json.load(open(path))
    if d.get("kind") != "impl-witness":
        print("replay names a broken obligation/correspondence, nothing to execute:", json.dumps(d.get("broken", []), default=str)[:600])
        return 1
    rp, sig = d["replay"], d.get("signature", {})
    if sig.get("oracle") == "builder":
        from harness import oracle_builder as O
        from harness.impl_builder import BuilderImpl
        impl = BuilderImpl()
        out = [impl.step(l) for l in rp["ops"]]
        v = O.check(rp["ops"], out, True)
        p = v[1] if v else None
    else:
        from harness import amp_scen as A
        fn = A.run_scenario if rp["harness"].endswith("run_scenario") else A.directed
        sim, orc = fn(rp["seed"], rp["mode"]) if fn is A.directed else fn(rp["seed"], rp["mode"], steps=90)
        sim.close_taps()
        hits = [t for k, t in orc.problems if k == sig.get("kind")] or [t for _, t in orc.problems]
        if not hits and fn is A.run_scenario:
            sim, orc = fn(rp["seed"], rp["mode"], steps=140)      # thorough-tier length
            sim.close_taps()
            hits = [t for _, t in orc.problems]
        p = hits[0] if hits else None
    print("still failing: " + p if p else "no longer failing")
    return 1 if p else 0
