"""C17 (TLS part) — TLS handshake message codecs of aioquic/tls.py.

Exports `run(ctx, tier)` (called from checks/c17.py after tree.activate());
`main(tier)` runs it standalone.

oracle (independent of aioquic, harness/tls_ref.py written from RFC 8446):
  * push_X(v) bytes == reference encoder, pull_X(push_X(v)) == v, reference
    decoder reads the same value back            (random values, all optional
    extensions present / absent, empty and long vectors)
  * arbitrary / mutated bytes: aioquic either raises the documented parse error
    (tls.Alert / BufferReadError) or yields a value that re-encodes to an
    equivalent message; it never accepts what the strict reference decoder
    rejects (= reading past the declared length of an enclosing field)
  * every known extension of every message with its `extension_data` length
    rewritten must be rejected
proof:  AQ.Props.C17tls (codec combinators block / list / opaque / uintBE with
        round-trip and boundedness laws; message instances)
"""
import copy

from harness import core, rng, tree
from harness import tls_ref as REF

KINDS = ["client_hello", "server_hello", "new_session_ticket", "encrypted_extensions", "certificate",
         "certificate_request", "certificate_verify", "finished"]


def api(tls, kind):
    return getattr(tls, "pull_" + kind), getattr(tls, "push_" + kind)


def push(tls, kind, v, cap=70000):
    from aioquic.buffer import Buffer
    b = Buffer(capacity=cap)
    api(tls, kind)[1](b, v)
    return b.data


def pull(tls, kind, data):
    from aioquic.buffer import Buffer
    b = Buffer(data=data)
    v = api(tls, kind)[0](b)
    assert b.eof()
    return v


def rb(r, n):
    return r.randbytes(n)


def rlist(r, f, lo=0, hi=4):
    return [f() for _ in range(r.randrange(lo, hi + 1))]


def rascii(r, lo=1, hi=12):
    return "".join(r.choice("abcdefghijklmnopqrstuvwxyz0123456789-.") for _ in range(r.randrange(lo, hi + 1)))


def rother(r):
    known = set(REF.EXT.values())
    out = []
    for _ in range(r.randrange(0, 3)):
        t = r.choice([0x39, 0xFFA5, 5, 27, 44, 65486, r.randrange(0x10000)])
        if t not in known:
            out.append((t, rb(r, r.choice([0, 1, 5, 60]))))
    return out


def gen(tls, r, kind):
    """random well-formed value of the aioquic dataclass for `kind`"""
    u16 = lambda: r.choice([0, 1, 0x1301, 0x0403, 0xFFFF, r.randrange(0x10000)])
    opt = lambda f: f() if r.random() < 0.6 else None
    if kind == "client_hello":
        psk = None
        if r.random() < 0.4:
            n = r.randrange(1, 3)
            psk = tls.OfferedPsks(identities=[(rb(r, r.randrange(1, 20)), r.randrange(1 << 32)) for _ in range(n)],
                                  binders=[rb(r, r.choice([32, 48])) for _ in range(n)])
        return tls.ClientHello(
            random=rb(r, 32), legacy_session_id=rb(r, r.choice([0, 32])), cipher_suites=rlist(r, u16, 0, 5),
            legacy_compression_methods=rlist(r, lambda: r.randrange(256), 0, 2),
            alpn_protocols=opt(lambda: rlist(r, lambda: rascii(r), 0, 3)), early_data=r.random() < 0.3,
            key_share=rlist(r, lambda: (u16(), rb(r, r.choice([0, 1, 32, 65]))), 0, 3), pre_shared_key=psk,
            psk_key_exchange_modes=opt(lambda: rlist(r, lambda: r.randrange(256), 0, 2)),
            server_name=opt(lambda: rascii(r, 0, 30)), signature_algorithms=rlist(r, u16, 0, 6),
            supported_groups=rlist(r, u16, 0, 4), supported_versions=rlist(r, u16, 0, 3), other_extensions=rother(r))
    if kind == "server_hello":
        return tls.ServerHello(
            random=rb(r, 32), legacy_session_id=rb(r, r.choice([0, 32])), cipher_suite=u16(),
            compression_method=r.randrange(256), key_share=opt(lambda: (u16(), rb(r, r.choice([0, 32, 65])))),
            pre_shared_key=opt(u16), supported_version=opt(u16), other_extensions=rother(r))
    if kind == "new_session_ticket":
        return tls.NewSessionTicket(
            ticket_lifetime=r.choice([0, 1, 86400, 0xFFFFFFFF]), ticket_age_add=r.randrange(1 << 32),
            ticket_nonce=rb(r, r.choice([0, 1, 255])), ticket=rb(r, r.choice([0, 1, 64, 300])),
            max_early_data_size=opt(lambda: r.choice([0, 0xFFFFFFFF, r.randrange(1 << 32)])), other_extensions=rother(r))
    if kind == "encrypted_extensions":
        return tls.EncryptedExtensions(alpn_protocol=opt(lambda: rascii(r, 1, 10)), early_data=r.random() < 0.3,
                                       other_extensions=rother(r))
    if kind == "certificate":
        return tls.Certificate(request_context=rb(r, r.choice([0, 0, 1, 255])),
                               certificates=rlist(r, lambda: (rb(r, r.choice([0, 1, 300, 1200])), rb(r, r.choice([0, 0, 7]))), 0, 3))
    if kind == "certificate_request":
        return tls.CertificateRequest(request_context=rb(r, r.choice([0, 1, 255])), signature_algorithms=rlist(r, u16, 0, 6),
                                      other_extensions=rother(r))
    if kind == "certificate_verify":
        return tls.CertificateVerify(algorithm=u16(), signature=rb(r, r.choice([0, 1, 64, 256, 512])))
    if kind == "finished":
        return tls.Finished(verify_data=rb(r, r.choice([0, 32, 48, 1])))
    raise ValueError(kind)


def to_ref(kind, v):
    """aioquic dataclass -> reference dict, extensions in the order push_* writes them"""
    if kind == "client_hello":
        ex = []
        for name, val in (("key_share", v.key_share), ("supported_versions", v.supported_versions),
                          ("signature_algorithms", v.signature_algorithms), ("supported_groups", v.supported_groups),
                          ("psk_key_exchange_modes", v.psk_key_exchange_modes), ("server_name", v.server_name),
                          ("alpn", v.alpn_protocols)):
            if val is not None:
                ex.append((name, val))
        ex += [(int(t), bytes(d)) for t, d in v.other_extensions]
        if v.early_data:
            ex.append(("early_data", True))
        if v.pre_shared_key is not None:
            ex.append(("pre_shared_key", (v.pre_shared_key.identities, v.pre_shared_key.binders)))
        return {"random": v.random, "session_id": v.legacy_session_id, "cipher_suites": v.cipher_suites,
                "compression": v.legacy_compression_methods, "extensions": ex}
    if kind == "server_hello":
        ex = []
        if v.supported_version is not None:
            ex.append(("supported_versions", v.supported_version))
        if v.key_share is not None:
            ex.append(("key_share", v.key_share))
        if v.pre_shared_key is not None:
            ex.append(("pre_shared_key", v.pre_shared_key))
        ex += [(int(t), bytes(d)) for t, d in v.other_extensions]
        return {"random": v.random, "session_id": v.legacy_session_id, "cipher_suite": v.cipher_suite,
                "compression": v.compression_method, "extensions": ex}
    if kind == "new_session_ticket":
        ex = [("early_data", v.max_early_data_size)] if v.max_early_data_size is not None else []
        ex += [(int(t), bytes(d)) for t, d in v.other_extensions]
        return {"lifetime": v.ticket_lifetime, "age_add": v.ticket_age_add, "nonce": v.ticket_nonce, "ticket": v.ticket,
                "extensions": ex}
    if kind == "encrypted_extensions":
        ex = [("alpn", [v.alpn_protocol])] if v.alpn_protocol is not None else []
        if v.early_data:
            ex.append(("early_data", True))
        ex += [(int(t), bytes(d)) for t, d in v.other_extensions]
        return {"extensions": ex}
    if kind == "certificate":
        return {"context": v.request_context, "certificates": [(bytes(a), bytes(b)) for a, b in v.certificates]}
    if kind == "certificate_request":
        ex = [("signature_algorithms", v.signature_algorithms)] if v.signature_algorithms is not None else []
        ex += [(int(t), bytes(d)) for t, d in v.other_extensions]
        return {"context": v.request_context, "extensions": ex}
    if kind == "certificate_verify":
        return {"algorithm": v.algorithm, "signature": v.signature}
    return {"verify_data": v.verify_data}


def norm(kind, d):
    """order-insensitive view of a reference dict (known extensions by name,
    unknown in order); None when an extension type is duplicated"""
    d = copy.deepcopy(d)
    ex = d.pop("extensions", None)
    if ex is not None:
        names = [k for k, _ in ex]
        if len(set(names)) != len(names):
            return None
        known = {}
        for k, v in ex:
            if isinstance(k, str):
                if k == "server_name":
                    v = v[1] if isinstance(v, tuple) else v.encode("ascii")
                if k == "alpn":
                    v = [x if isinstance(x, bytes) else x.encode("ascii") for x in v]
                if k == "key_share" and isinstance(v, list):
                    v = [tuple(x) for x in v]
                if k == "pre_shared_key" and isinstance(v, tuple):
                    v = ([tuple(x) for x in v[0]], list(v[1]))
                known[k] = v
        d["known"] = known
        d["unknown"] = [(k, v) for k, v in ex if not isinstance(k, str)]
    for k, v in list(d.items()):
        if isinstance(v, (bytes, bytearray)):
            d[k] = bytes(v)
    return d


def lenient(kind, n):
    """documented leniencies of the decoder: non-ASCII ALPN names are skipped
    (GREASE), EncryptedExtensions keeps the first ALPN name"""
    if n is None:
        return None
    a = n.get("known", {}).get("alpn")
    if a is not None:
        a = [x for x in a if all(c < 128 for c in x)]
        if kind == "encrypted_extensions":
            a = a[:1]
        n["known"]["alpn"] = a
    return n


def parse_outcome(tls, kind, data):
    """('ok', value) | ('err', exc) | ('escape', exc)"""
    from aioquic.buffer import BufferReadError
    try:
        return "ok", pull(tls, kind, data)
    except (tls.Alert, BufferReadError) as exc:
        return "err", exc
    except Exception as exc:   # noqa: anything else is not a documented parse error
        return "escape", exc


def ref_outcome(data):
    try:
        return REF.decode(data)
    except REF.RefError as exc:
        return None, exc
    except UnicodeError as exc:
        return None, exc


def check_value(ctx, tls, kind, v, key, corr=True):
    """encode with the library, compare with the RFC 8446 reference encoder, decode back with the
    library and with the reference decoder"""
    data = push(tls, kind, v, cap=(1 << 24) + 70000)
    ctx.count(("rt", kind, key), True)
    want = REF.encode(kind, to_ref(kind, v))
    if data != want:
        ctx.witness(f"push_{kind} bytes differ from the RFC 8446 reference encoder", {"value": repr(v)[:400],
                    "aioquic": data.hex()[:4000], "reference": want.hex()[:4000]}, {"oracle": "encode-differs", "message": kind})
        return
    st, back = parse_outcome(tls, kind, data)
    if corr:
        CORR.append((data.hex(), st))
    if st != "ok" or back != v:
        ctx.witness(f"pull_{kind}(push_{kind}(v)) != v ({len(data)}-byte message): {back!r}"[:300],
                    {"value": repr(v)[:400], "bytes": data.hex()[:4000], "length": len(data),
                     "rebuild": f"checks.c17_tls: {key}"}, {"oracle": "roundtrip", "message": kind})
    k2, d2 = ref_outcome(data)
    if k2 != kind or norm(kind, d2) != norm(kind, to_ref(kind, v)):
        ctx.witness(f"reference decoder reads push_{kind}(v) differently", {"value": repr(v)[:400], "bytes": data.hex()[:4000]},
                    {"oracle": "cross-decode", "message": kind})


def roundtrips(ctx, tls, r, n):
    for kind in KINDS:
        for i in range(n):
            check_value(ctx, tls, kind, gen(tls, r, kind), i)


def prefix_boundaries(tls, thorough):
    """every length prefix of every message at the edges of its width: for an n-byte prefix the lengths
    0, 1, 255, 256, 65535, 65536, 65537 (and 2^24-1 in the thorough tier) where n allows, so that 3-byte
    prefixes (message bodies, certificate_list, cert_data) are exercised beyond 2^16"""
    def pat(n, salt=0):
        return bytes((i * 31 + salt) % 251 for i in range(n)) if n < 4096 else bytes([salt % 251]) * n
    l1 = [0, 1, 255]
    l2 = l1 + [256, 65535]
    l3 = l2 + [65536, 65537, 70000] + ([(1 << 24) - 1 - 16] if thorough else [])
    for n in l3:                                   # 3-byte message length only
        yield "finished", tls.Finished(verify_data=pat(n, 1)), f"finished/verify_data={n}"
    for n in l2:                                   # 2-byte signature; body = n + 4
        yield "certificate_verify", tls.CertificateVerify(algorithm=0x0804, signature=pat(n, 2)), f"cv/signature={n}"
    for n in l3:                                   # 3-byte cert_data inside 3-byte certificate_list inside the body
        yield "certificate", tls.Certificate(request_context=b"", certificates=[(pat(n, 3), b"")]), f"cert/cert_data={n}"
    for n in l2:
        yield "certificate", tls.Certificate(request_context=pat(n % 256, 4), certificates=[(b"\x01", pat(n, 5))]), \
            f"cert/entry_extensions={n}"
    for k in (1, 2, 300):                          # certificate_list >= 64 KiB made of many entries
        yield "certificate", tls.Certificate(request_context=b"", certificates=[(pat(300, k), b"")] * k), f"cert/entries={k}"
    for n in l2:
        yield "new_session_ticket", tls.NewSessionTicket(ticket_lifetime=1, ticket_age_add=2, ticket_nonce=pat(n % 256, 6),
                                                         ticket=pat(n, 7)), f"nst/ticket={n}"
    for n in l1 + [256, 65531]:                    # one unknown extension filling the 2-byte extensions block
        ext = [(0xFFA5, pat(n, 8))]
        yield "encrypted_extensions", tls.EncryptedExtensions(other_extensions=ext), f"ee/ext_data={n}"
        yield "certificate_request", tls.CertificateRequest(request_context=b"", signature_algorithms=[0x0804],
                                                            other_extensions=[(0xFFA5, pat(min(n, 65000), 9))]), f"cr/ext_data={n}"
        yield "server_hello", tls.ServerHello(random=pat(32), legacy_session_id=pat(32), cipher_suite=0x1301,
                                              compression_method=0, other_extensions=[(0xFFA5, pat(n, 10))]), f"sh/ext_data={n}"
        yield "client_hello", tls.ClientHello(random=pat(32), legacy_session_id=pat(n % 33), cipher_suites=[0x1301] * (n % 9),
                                              legacy_compression_methods=[0], key_share=None, signature_algorithms=None,
                                              supported_groups=None, supported_versions=None,
                                              other_extensions=[(0xFFA5, pat(n, 11))]), f"ch/ext_data={n}"


def length_boundaries(ctx, tls, thorough):
    for kind, v, key in prefix_boundaries(tls, thorough):
        try:
            # messages above 100 kB are compared on the implementation only (not sent through the driver)
            big = key.endswith(str((1 << 24) - 1 - 16))
            check_value(ctx, tls, kind, v, key, corr=not big)
        except Exception as exc:   # the library cannot encode its own well-formed value
            ctx.witness(f"push_{kind} raised {type(exc).__name__}: {exc} on a well-formed value ({key})",
                        {"rebuild": f"checks.c17_tls: {key}"}, {"oracle": "encode-raises", "message": kind})


class Vec:
    """a vector with an n-byte length prefix whose content is a list of parts (bytes or Vec); written from
    the RFC 8446 presentation language, independent of tls.py"""
    def __init__(self, n, *parts, name=""):
        self.n, self.parts, self.name = n, list(parts), name

    def content(self, lie):
        return b"".join(p.encode(lie) if isinstance(p, Vec) else p for p in self.parts)

    def encode(self, lie=None):
        c = self.content(lie)
        n = len(c) + (lie[1] if lie is not None and lie[0] is self else 0)
        if n < 0 or n >= 1 << (8 * self.n):
            raise ValueError("length out of range")
        return n.to_bytes(self.n, "big") + c

    def walk(self, path=""):
        here = f"{path}/{self.name}" if self.name else path
        yield self, here
        for i, p in enumerate(self.parts):
            if isinstance(p, Vec):
                yield from p.walk(f"{here}[{i}]" if not p.name else here)


def message_trees():
    """(kind, handshake type, body tree) with every nested vector tls.py parses, each extension both LAST and
    NOT LAST in the extensions block, followed by ASCII-looking / valid-looking bytes"""
    u16 = lambda v: v.to_bytes(2, "big")
    ext = lambda t, *parts, name: [u16(t), Vec(2, *parts, name=f"ext:{name}")]
    sni = lambda h: ext(0, Vec(2, b"\x00", Vec(2, h, name="host"), name="names"), name="server_name")
    alpn = lambda *ps: ext(16, Vec(2, *[Vec(1, p, name="proto") for p in ps], name="protos"), name="alpn")
    ks = lambda *es: ext(51, Vec(2, *[x for g, k in es for x in (u16(g), Vec(2, k, name="key"))], name="shares"),
                         name="key_share")
    vers = ext(43, Vec(1, u16(0x0304), u16(0x0303), name="versions"), name="supported_versions")
    sig = ext(13, Vec(2, u16(0x0804), u16(0x0403), name="algs"), name="signature_algorithms")
    grp = ext(10, Vec(2, u16(29), u16(23), name="groups"), name="supported_groups")
    modes = ext(45, Vec(1, b"\x01", name="modes"), name="psk_modes")
    psk = ext(41, Vec(2, Vec(2, b"ticket-id", name="identity"), bytes(4), Vec(2, b"id2", name="identity"), bytes(4),
                      name="identities"),
              Vec(2, Vec(1, b"B" * 32, name="binder"), Vec(1, b"C" * 32, name="binder"), name="binders"), name="psk")
    unknown = ext(0xFFA5, b"opaque", name="unknown")
    head = [u16(0x0303), bytes(range(32)), Vec(1, bytes(32), name="session_id")]
    ch = lambda exts: head + [Vec(2, u16(0x1301), u16(0x1302), name="suites"), Vec(1, b"\x00", name="compression"),
                              Vec(2, *[x for e in exts for x in e], name="extensions")]
    orders = [
        [vers, sni(b"example.com"), alpn(b"h3", b"hq-interop"), ks((29, b"K" * 32), (23, b"L" * 65)), sig, grp, modes, psk],
        [ks((29, b"K" * 32)), alpn(b"h3"), unknown, grp, sig, modes, vers, sni(b"a.b")],
        [sni(b"host.example"), ks((29, b"k" * 32), (23, b"l" * 65)), sig, vers, alpn(b"h3", b"h3-29")],
    ]
    for i, o in enumerate(orders):
        yield "client_hello", 1, Vec(3, *ch(o), name=f"ClientHello#{i}")
    sh = lambda exts: head + [u16(0x1301), b"\x00", Vec(2, *[x for e in exts for x in e], name="extensions")]
    sh_ks = ext(51, u16(29), Vec(2, b"S" * 32, name="key"), name="key_share")
    sh_v = ext(43, u16(0x0304), name="supported_version")
    sh_p = ext(41, u16(0), name="psk")
    for i, o in enumerate([[sh_v, sh_ks, sh_p], [sh_ks, unknown, sh_v]]):
        yield "server_hello", 2, Vec(3, *sh(o), name=f"ServerHello#{i}")
    ed = ext(42, (7).to_bytes(4, "big"), name="early_data")
    yield "new_session_ticket", 4, Vec(3, bytes(8), Vec(1, b"nonce", name="nonce"), Vec(2, b"T" * 40, name="ticket"),
                                     Vec(2, *ed, *unknown, name="extensions"), name="NewSessionTicket")
    for i, o in enumerate([[alpn(b"h3"), unknown], [unknown, ext(42, name="early_data"), alpn(b"h3")]]):
        yield "encrypted_extensions", 8, Vec(3, Vec(2, *[x for e in o for x in e], name="extensions"),
                                             name=f"EncryptedExtensions#{i}")
    entry = lambda c, e: [Vec(3, c, name="cert_data"), Vec(2, e, name="entry_extensions")]
    yield "certificate", 11, Vec(3, Vec(1, b"ctx", name="context"),
                                  Vec(3, *entry(b"CERT-ONE" * 8, b""), *entry(b"cert-two" * 5, b"\x00\x05\x00\x00"),
                                      *entry(b"c3", b""), name="certificate_list"), name="Certificate")
    yield "certificate_request", 13, Vec(3, Vec(1, b"rq", name="context"), Vec(2, *sig, *unknown, name="extensions"),
                                          name="CertificateRequest#0")
    yield "certificate_request", 13, Vec(3, Vec(1, b"", name="context"), Vec(2, *unknown, *sig, name="extensions"),
                                          name="CertificateRequest#1")
    yield "certificate_verify", 15, Vec(3, u16(0x0804), Vec(2, b"S" * 64, name="signature"), name="CertificateVerify")


def nested_length_lies(ctx, tls, thorough):
    """for EVERY length prefix of every nesting level: the declared length overruns its enclosing block by
    1..k bytes or stops short by 1..k, all OUTER lengths staying consistent with the bytes actually present.
    Oracle: the strict RFC 8446 reference decoder rejects <=> pull_* raises the documented parse error;
    accepted inputs must re-encode equivalently (judge_bytes)."""
    stats = {}
    deltas = [1, 2, 3, 4, 5, 8, 13, -1, -2, -3] + ([6, 7, 9, 16, 32, -4, -8] if thorough else [])
    for kind, t, tree in message_trees():
        clean = bytes([t]) + tree.encode()
        ctx.count(("lie", kind, tree.name, "clean"), True)
        judge_bytes(ctx, tls, kind, clean, f"{tree.name} unmodified", stats)
        st, _ = parse_outcome(tls, kind, clean)
        if st != "ok":
            ctx.witness(f"pull_{kind} refuses a well-formed message written from RFC 8446 ({tree.name})",
                        {"bytes": clean.hex()}, {"oracle": "rejects-wellformed", "message": kind})
        for node, path in tree.walk():
            if node is tree:
                continue            # the message length itself: covered by prefix_boundaries / arbitrary
            for d in deltas:
                try:
                    data = bytes([t]) + tree.encode((node, d))
                except ValueError:
                    continue
                origin = f"{path}: declared length {'+' if d > 0 else ''}{d}, outer lengths consistent"
                ctx.count(("lie", kind, path, d), True)
                judge_bytes(ctx, tls, kind, data, origin, stats)
                st, _ = parse_outcome(tls, kind, data)
                rk, _ = ref_outcome(data)
                if st == "err" and rk is not None:
                    ctx.witness(f"pull_{kind} refuses bytes the strict RFC 8446 decoder accepts ({origin})",
                                {"bytes": data.hex()}, {"oracle": "rejects-wellformed", "message": kind})
    ctx.notes["tls_nested_length_lies"] = stats


CORR = []      # (hex, implementation outcome) for the Lean acceptance model


def judge_bytes(ctx, tls, kind, data, origin, stats):
    """arbitrary bytes handed to pull_<kind>"""
    st, v = parse_outcome(tls, kind, data)
    if st != "escape" and data:
        CORR.append((data.hex(), st))
    rk, rd = ref_outcome(data)
    stats[st] = stats.get(st, 0) + 1
    if st == "escape":
        ctx.witness(f"pull_{kind} raised {type(v).__name__}: {v} — not the documented parse error ({origin})",
                    {"bytes": data.hex()}, {"oracle": "parse-escape", "message": kind, "exception": type(v).__name__})
        return
    if st == "err":
        return
    if rk is None:
        ctx.witness(f"pull_{kind} accepts bytes the strict RFC 8446 decoder rejects ({rd}) — a field was read past / short "
                    f"of its declared length ({origin})", {"bytes": data.hex(), "parsed": repr(v)[:300]},
                    {"oracle": "accepts-malformed", "message": kind})
        return
    try:
        again = push(tls, kind, v)
    except Exception as exc:   # noqa
        ctx.witness(f"pull_{kind} accepts a message whose value push_{kind} cannot encode: {type(exc).__name__}: {exc} ({origin})",
                    {"bytes": data.hex(), "parsed": repr(v)[:300]},
                    {"oracle": "no-reencode", "message": kind, "exception": type(exc).__name__})
        return
    k2, d2 = ref_outcome(again)
    a, b = lenient(kind, norm(kind, rd)), lenient(kind, norm(kind, d2) if k2 else None)
    if a is not None and a != b:
        ctx.witness(f"pull_{kind} then push_{kind} is not an equivalent encoding ({origin})",
                    {"bytes": data.hex(), "reencoded": again.hex()}, {"oracle": "reencode-differs", "message": kind})


def extension_lengths(ctx, tls, r):
    """every known extension of every message kind, declared length rewritten"""
    affected = []
    for kind in KINDS:
        for _ in range(40):
            v = gen(tls, r, kind)
            data = push(tls, kind, v)
            k, spans = REF.extension_spans(data)
            for t, off, n in spans:
                if t not in REF.KNOWN.get(kind, ()):
                    continue
                for new in {0, n + 1, max(0, n - 1), 0xFFFF} - {n}:
                    bad = data[:off] + new.to_bytes(2, "big") + data[off + 2:]
                    st, got = parse_outcome(tls, kind, bad)
                    ctx.count(("extlen", kind, t, new - n), True)
                    if st == "ok":
                        name = REF.NAME[t]
                        if (kind, name) not in affected:
                            affected.append((kind, name))
                            ctx.witness(
                                f"pull_{kind}: `{name}` extension with extension_data length rewritten from {n} to {new} "
                                f"parses as before — the extension body is read without regard to its declared length",
                                {"message": kind, "extension": name, "bytes": bad.hex(), "original": data.hex()},
                                {"oracle": "extension-length", "message": kind, "extension": name})
    ctx.notes["extension_length_ignored"] = [f"{k}.{n}" for k, n in affected]


def mutate(r, m):
    body = bytearray(m)
    for _ in range(r.choice([1, 1, 2, 3])):
        k = r.random()
        if k < 0.35 and body:
            i = r.randrange(len(body))
            body[i] = r.choice([body[i] ^ (1 << r.randrange(8)), 0, 0xFF, r.randrange(256)])
        elif k < 0.5 and body:
            body = body[:r.randrange(len(body))]
        elif k < 0.65:
            i = r.randrange(len(body) + 1)
            body[i:i] = r.randbytes(r.choice([1, 2, 4]))
        elif k < 0.8 and body:
            i = r.randrange(len(body))
            del body[i:i + r.choice([1, 2, 4])]
        elif len(body) > 6:
            i = r.randrange(4, len(body) - 1)
            x = int.from_bytes(body[i:i + 2], "big")
            body[i:i + 2] = (r.choice([0, x + 1, max(0, x - 1), 0xFFFF, len(body) - i - 2]) & 0xFFFF).to_bytes(2, "big")
    while len(body) < 4:
        body.append(0)
    # Context.handle_message hands the parsers exactly one framed message
    body[1:4] = (len(body) - 4).to_bytes(3, "big")
    return bytes(body)


def arbitrary(ctx, tls, r, n):
    stats = {}
    for kind in KINDS:
        t = REF.encode(kind, to_ref(kind, gen(tls, r, kind)))[0]
        for i in range(n):
            if r.random() < 0.1:
                body = r.randbytes(r.choice([0, 1, 3, 10, 40]))
                data = bytes([t]) + len(body).to_bytes(3, "big") + body
                origin = "random body"
            else:
                data = mutate(r, push(tls, kind, gen(tls, r, kind)))
                origin = "mutated"
            if not data or data[0] != t:
                continue        # pull_<kind> asserts the type; the dispatcher guarantees it
            ctx.count(("arb", kind, i), True)
            judge_bytes(ctx, tls, kind, data, origin, stats)
    ctx.notes["tls_arbitrary"] = stats


def run(ctx, tier):
    from aioquic import tls
    thorough = tier == "thorough"
    r = rng.make("c17-tls")
    roundtrips(ctx, tls, r, 1500 if thorough else 150)
    length_boundaries(ctx, tls, thorough)
    nested_length_lies(ctx, tls, thorough)
    extension_lengths(ctx, tls, r)
    arbitrary(ctx, tls, r, 20000 if thorough else 1200)
    correspond(ctx)


def correspond(ctx):
    """T2: the Lean acceptance model (AQ.TlsCodec.accepts, fixed code) against pull_* on the same bytes"""
    from harness import lean
    global CORR
    cases, CORR = CORR, []
    out = lean.run_driver([f"tlsc.check {h}" for h, _ in cases])
    bad = 0
    for (h, st), m in zip(cases, out):
        if m != st:
            bad += 1
            if bad <= 3:
                ctx.disagreement("tls-codec/accepts", [f"tlsc.check {h}"], m, st, 0)
    ctx.cov["traces_validated_against_impl"] += len(cases)
    ctx.notes["tls_codec_correspondence"] = {"cases": len(cases), "mismatches": bad}


def main(tier):
    ctx = core.Ctx("C17", tier)
    tree.activate()
    ctx.prove(["AQ.Props.C17tls"], [])
    run(ctx, tier)
    ctx.cov["rule"] = ("TLS section only: random values of all 8 handshake message kinds (optional extensions present/absent, "
                       "empty and long vectors) for encode-vs-reference, round trip and cross decode; all known extensions "
                       "with rewritten extension_data length; mutated / random bytes against the strict reference decoder")
    return ctx.finish()


TLS_ORACLES = {"encode-differs", "roundtrip", "cross-decode", "parse-escape", "accepts-malformed", "no-reencode",
               "reencode-differs", "extension-length", "encode-raises", "rejects-wellformed"}


def owns(d):
    """does this replay file come from the TLS section?"""
    sig = d.get("signature", {})
    return sig.get("oracle") in TLS_ORACLES and sig.get("message") in KINDS


def replay_witness(d):
    """re-execute a recorded TLS codec witness (bytes) on the current tree; call after tree.activate().
    Returns the list of problems that reproduce (empty = no longer failing)."""
    from aioquic import tls
    sig, rep = d.get("signature", {}), d.get("replay", {})
    kind, oracle = sig["message"], sig["oracle"]
    ctx = core.Ctx("replay", "quick")
    if oracle == "extension-length":
        st, _ = parse_outcome(tls, kind, bytes.fromhex(rep["bytes"]))
        return [f"pull_{kind} still accepts the {rep.get('extension')} extension with a rewritten length"] if st == "ok" else []
    if oracle == "encode-differs":
        st, v = parse_outcome(tls, kind, bytes.fromhex(rep["aioquic"]))
        if st != "ok":
            return [f"pull_{kind} no longer reads its own encoding: {v!r}"]
        data, want = push(tls, kind, v), REF.encode(kind, to_ref(kind, v))
        return [] if data == want else [f"push_{kind} still differs from the reference encoder: {data.hex()} vs {want.hex()}"]
    data = bytes.fromhex(rep["bytes"])
    judge_bytes(ctx, tls, kind, data, "replay", {})
    out = [w["what"] for w in ctx.witnesses]
    if oracle in ("roundtrip", "cross-decode") and not out:
        st, v = parse_outcome(tls, kind, data)
        if st != "ok" or push(tls, kind, v) != data:
            out.append(f"pull_{kind} / push_{kind} still do not round-trip these bytes")
        rk, rd = ref_outcome(data)
        if rk != kind or norm(kind, rd) != norm(kind, to_ref(kind, v) if st == "ok" else {}):
            out.append("the reference decoder still reads these bytes differently")
    CORR.clear()
    return out
