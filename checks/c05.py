"""C05 — network input can never make the QUIC API raise (QUIC part).

proof:   AQ.Props.C05 (recv_total, after_close_total, tables_ok) over the tables
         regenerated from connection.py/packet.py by tools/extract_recv.py on every
         run; AQ.Props.C05Frames (per-handler byte-level models, header parser)
tie:     T1 translator (handler table, epochs, except clauses, END_STATES) +
         T2 correspondence: injected single-frame packets, model outcome class
         (processed / closed <code>) vs the real connection's
oracle:  NO exception may escape receive_datagram / get_timer / handle_timer /
         datagrams_to_send / next_event of either endpoint, on (a) random /
         mutated-genuine / truncated / coalesced datagrams, (b) key-holding-peer
         packets with every frame type x boundary values x epochs, truncated and
         repeated, (c) hostile transport parameters; after each hostile input the
         timer / transmit / event calls are driven until termination is reported.
"""
import json
import logging
import os
import sys
import time

from harness import core, lean, rng, tree

HERE = os.path.dirname(os.path.dirname(os.path.abspath(__file__)))


# --------------------------------------------------------------------------- generators
def rand_mut(r):
    k = r.random()
    if k < 0.25:
        return ["flip", r.randrange(0, 60), r.randrange(8)]
    if k < 0.45:
        return ["set", r.randrange(0, 40), r.choice([0, 1, 0x40, 0x80, 0xC0, 0xFF, 20, 21, 255, r.randrange(256)])]
    if k < 0.6:
        return ["trunc", r.randrange(0, 1300)]
    if k < 0.7:
        return ["append", bytes(r.getrandbits(8) for _ in range(r.randrange(1, 40))).hex()]
    if k < 0.8:
        return ["coalesce", r.randrange(0, 50)]
    if k < 0.85:
        return ["precoalesce", r.randrange(0, 50)]
    if k < 0.9:
        return ["insert", r.randrange(0, 30), bytes(r.getrandbits(8) for _ in range(r.randrange(1, 5))).hex()]
    if k < 0.95:
        return ["delete", r.randrange(0, 30), r.randrange(1, 5)]
    return ["flip", r.randrange(0, 1300), r.randrange(8)]


def rand_datagram_input(r):
    k = r.random()
    if k < 0.15:
        n = r.choice([0, 1, 2, 5, 7, 20, 21, 50, 1200, 1300, 4000])
        return {"k": "raw", "hex": bytes(r.getrandbits(8) for _ in range(n)).hex()}
    if k < 0.35:
        first = r.choice([0x40, 0x41, 0x5F, 0x7F, 0xC0, 0xC3, 0xD0, 0xE0, 0xF0, 0xFF, 0x80, 0x00, r.randrange(256)])
        d = {"k": "header", "first": first, "version": r.choice([1, 0x6B3343CF, 0, 2, 0xFF00001D, 0x1A2A3A4A]),
             "rest": bytes(r.getrandbits(8) for _ in range(r.choice([0, 1, 2, 4, 16, 17, 20, 40, 1200]))).hex()}
        for f in ("dcil", "scil"):
            v = r.choice([None, 0, 8, 20, 21, 255])
            if v is not None:
                d[f] = v
        return d
    if k < 0.45:
        return {"k": "retry", "token_len": r.choice([0, 1, 16, 1000]), "version": r.choice([1, 0x6B3343CF]),
                "mut": [rand_mut(r)] if r.random() < 0.5 else []}
    if k < 0.55:
        return {"k": "vn", "versions": r.choice([[], [1], [0x6B3343CF], [1, 0x6B3343CF], [0x1A2A3A4A], [0] * 10]),
                "mut": [rand_mut(r)] if r.random() < 0.5 else []}
    d = {"k": "genuine", "idx": r.randrange(100), "mut": [rand_mut(r) for _ in range(r.choice([0, 1, 1, 2, 3]))]}
    if r.random() < 0.1:
        d["addr"] = ["9.9.9.9", 999]
    return d


# --------------------------------------------------------------------------- oracle
class Oracle:
    def __init__(self, ctx):
        self.ctx = ctx
        self.seen = set()
        self.calls = 0
        self.terminated = 0
        self.outcomes = {}

    def judge(self, R, scn, res, kind="scenario"):
        """the property: nothing escaped the five public calls"""
        self.calls += res.post_calls + res.applied
        self.terminated += 1 if res.terminated else 0
        for o in res.outcomes:
            k = o.split()[0]
            self.outcomes[k] = self.outcomes.get(k, 0) + 1
        for x in res.raises:
            if x["api"] not in R.PUBLIC:
                continue
            sig = {"exception": x["exception"], "function": x["function"]}
            key = (sig["exception"], sig["function"], x["api"])
            if key in self.seen:
                continue
            self.seen.add(key)
            replay = dict(scn)
            replay["inputs"] = scn["inputs"][:max(res.consumed, 1)] if "inputs" in scn else None
            replay = self.minimise(R, replay, x) if kind == "scenario" else replay
            self.ctx.witness(
                f"{x['exception']} ({x['message']}) escaped {x['api']}() of the {x['endpoint']} "
                f"[innermost aioquic function: {x['function']}] — state {scn.get('role')}/{scn.get('state')}",
                {"kind": kind, "scenario": replay, "raise": x}, sig)

    @staticmethod
    def minimise(R, scn, x):
        """try the last input alone, then the shortest suffix that reproduces"""
        n = len(scn["inputs"])
        for k in [1, 2, 4, 8]:
            if k >= n:
                break
            s2 = dict(scn)
            s2["inputs"] = scn["inputs"][-k:]
            r2 = R.run_scenario(s2)
            if any(y["exception"] == x["exception"] and y["function"] == x["function"] for y in r2.raises):
                return s2
        return scn


def frame_inputs(R, r, epoch, items, variant):
    out = []
    for label, p in items:
        d = {"k": "frames", "epoch": epoch, "hex": p.hex(), "label": label}
        if variant == "pad":
            d["pad_to"] = 1200
        if r.random() < 0.03:
            d["reserved"] = True
        out.append(d)
    return out


def phase_datagrams(ctx, R, orc, r, n_per_state, states):
    for role in ("client", "server"):
        for state in states:
            for _ in range(n_per_state):
                scn = {"role": role, "state": state, "seed": r.randrange(1000),
                       "post": r.choice(["silent", "continue"]), "qlog": r.random() < 0.3,
                       "interleave": r.choice([0, 0, 1, 3]), "post_api": r.random() < 0.3,
                       "inputs": [rand_datagram_input(r) for _ in range(r.choice([1, 5, 20]))]}
                res = R.run_scenario(scn)
                orc.judge(R, scn, res)
                ctx.count(("dgram", role, state, json.dumps(scn["inputs"], sort_keys=True)), res.applied > 0)


def phase_frames(ctx, R, orc, r, cat, per_cell, cells, chunk=10):
    """cells: list of (role, state, epoch)"""
    for role, state, epoch in cells:
        items = cat[:]
        r.shuffle(items)
        if per_cell is not None:
            items = items[:per_cell]
        i = 0
        while i < len(items):
            part = items[i:i + chunk]
            scn = {"role": role, "state": state, "seed": r.randrange(1000),
                   "post": r.choice(["silent", "continue"]), "stop_on_close": True, "qlog": r.random() < 0.2,
                   "post_api": r.random() < 0.3, "interleave": r.choice([0, 0, 2]),
                   "inputs": frame_inputs(R, r, epoch, part, r.choice(["plain", "plain", "pad"]))}
            res = R.run_scenario(scn)
            orc.judge(R, scn, res)
            if res.applied == 0:
                break               # the attacker has no keys for this epoch in this state
            for spec, o in zip(scn["inputs"], res.outcomes):
                ctx.count(("frame", role, state, epoch, spec["label"]), o != "skipped")
            i += max(res.consumed, 1)


def phase_truncate_repeat(ctx, R, orc, r, cat, n, states):
    for _ in range(n):
        role = r.choice(["client", "server"])
        state = r.choice(states)
        label, p = r.choice(cat)
        if r.random() < 0.5 and len(p) > 1:
            cut = r.randrange(1, len(p))
            specs = [{"k": "frames", "hex": p[:cut].hex(), "label": f"{label}[:{cut}]"}]
        else:
            reps = r.choice([2, 3, 10, 100])
            if r.random() < 0.5:
                body = (p * reps)[:1150]
                specs = [{"k": "frames", "hex": body.hex(), "label": f"{label}*{reps}"}]
            else:
                specs = [{"k": "frames", "hex": p.hex(), "label": f"{label}#{i}"} for i in range(min(reps, 10))]
        scn = {"role": role, "state": state, "seed": r.randrange(1000), "post": r.choice(["silent", "continue"]),
               "inputs": specs, "post_api": r.random() < 0.3}
        res = R.run_scenario(scn)
        orc.judge(R, scn, res)
        ctx.count(("trunc-rep", role, state, specs[0]["label"]), res.applied > 0)


def phase_migration(ctx, R, orc, r, n):
    """connection-ID switching by the peer: packets addressed to each of the victim's issued
    connection IDs, to retired and to unknown ones, in states where the victim holds no / one /
    several / no-longer-any spare peer connection ID (the migration block of receive_datagram
    calls change_connection_id())"""
    V = R.V
    states = R.SPARE_CID_STATES + ["connected", "streams", "keyupdate", "closepending"]
    dcids = [f"host:{i}" for i in range(8)] + ["retired:0", "retired:1", "unknown:8", "unknown:0", "unknown:20",
                                               "unknown:7", None]
    payloads = [b"\x01", b"\x00", b"\x1a" + bytes(8), b"\x19" + V(1), b"\x19" + V(2), b"\x19" + V(7),
                b"\x18" + V(9) + V(0) + bytes([8]) + bytes([9] * 8) + bytes(16),
                b"\x18" + V(3) + V(3) + bytes([8]) + bytes([3] * 8) + bytes(16), b"\x08\x00hello"]
    k = 0
    for role in ("server", "client"):
        for state in states:
            for _ in range(n):
                k += 1
                specs = []
                for _ in range(r.choice([1, 2, 4, 9])):
                    spec = {"k": "frames", "hex": r.choice(payloads).hex(), "dcid": r.choice(dcids)}
                    if spec["dcid"] is None:
                        del spec["dcid"]
                    if r.random() < 0.15:
                        spec["addr"] = ["9.9.9.9", 999]
                    specs.append(spec)
                if k % 3 == 0:      # systematically: a plain PING to every other issued CID, twice
                    specs = [{"k": "frames", "hex": "01", "dcid": f"host:{i}"} for i in range(8)] * 2
                scn = {"role": role, "state": state, "seed": r.randrange(1000), "post": r.choice(["silent", "continue"]),
                       "qlog": r.random() < 0.2, "post_api": r.random() < 0.5, "interleave": r.choice([0, 0, 2]),
                       "inputs": specs}
                res = R.run_scenario(scn)
                orc.judge(R, scn, res)
                ctx.count(("migration", role, state, json.dumps(specs, sort_keys=True)), res.applied > 0)


def phase_app_activity(ctx, R, orc, r, sample):
    """the "afterwards" clause with a FULL congestion window (every start_frame may stop the
    builder): a victim with streams in different lifecycle stages receives 1-RTT packets that
    combine an ACK of specific packets it sent (each single packet, prefixes, suffixes, all) with
    stream-control frames for its other streams (STOP_SENDING / RESET_STREAM / MAX_STREAM_DATA /
    MAX_STREAMS / MAX_DATA / STREAM+FIN, also for streams nobody used yet); then the timer /
    transmit / event calls are driven to termination."""
    V = R.V
    sids = [0, 1, 2, 3, 4, 5, 6, 7, 8, 9, 12, 13]
    ctl = [("none", b"")]
    for sid in sids:
        ctl += [(f"stop-{sid}", b"\x05" + V(sid) + V(7)), (f"reset-{sid}", b"\x04" + V(sid) + V(7) + V(0)),
                (f"msd-{sid}", b"\x11" + V(sid) + V(1 << 30)), (f"fin-{sid}", b"\x09" + V(sid))]
    ctl += [("maxstreams", b"\x12" + V(1 << 20)), ("maxdata", b"\x10" + V(1 << 40)), ("ping", b"\x01")]
    acks = [None] + [[i, i + 1] for i in range(0, 16)] + [[-1, None], [-2, None], [0, 2], [0, 4], [0, None], [2, None]]
    work = [(role, state, a, c) for role in ("server", "client") for state in R.APP_STATES for a in acks for c in ctl]
    if sample is not None:
        # exhaustively: every single-packet ACK of the first packets x every STOP_SENDING / RESET_STREAM,
        # for both roles; plus a sample of the rest
        core_ctl = [c for c in ctl if c[0].startswith(("stop-", "reset-"))]
        work = [(role, "appbusy", a, c) for role in ("server", "client") for a in acks[1:7] for c in core_ctl] \
            + r.sample(work, sample)
    for role, state, a, (label, frames) in work:
        specs = [{"k": "ackctl", "ack": a, "hex": frames.hex(), "label": label}]
        if r.random() < 0.2:
            a2, (l2, f2) = r.choice(acks), r.choice(ctl)
            specs.append({"k": "ackctl", "ack": a2, "hex": f2.hex(), "label": l2})
        scn = {"role": role, "state": state, "seed": r.randrange(1000), "post": r.choice(["silent", "continue"]),
               "qlog": r.random() < 0.1, "inputs": specs}
        res = R.run_scenario(scn)
        orc.judge(R, scn, res)
        ctx.count(("app-activity", role, state, json.dumps(specs)), res.applied > 0)


def phase_pn_order(ctx, R, orc, r, sample):
    """packet-number ORDER: a window of packet numbers of one space arrives in every permutation;
    each packet is ack-eliciting and / or acknowledges everything the victim has sent so far (also
    the packet that carried the victim's own ACKs: ACK of ACK), with or without the victim's delayed-
    ACK timer firing in between; then timer / transmit / event calls run to termination."""
    import itertools
    contents = ["ping", "ack", "ack+ping"]
    windows = [(3, 4, 5), (0, 1, 2), (1, 3, 5), (0, 2, 3, 5)]
    work = []
    for offs in windows:
        for perm in itertools.permutations(offs):
            for cont in itertools.product(contents, repeat=len(offs)):
                for timers in itertools.product([0, 1], repeat=len(offs)):
                    work.append((perm, cont, timers))
    if sample is not None:
        # every permutation x content assignment of the first window with the two most telling timer
        # patterns, plus a random sample of the rest
        first = [w for w in work if set(w[0]) == set(windows[0]) and w[2] in ((1, 0, 0), (1, 1, 0), (0, 0, 0), (1, 0, 1))]
        work = first + r.sample(work, sample)
    cells = [("server", "connected", "ONE_RTT"), ("client", "connected", "ONE_RTT"), ("server", "streams", "ONE_RTT"),
             ("client", "hs3", "HANDSHAKE"), ("server", "hs4", "HANDSHAKE"), ("client", "keyupdate", "ONE_RTT")]
    for i, (perm, cont, timers) in enumerate(work):
        role, state, epoch = cells[0] if i % 2 == 0 else r.choice(cells)
        specs = [{"k": "pnseq", "epoch": epoch, "off": o, "content": c, "timer": bool(t)}
                 for o, c, t in zip(perm, cont, timers)]
        scn = {"role": role, "state": state, "seed": r.randrange(1000), "post": r.choice(["silent", "continue"]),
               "qlog": r.random() < 0.1, "inputs": specs}
        res = R.run_scenario(scn)
        orc.judge(R, scn, res)
        ctx.count(("pn-order", role, state, json.dumps(specs)), res.applied > 0)


def phase_amplification(ctx, R, orc, r, cat, n):
    """a connection that decides to close while it may send (almost) nothing: (i) a server whose
    3x anti-amplification budget is used up (AMP_STATES) receives a fatal frame from a key-holding
    peer in every epoch, from the known and from another address, padded or not; (ii) an
    established server is moved to a new, unvalidated path by tiny datagrams and then receives the
    fatal frame.  Afterwards get_timer / handle_timer / datagrams_to_send / next_event are driven
    until termination."""
    other = ["9.9.9.9", 999]
    third = ["8.8.8.8", 888]
    fatal = [("stream", bytes.fromhex("0800")), ("unknown-type", b"\x1f"), ("handshake-done", b"\x1e"),
             ("crypto-garbage", bytes.fromhex("06004100") + bytes(61)), ("maxstreams-huge", b"\x12" + R.V((1 << 62) - 1)),
             ("close", bytes.fromhex("1c0a000000")), ("empty-stream-0rtt", bytes.fromhex("0a0000"))]
    for state in R.AMP_STATES:
        for epoch in ("INITIAL", "HANDSHAKE", "ONE_RTT", "ZERO_RTT"):
            for addr in (None, other):
                for pad in (None, 1200):
                    items = fatal + [r.choice(cat) for _ in range(n)]
                    for label, p in items:
                        spec = {"k": "frames", "epoch": epoch, "hex": p.hex(), "label": label}
                        if addr:
                            spec["addr"] = addr
                        if pad:
                            spec["pad_to"] = pad
                        scn = {"role": "server", "state": state, "seed": r.randrange(1000),
                               "post": r.choice(["silent", "continue"]), "qlog": r.random() < 0.2, "inputs": [spec]}
                        res = R.run_scenario(scn)
                        orc.judge(R, scn, res)
                        if res.applied == 0:
                            break
                        ctx.count(("amp", state, epoch, bool(addr), bool(pad), label), True)
    small = ["01", "00", "1a0102030405060708", "0100", "0a0000"]
    for role in ("server", "client"):
        for state in ("hs4", "hs5", "connected", "streams", "keyupdate"):
            for _ in range(n + 2):
                k = r.choice([1, 2, 4, 10])
                specs = [{"k": "frames", "hex": r.choice(small), "addr": other} for _ in range(k)]
                label, p = r.choice(fatal + [r.choice(cat)])
                specs.append({"k": "frames", "hex": p.hex(), "label": label, "addr": r.choice([other, other, third])})
                scn = {"role": role, "state": state, "seed": r.randrange(1000), "post": r.choice(["silent", "continue"]),
                       "interleave": r.choice([0, 0, 2]), "qlog": r.random() < 0.2, "inputs": specs}
                res = R.run_scenario(scn)
                orc.judge(R, scn, res)
                ctx.count(("amp-newpath", role, state, json.dumps(specs)), res.applied > 0)


def run_token_cases(ctx, R, orc, r, mds, n, cases):
    for c in cases:
        scn = {"role": "client", "seed": r.randrange(1000), "mds": mds, "post": r.choice(["silent", "continue"]),
               "qlog": r.random() < 0.2}
        scn.update(c)
        res = R.run_scenario(scn)
        orc.judge(R, scn, res)
        ctx.count(("retry-token", mds, n, scn["state"], json.dumps(scn["inputs"])), res.applied > 0)


TOKEN_LENGTHS = [0, 1, 63, 64, 255, 256, 1000] + list(range(1150, 1201, 5)) + [1250, 1400]


def phase_retry_tokens(ctx, R, orc, r, thorough):
    """address-validation tokens of every size in the client's Initial packets: supplied by a Retry
    with a valid integrity tag (any on-path host can compute it) or by `configuration.token`
    (NEW_TOKEN of an earlier connection), for max_datagram_size 1200 / 1350 / 1500; Retry after
    Retry, Version Negotiation before / after Retry.  After the input the client's
    get_timer / handle_timer / datagrams_to_send / next_event are driven until termination."""
    v2 = 0x6B3343CF
    states = ["fresh", "hs0", "hs2", "hs3", "connected"] if thorough else ["hs0", "hs2", "connected"]
    for second_pass in (False, True):
      for mds in (1200, 1350, 1500):
        for n in TOKEN_LENGTHS:
            cases = []
            if not second_pass:         # first: one accepted Retry alone, in every state
                for state in states:
                    cases.append({"state": state, "inputs": [{"k": "retry", "token_len": n}]})
                run_token_cases(ctx, R, orc, r, mds, n, cases)
                continue
            # token from NEW_TOKEN / configuration: every Initial of the connection carries it
            cases.append({"state": "hs0", "client_token_len": n, "inputs": [{"k": "raw", "hex": "00"}]})
            cases.append({"state": "connected", "client_token_len": n, "inputs": [{"k": "frames", "hex": "01"}]})
            m = r.choice(TOKEN_LENGTHS)
            cases.append({"state": "hs0", "inputs": [{"k": "retry", "token_len": n}, {"k": "retry", "token_len": m}]})
            cases.append({"state": "hs0", "client_token_len": m, "inputs": [{"k": "retry", "token_len": n}]})
            cases.append({"state": "hs0", "client_options": {"supported_versions": [v2, 1]},
                          "inputs": [{"k": "retry", "token_len": n, "version": v2}, {"k": "vn", "versions": [1]}]})
            cases.append({"state": "hs0", "client_options": {"supported_versions": [v2, 1]},
                          "inputs": [{"k": "vn", "versions": [1]}, {"k": "retry", "token_len": n, "version": 1}]})
            run_token_cases(ctx, R, orc, r, mds, n, cases)


def phase_transport_parameters(ctx, R, orc, r, limit):
    muts = R.tp_mutations(r)
    r.shuffle(muts)
    for role in ("client", "server"):
        for label, op in muts[:limit]:
            seed = r.randrange(1000)
            res = R.run_tp_scenario(role, label, op, seed, qlog=r.random() < 0.3)
            scn = {"role": role, "state": "handshake", "tp_mutation": label, "seed": seed, "crafted": res.crafted}
            orc.judge(R, scn, res, kind="tp")
            ctx.count(("tp", role, label), True)


def phase_tp_phases(ctx, R, orc, r, per_phase):
    """the transport-parameter mutation family crossed with the connection phases (fresh is the
    plain phase above): resumed, resumed with 0-RTT accepted / rejected, after Retry, after Version
    Negotiation.  The omitted-parameter subsets run exhaustively in the 0-RTT phases."""
    muts = R.tp_mutations(r)
    omit = [m for m in muts if m[0].startswith("omit-")]
    rest = [m for m in muts if not m[0].startswith("omit-")]
    st = {}
    for role in ("client", "server"):
        for phase in R.TP_PHASES[1:]:
            if per_phase is None:
                chosen = muts
            elif phase.startswith("resumed0rtt") and role == "client":
                chosen = [m for m in omit if m[0].count("-") == 1] + r.sample(omit, per_phase) + r.sample(rest, per_phase)
            else:
                chosen = r.sample(omit, max(2, per_phase // 3)) + r.sample(rest, per_phase)
            for label, op in chosen:
                seed = r.randrange(1000)
                res = R.run_tp_scenario(role, label, op, seed, qlog=r.random() < 0.2, phase=phase)
                scn = {"role": role, "state": "handshake", "phase": phase, "tp_mutation": label, "seed": seed,
                       "crafted": res.crafted}
                orc.judge(R, scn, res, kind="tp")
                k = (phase, bool(getattr(res, "early_data_accepted", False)), bool(getattr(res, "handshake", False)))
                st[str(k)] = st.get(str(k), 0) + 1
                ctx.count(("tp-phase", role, phase, label), True)
    ctx.notes["tp_phase_outcomes"] = st


def phase_version_configs(ctx, R, orc, r, per_config):
    """configurations are part of the quantifier: every version_information (and a sample of the
    other) transport-parameter mutations, for each supported_versions list of the victim and of the
    peer, with and without an explicit original_version"""
    muts = R.tp_mutations(r)
    vmuts = [m for m in muts if m[0].startswith("vi")]
    others = [m for m in muts if not m[0].startswith("vi")]
    for role in ("server", "client"):
        for vconf in R.VERSION_CONFIGS:
            # the version_information lattice is run exhaustively against a SERVER victim (it negotiates
            # the version from it); sampled for a client victim in the quick tier
            chosen = vmuts if (per_config is None or role == "server") else r.sample(vmuts, min(per_config, len(vmuts)))
            compat = [c for c in R.VERSION_CONFIGS if set(c) & set(vconf)]
            work = [(label, op, pconf) for label, op in chosen
                    for pconf in (compat if per_config is None else r.sample(compat, min(2, len(compat))))]
            work += [(label, op, r.choice(compat)) for label, op in r.sample(others, 3)]
            for label, op, pconf in work:
                co = {"supported_versions": pconf if role == "server" else vconf}
                so = {"supported_versions": vconf if role == "server" else pconf}
                if r.random() < 0.3:
                    co["original_version"] = r.choice(co["supported_versions"])
                seed = r.randrange(1000)
                res = R.run_tp_scenario(role, label, op, seed, qlog=r.random() < 0.2, client_options=co,
                                        server_options=so)
                scn = {"role": role, "state": "handshake", "tp_mutation": label, "seed": seed,
                       "client_options": co, "server_options": so, "crafted": res.crafted}
                orc.judge(R, scn, res, kind="tp")
                ctx.count(("tp-config", role, label, json.dumps([co, so], sort_keys=True)), True)


# --------------------------------------------------------------------------- translator tie
def regenerate_tables(ctx):
    """T1: AQ/Gen/RecvTables.lean is rewritten from the current source before the build"""
    sys.path.insert(0, os.path.join(HERE, "tools"))
    import extract_recv
    out = os.path.join(lean.LEAN, "AQ", "Gen", "RecvTables.lean")
    try:
        text = extract_recv.generate(tree.REPO, pythonpath=tree.activate())
    except Exception as e:  # noqa — the source no longer has the shape the translator understands
        ctx.broken.append({"kind": "broken-translation", "tool": "tools/extract_recv.py", "error": repr(e)})
        return
    old = open(out).read() if os.path.exists(out) else None
    if old != text:
        os.makedirs(os.path.dirname(out), exist_ok=True)
        with open(out, "w") as fh:
            fh.write(text)
        ctx.notes["tables_regenerated"] = True
    ctx.notes["handler_rows"] = text.count('"_handle_')
    ctx.notes["except_clauses"] = text.count("⟨\"")


class LogErrors(logging.Handler):
    """formats every record (so that %-format errors inside logging calls surface)"""

    def __init__(self):
        super().__init__(logging.DEBUG)
        self.errors = []

    def emit(self, record):
        try:
            record.getMessage()
        except Exception as e:  # noqa
            import re
            msg = re.sub(r"^\[[0-9a-f]*\] ", "", str(record.msg))
            self.errors.append((msg, repr(record.args)[:200], repr(e)))


# --------------------------------------------------------------------------- main
def main(tier):
    ctx = core.Ctx("C05", tier)
    tree.activate()
    regenerate_tables(ctx)
    ctx.prove(["AQ.Props.C05", "AQ.Props.C05Frames", "AQ.Props.C05Send"], [])
    from harness import impl_recvpath as R
    from checks import c05_corr

    thorough = tier == "thorough"
    r = rng.make("c05")
    lg = logging.getLogger("quic")
    h = LogErrors()
    lg.addHandler(h)
    lg.setLevel(logging.DEBUG)
    lg.propagate = False
    orc = Oracle(ctx)
    t0 = time.time()
    cat = R.catalogue(r, n_random=40 if not thorough else 400)
    all_states = R.STATES + R.SPARE_CID_STATES + R.AMP_STATES + R.APP_STATES + R.ZERO_RTT_STATES

    # (a) datagrams
    phase_datagrams(ctx, R, orc, r, 30 if not thorough else 150, all_states)
    ctx.notes["t_datagrams"] = round(time.time() - t0, 1)

    # (b) frames by a key-holding peer: role x state x epoch
    cells = []
    for role in ("client", "server"):
        for state in all_states:
            for epoch in ("ONE_RTT", "INITIAL", "HANDSHAKE", "ZERO_RTT"):
                cells.append((role, state, epoch))
    phase_frames(ctx, R, orc, r, cat, 70 if not thorough else None, cells)
    ctx.notes["t_frames"] = round(time.time() - t0, 1)
    phase_truncate_repeat(ctx, R, orc, r, cat, 600 if not thorough else 12000,
                          ["hs2", "hs4", "connected", "streams", "keyupdate", "closepending", "zrtt1"])
    ctx.notes["t_trunc"] = round(time.time() - t0, 1)

    # (b') connection-ID switching with no / one / consumed spare peer connection IDs
    phase_migration(ctx, R, orc, r, 20 if not thorough else 150)
    ctx.notes["t_migration"] = round(time.time() - t0, 1)

    # (b*) application activity, full congestion window: ACKs of specific packets + stream control
    phase_app_activity(ctx, R, orc, r, 120 if not thorough else None)
    ctx.notes["t_app_activity"] = round(time.time() - t0, 1)

    # (b#) packet-number arrival order x ack-eliciting x ACK / ACK-of-ACK content
    phase_pn_order(ctx, R, orc, r, 180 if not thorough else None)
    ctx.notes["t_pn_order"] = round(time.time() - t0, 1)

    # (b+) closing while the anti-amplification budget leaves no room for a packet
    phase_amplification(ctx, R, orc, r, cat, 8 if not thorough else 40)
    ctx.notes["t_amplification"] = round(time.time() - t0, 1)

    # (b'') Retry / NEW_TOKEN tokens of every size x max_datagram_size; Retry and Version Negotiation sequences
    phase_retry_tokens(ctx, R, orc, r, thorough)
    ctx.notes["t_retry_tokens"] = round(time.time() - t0, 1)

    # (c) transport parameters
    phase_transport_parameters(ctx, R, orc, r, 120 if not thorough else 10 ** 6)
    phase_version_configs(ctx, R, orc, r, 14 if not thorough else None)
    phase_tp_phases(ctx, R, orc, r, 12 if not thorough else None)
    ctx.notes["t_tp"] = round(time.time() - t0, 1)

    lg.removeHandler(h)
    lg.addHandler(logging.NullHandler())
    lg.setLevel(logging.CRITICAL)
    # A broken %-format inside a logging call is swallowed by the logging module: nothing
    # escapes the public API, so it is NOT a violation of C05 (the property is about the calls
    # returning normally).  It is recorded as a note only.
    ctx.notes["logging_format_error_samples"] = [str(m)[:60] for m, _, _ in h.errors[:3]]
    ctx.notes["logging_format_errors"] = len(h.errors)

    # T2 correspondence: model outcome class vs the real connection
    c05_corr.correspond(ctx, R, r, cat, 800 if not thorough else 12000)
    c05_corr.correspond_datagrams(ctx, R, r, cat, 1200 if not thorough else 20000, rand_datagram_input)
    ctx.notes["t_corr"] = round(time.time() - t0, 1)

    ctx.notes["api_calls"] = orc.calls
    ctx.notes["scenarios_terminated"] = orc.terminated
    ctx.notes["outcome_classes"] = orc.outcomes
    ctx.cov["trusted_base"] = [
        "Lean 4.33.0 kernel (+ leanchecker in thorough tier); axioms ⊆ {propext, Classical.choice, Quot.sound}",
        "tools/extract_recv.py (evaluation of the imported tree for the handler table / frame-type sets / END_STATES / "
        "exception hierarchy; normalised ast (tools/ast_normalize.py) for the except clauses and guards); the rest of the "
        "model is hand-written and tied by the outcome-class correspondence",
        "harness/sim.py + harness/inject.py (real QuicConnection pairs, key-holding peer), CPython semantics",
    ]
    ctx.assumptions = [
        "TLS message layer (tls.Context.handle_message) raises only tls.Alert / BufferReadError, or lets a "
        "QuicConnectionError of the connection's own callbacks through (decided by the TLS checks C11/C03)",
        "a client object receives datagrams only after connect() (usage hypothesis shared with C09; ConnInv.2). "
        "OUT OF SCOPE, not hidden: on the unchanged tree a client that never called connect() raises KeyError "
        "from receive_datagram() (`self._cryptos_initial[version]` / `self._cryptos[epoch]`, dicts filled by "
        "_initialize) for a long- or short-header packet whose destination CID equals its 8 random host-CID "
        "bytes; every other datagram is dropped before the lookup.  That connection ID has never been put on the "
        "wire before connect(), so no network peer can produce the input; the client states of this check start "
        "at connect()",
        "datagrams_to_send(): the frame writers return or raise QuicPacketBuilderStop (C12/C13/C16 decide that "
        "no BufferWriteError / ValueError escapes them); QuicPacketRecovery.on_ack_received is total (C08)",
        "AEAD / header-protection / HKDF calls of decrypt_packet raise nothing but CryptoError (C02/C04); "
        "`now` is finite and non-decreasing (API precondition)",
        "user callbacks (token_handler, session_ticket_handler) do not raise",
    ]
    ctx.cov["rule"] = (
        "victim = client or server in each state of " + ",".join(all_states) + "; inputs: random bytes, plausible "
        "headers aimed at the victim's CID with boundary CID lengths/versions, Retry with valid tag, Version "
        "Negotiation, mutated/truncated/coalesced genuine datagrams (recorded by the sim), packets built with the "
        "peer's live keys in every epoch carrying every frame type with boundary fields (catalogue of "
        f"{len(cat)} payloads), truncations at random cut points, repetitions inside a packet and as packet "
        "trains, padded variants, a victim with application activity and a full congestion window (streams finished-"
        "awaiting-ack / large response in flight / reset / stopped / unused) receiving ACKs of specific packets it "
        "sent combined with STOP_SENDING / RESET_STREAM / MAX_STREAM_DATA / MAX_STREAMS / STREAM+FIN for its other "
        "streams, Retry with valid tag and token lengths 0..1400 (and configuration.token of the same "
        "sizes) for max_datagram_size 1200/1350/1500 incl. Retry-after-Retry and Version Negotiation before/after "
        "Retry, packets addressed to each issued / retired / unknown connection ID of the victim "
        "while it holds no, one, several or no-longer-any spare peer connection ID (peer withholding "
        "NEW_CONNECTION_ID; spares consumed by change_connection_id()), crafted transport parameters announced by a real peer; after the inputs the "
        "victim's timer/transmit/event calls are driven until ConnectionTerminated. Non-trivial = the input was "
        "deliverable (attacker had keys / bytes non-empty); distinct by (role,state,epoch,input) hash.")
    # TLS message layer: only tls.Alert may leave Context.handle_message
    from checks import c05_tls
    c05_tls.run(ctx, tier)
    return ctx.finish()


def replay(path):
    """re-run the scenario of a replay file; exit code 1 when the exception reproduces"""
    tree.activate()
    from harness import impl_recvpath as R
    logging.disable(logging.CRITICAL)
    rp = json.load(open(path))
    rep = rp.get("replay", {})
    from checks import c05_tls
    if c05_tls.owns(rp):                     # TLS message layer witnesses
        problems = c05_tls.replay_witness(rp, path)
        for p in problems:
            print("still failing:", p[:400])
        if not problems:
            print("no longer failing")
        return 1 if problems else 0
    if rep.get("kind") == "scenario":
        res = R.run_scenario(rep["scenario"])
    elif rep.get("kind") == "tp":
        scn = rep["scenario"]
        ops = dict(R.tp_mutations(rng.make("replay")))
        res = R.run_tp_scenario(scn["role"], scn["tp_mutation"], ops[scn["tp_mutation"]], scn["seed"],
                                client_options=scn.get("client_options"), server_options=scn.get("server_options"),
                                phase=scn.get("phase", "fresh"))
    else:
        print("nothing to replay in", path)
        return 2
    for x in res.raises:
        print("RAISED", json.dumps(x))
    print("outcomes", res.outcomes, "terminated", res.terminated)
    return 1 if res.raises else 0
