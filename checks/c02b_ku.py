"""C02b section 8: key updates on live CryptoPair objects, every interleaving.

  "Every protected packet an endpoint emits is recovered bit-exactly by its peer
   and by an independent RFC 9001/9369 implementation, for every cipher suite,
   QUIC version, KEY PHASE …"

Two real `CryptoPair`s (A, B) per (cipher suite, version) are driven through
every interleaving, up to a depth, of
    A/B requests an update · A/B sends a packet · any packet ever sent is
    delivered (any order, duplicates; never delivered = lost)
explored breadth-first over the states of an independent reference that follows
RFC 9001 §6 (an endpoint requests a further update only once its peer has
answered in the current phase, §6.1).  On every step
  * tie:    the canonical line of the real objects (send / receive generation,
            `_update_key_requested`, key phase; packet generation and phase bit;
            accepted / rejected) is compared with the compiled AQ.KeyUpdate model
            (`ku.*` driver ops, the model of C01Keys.c01_keys_sync);
  * oracle: … and with the RFC reference: each packet is protected with the
            generation the RFC rules predict, that generation is the peer's
            receive generation or the next one, the packet opens under the keys
            an independent implementation (harness/rfc_prot.py: HKDF chain with
            the "ku" label of the Lean spec, cryptography AEAD, header
            protection removed per RFC 9001 §5.4) derives for that generation,
            and the peer object accepts what the reference accepts.
"""
import json

from harness import lean
from harness.impl_keyupdate import Chain, PairImpl
from checks import c02b_flip as F

SUITES = (4865, 4866, 4867)


class KuPair(PairImpl):
    """PairImpl for any cipher suite / version, deterministic secrets"""

    def __init__(self, suite, version):
        self.suite, self.version = suite, version
        super().__init__()

    def new(self):
        from aioquic.tls import CipherSuite
        cs = CipherSuite(self.suite)
        n = 48 if self.suite == 4866 else 32
        sa, sb = bytes((i * 7 + 1) % 256 for i in range(n)), bytes((i * 11 + 3) % 256 for i in range(n))
        self.secret = {True: sa, False: sb}
        self.pair = {}
        for x, (snd, rcv) in ((True, (sa, sb)), (False, (sb, sa))):
            p = self.crypto.CryptoPair()
            p.send.setup(cipher_suite=cs, secret=snd, version=self.version)
            p.recv.setup(cipher_suite=cs, secret=rcv, version=self.version)
            self.pair[x] = p
        self.chain = {True: Chain(cs, sa, self.version), False: Chain(cs, sb, self.version)}
        self.wire = []
        self.pn = {True: 1, False: 1}


class Ref:
    """RFC 9001 §6 bookkeeping, written from the RFC: generation n+1 follows n;
    the phase bit is the parity; a requested update takes effect with the next
    packet sent; a packet whose bit differs from the receive phase is tried with
    the next receive generation, and on success the receive keys advance, the
    send keys follow if behind ("MUST update its send keys to the corresponding
    key phase in response", §6.1) — which IS the requested update (§6.1 forbids
    initiating another before the peer acknowledged the current phase)."""

    def __init__(self):
        self.s = {True: 0, False: 0}
        self.r = {True: 0, False: 0}
        self.req = {True: False, False: False}
        self.wire = []          # (sender, gen, bit)

    def key(self):
        return (self.s[True], self.r[True], self.req[True], self.s[False], self.r[False], self.req[False], tuple(self.wire))

    def may_request(self, x):
        """§6.1: not before a packet of the current phase was acknowledged — the acknowledgement arrives in a
        packet of that phase, so both directions have reached the endpoint's send generation"""
        return not self.req[x] and self.s[x] == self.r[x] and self.r[not x] == self.s[x]

    def step(self, op):
        t = op.split()
        if t[0] == "ku.request":
            self.req[t[1] == "1"] = True
            return "ok"
        if t[0] == "ku.send":
            x = t[1] == "1"
            if self.req[x]:
                self.s[x] += 1
                self.req[x] = False
            self.wire.append((x, self.s[x], self.s[x] % 2))
            return f"sent gen={self.s[x]} bit={self.s[x] % 2}"
        i = int(t[1])
        x, g, b = self.wire[i]
        y = not x
        if b != self.r[y] % 2:
            if g != self.r[y] + 1:
                return "rejected"
            self.r[y] += 1
            if self.s[y] < self.r[y]:
                self.s[y] = self.r[y]
            self.req[y] = False
            return "accepted upd=1"
        return "accepted upd=0" if g == self.r[y] else "rejected"


def enabled(ref, max_sends):
    ops = [f"ku.request {int(x)}" for x in (True, False) if ref.may_request(x)]
    if len(ref.wire) < max_sends:
        ops += ["ku.send 1 0", "ku.send 0 0"]
    return ops + [f"ku.deliver {i}" for i in range(len(ref.wire))]


def explore(depth, max_sends, execute):
    """Breadth-first over op sequences; `execute(case)` runs one on fresh real objects and returns the
    state it shows.  A sequence is extended only if it reaches a new (reference state, OBSERVED state) pair:
    on a correct implementation that is one path per reference state, and an implementation whose state
    departs from the reference (e.g. a request flag left set) gets those paths explored further."""
    seen = set()
    frontier = [[]]
    n = 0
    for _ in range(depth):
        nxt = []
        for path in frontier:
            ref = Ref()
            for op in path:
                ref.step(op)
            for op in enabled(ref, max_sends):
                r2 = Ref()
                for o in path + [op]:
                    r2.step(o)
                shown = execute(path + [op])
                n += 1
                key = (r2.key(), shown)
                if key not in seen:
                    seen.add(key)
                    nxt.append(path + [op])
        frontier = nxt
    return n, len(seen)


def rfc_open(rfc, suite, version, secret0, gen, packet, off, pn):
    """independent RFC 9001 §5.4 / §5.3 unprotection of a short-header packet with the keys of generation `gen`"""
    secret = secret0
    for _ in range(gen):
        secret = rfc.next_secret(suite, version, secret)
    key, iv, _ = rfc.keys(suite, version, secret)
    hp = rfc.keys(suite, version, secret0)[2]            # the header-protection key is not updated (§6)
    mask = rfc.mask(suite, hp, packet[off + 4:off + 20])
    first = packet[0] ^ (mask[0] & 0x1F)
    n = (first & 3) + 1
    hdr = bytes([first]) + packet[1:off] + bytes(a ^ b for a, b in zip(packet[off:off + n], mask[1:1 + n]))
    nonce = bytes(a ^ b for a, b in zip(iv, bytes(4) + pn.to_bytes(8, "big")))
    return rfc.open(suite, key, nonce, hdr, packet[off + n:]), (first >> 2) & 1


class Runner:
    def __init__(self, ctx, suite, version):
        self.ctx, self.suite, self.version = ctx, suite, version
        self.rfc = F.rfc()
        self.problems = 0
        self.cases, self.impl_out = [], []

    def execute(self, case):
        ctx, suite, version = self.ctx, self.suite, self.version
        im = KuPair(suite, version)
        ref = Ref()
        out = [im.step("ku.pnew 0")]
        bad = None
        for k, op in enumerate(case):
            try:
                o = im.step(op)
            except Exception as e:  # noqa  e.g. a secret outside the RFC "ku" chain of the initial secret
                o = f"err {type(e).__name__}: {e} | -"
            out.append(o)
            want = ref.step(op)
            head = o.split(" | ")[0]
            if head.startswith("err "):
                bad = f"step {k} {op!r}: {head} (the keys are not the RFC 9001 §6.1 / RFC 9369 §3.3.1 successors of the previous ones)"
            elif head != want:
                bad = f"step {k} {op!r}: CryptoPair says {head!r}, RFC 9001 §6 predicts {want!r}"
            elif k == len(case) - 1 and op.startswith("ku.send"):     # earlier steps: last step of a shorter case
                x, g, b = ref.wire[-1]
                if not (ref.r[not x] <= g <= ref.r[not x] + 1):
                    bad = f"step {k} {op!r}: generation {g} is not the peer's receive generation {ref.r[not x]} or the next"
                else:
                    _, enc, off, pn = im.wire[-1]
                    plain, bit = rfc_open(self.rfc, suite, version, im.secret[x], g, enc, off, pn)
                    if plain != b"\x01\x02\x03\x04" or bit != b:
                        bad = (f"step {k} {op!r}: the packet does not open under the RFC keys of generation {g} "
                               f"(independent implementation) / phase bit {bit} != {b}")
            if bad:
                break
        ctx.count(("ku", suite, version, tuple(case)), any(o.startswith("accepted upd=1") for o in out))
        if bad:
            self.problems += 1
            if self.problems <= 2:
                ctx.witness(f"key update, suite {suite} version {version:#x}: {bad}",
                            {"kind": "ku-pair", "suite": suite, "version": version, "ku_ops": ["ku.pnew 0"] + case,
                             "impl_output": out, "rerun": "./check C02 --replay <this file>"},
                            {"oracle": "key-update-interleaving", "suite": suite})
        self.cases.append(case[:len(out) - 1])
        self.impl_out.append(out)
        return out[-1].split(" | ")[1]

    def diff_model(self):
        ctx = self.ctx
        model = lean.run_driver([l for c in self.cases for l in ["ku.pnew 0"] + c])
        n = i = 0
        for case, out in zip(self.cases, self.impl_out):
            for k in range(len(out)):
                if out[k] != model[i + k]:
                    n += 1
                    if n <= 2:
                        ctx.broken.append({"kind": "broken-correspondence", "correspondence": "c02-keyupdate-pair",
                                           "suite": self.suite, "version": self.version, "ku_ops": ["ku.pnew 0"] + case[:k],
                                           "model": model[i + k], "impl": out[k]})
                    break
            i += len(case) + 1
        ctx.cov["traces_validated_against_impl"] += len(self.cases)
        return n


def section_key_update(ctx, tier, r):
    thorough = tier == "thorough"
    lt = F.long_types_from_tables()
    v1, v2 = sorted(lt.keys())
    depth, sends = (9, 5) if thorough else (8, 4)
    note = {}
    for suite in SUITES:
        for v in (v1, v2):
            run = Runner(ctx, suite, v)
            n, states = explore(depth, sends, run.execute)
            run.diff_model()
            note[f"{suite}/{v:#x}"] = {"cases": n, "states": states, "problems": run.problems}
    ctx.notes["key_update_interleavings"] = dict(note, depth=depth)
    ctx.sample({"key-update": run.cases[len(run.cases) // 2]})


def replay(rp):
    from harness import core
    ctx = core.Ctx("C02", "quick")
    run = Runner(ctx, rp["suite"], rp["version"])
    run.execute(rp["ku_ops"][1:])
    n = run.problems + run.diff_model()
    for w in ctx.witnesses[:2]:
        print("REPLAY-WITNESS:", w["what"][:300])
    for b in ctx.broken[:2]:
        print("REPLAY-DIFF:", json.dumps(b)[:400])
    print(f"replay: {'still failing' if n else 'no longer failing'}")
    return 1 if n else 0
