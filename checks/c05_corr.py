"""C05 correspondence (T2): the byte-level `_payload_received` model
(AQ.Model.RecvFrames through the `rx.` driver) against the real connection.

Every authenticated payload handed to `_payload_received` while the hostile
scenarios run is recorded by a harness-side tap together with the abstract state at
entry, the observed TLS outcome (model input) and the result: `processed` with the
(ack-eliciting, probing) flags, or `closed <code>`, plus a projection of the state
left behind.  The same lines are replayed on the compiled Lean model and diffed."""
from harness import core, lean


def state_aware(R, r, sim, victim, epoch):
    """frames aimed at the victim's current state: CRYPTO at the expected offset (reaches the TLS
    layer), STREAM / RESET_STREAM on existing streams around their final size, PATH_RESPONSE for
    an outstanding challenge, RETIRE_CONNECTION_ID of issued CIDs"""
    from aioquic import tls
    V = R.V
    c = victim.conn
    k = r.random()
    if k < 0.35 and c._crypto_streams:
        ep = {"INITIAL": tls.Epoch.INITIAL, "HANDSHAKE": tls.Epoch.HANDSHAKE}.get(epoch, tls.Epoch.ONE_RTT)
        off = c._crypto_streams[ep].receiver._buffer_start + r.choice([0, 0, 0, 1, 5])
        body = r.choice([bytes(r.getrandbits(8) for _ in range(r.randrange(1, 30))),
                         bytes([r.choice([1, 2, 4, 8, 11, 13, 15, 20, 24]), 0, 0, r.randrange(0, 8)]) + bytes(r.randrange(0, 12)),
                         b"\x04\x00\x00\x05abcde", b"\x18\x00\x00\x01\x00"])
        return ("crypto-at-offset", b"\x06" + V(off) + V(len(body)) + body)
    sids = list(c._streams) + list(c._streams_finished) + [0, 1, 2, 3]
    sid = r.choice(sids)
    if k < 0.6:
        off = r.choice([0, 1, 5, 200, 1000])
        ln = r.choice([0, 1, 3])
        t = 0x08 | 4 | 2 | r.choice([0, 1])
        return ("stream-existing", bytes([t]) + V(sid) + V(off) + V(ln) + bytes(ln))
    if k < 0.8:
        return ("reset-existing", b"\x04" + V(sid) + V(0) + V(r.choice([0, 1, 5, 200, 205, 1000])))
    if k < 0.9 and c._local_challenges:
        return ("pathresp-solicited", b"\x1b" + r.choice(list(c._local_challenges)))
    return ("retire-existing", b"\x19" + V(r.choice([cid.sequence_number for cid in c._host_cids] + [0, 1])))


def record_cases(R, r, cat, n):
    """returns list of (case lines, impl output lines, meta)"""
    cases = []
    states = ["fresh", "hs0", "hs1", "hs2", "hs3", "hs4", "hs5", "connected", "streams", "streams", "keyupdate",
              "closepending", "zrtt1"]
    epochs = ["ONE_RTT", "ONE_RTT", "ONE_RTT", "HANDSHAKE", "INITIAL", "ZERO_RTT"]
    tries = 0
    while len(cases) < n and tries < 8 * n:
        tries += 1
        role = r.choice(["client", "server"])
        state = r.choice(states)
        epoch = r.choice(epochs)
        items = [r.choice(cat) for _ in range(r.choice([1, 1, 2, 4]))]
        sim, victim, _ = R.build_state(role, state, r.randrange(1000))
        taps = [R.PayloadTap(ep.conn) for ep in sim.endpoints]
        res = R.Result()
        seen = set()
        try:
            for label, p in items:
                k = r.random()
                if r.random() < 0.3:
                    label, p = state_aware(R, r, sim, victim, epoch)
                body = p
                if k < 0.15 and len(p) > 1:
                    body = p[:r.randrange(1, len(p))]
                elif k < 0.3:
                    body = p + r.choice(cat)[1]            # two frames in one packet
                spec = {"k": "frames", "epoch": epoch, "hex": body.hex(), "label": label}
                R.apply_input(sim, victim, spec, res, seen)
                if victim.conn._close_event is not None:
                    break
        finally:
            for t in taps:
                t.remove()
            sim.close_taps()
        for t in taps:
            for rec in t.calls:
                if "result" not in rec or rec["tls"].startswith("other"):
                    continue
                ops = [rec["state"], f"rx.frame {rec['epoch']} {rec['hex']} cr={rec['cr']} tls={rec['tls']}"]
                cases.append((ops, ["ok", rec["result"]], {"role": role, "state": state}))
    return cases


def header_cases(R, r, n):
    """datagrams for `pull_quic_header`: genuine ones of a handshake, mutated, truncated, random"""
    sim, victim, rec = R.build_state("client", "connected", r.randrange(1000))
    sim.close_taps()
    genuine = rec.sent["client"] + rec.sent["server"]
    out = []
    for _ in range(n):
        k = r.random()
        if k < 0.2:
            d = bytes(r.getrandbits(8) for _ in range(r.choice([0, 1, 2, 5, 6, 7, 20, 30, 60])))
        else:
            d = bytearray(r.choice(genuine))
            if r.random() < 0.5:
                d = d[:r.choice([1, 5, 6, 7, 8, 14, 15, 16, 17, 18, 20, 24, 25, 26, 40, len(d)])]
            for _ in range(r.choice([0, 1, 1, 2, 4])):
                if d:
                    d[r.randrange(min(len(d), 30))] = r.choice([0, 1, 2, 8, 20, 21, 0x3F, 0x40, 0x7F, 0x80, 0xC0,
                                                                 0xD0, 0xE0, 0xF0, 0xFF, r.randrange(256)])
            if r.random() < 0.15 and len(d) > 5:
                d[1:5] = r.choice([b"\x00\x00\x00\x00", b"\x6b\x33\x43\xcf", b"\x00\x00\x00\x01"])
            d = bytes(d)
        out.append((d, r.choice([8, 8, 8, 0, 20, 4])))
    return out


def correspond_headers(ctx, R, r, n):
    cases = header_cases(R, r, n)
    ops = [[f"rx.hdr {d.hex() or '-'} {k}"] for d, k in cases]
    impl_lines = [R.hdr_line(d, k) for d, k in cases]
    model_lines = lean.run_driver([o[0] for o in ops])
    mism = core.diff_streams(ctx, "pull-quic-header", ops, impl_lines, model_lines)
    for m in mism[:3]:
        if m[0] >= 0:
            ci, oi, il, ml = m
            ctx.disagreement("pull-quic-header", ops[ci][: oi + 1], ml, il, oi)
    kinds = {}
    for l in impl_lines:
        k = " ".join(l.split()[:2]) if l.startswith("ok") else l
        kinds[k] = kinds.get(k, 0) + 1
    for o, l in zip(ops, impl_lines):
        ctx.count(("hdr", o[0]), True)
    ctx.cov["traces_validated_against_impl"] += len(cases)
    ctx.notes["hdr_cases"] = len(cases)
    ctx.notes["hdr_mismatches"] = len(mism)
    ctx.notes["hdr_classes"] = dict(sorted(kinds.items()))
    return len(mism)


def datagram_cases(R, r, cat, n, gen_input):
    """control flow of receive_datagram: hostile datagrams and injected packets in every state"""
    cases = []
    tries = 0
    while len(cases) < n and tries < 4 * n:
        tries += 1
        role = r.choice(["client", "server"])
        state = r.choice(R.STATES + R.SPARE_CID_STATES + R.ZERO_RTT_STATES)
        sim, victim, _ = R.build_state(role, state, r.randrange(1000))
        tap = R.DatagramTap(victim.conn)
        res = R.Result()
        seen = set()
        try:
            for _ in range(r.choice([1, 3, 8])):
                if r.random() < 0.5:
                    label, p = r.choice(cat)
                    spec = {"k": "frames", "epoch": r.choice(["ONE_RTT", "ONE_RTT", "HANDSHAKE", "INITIAL", "ZERO_RTT"]),
                            "hex": p.hex()}
                    if r.random() < 0.2:
                        spec["mut"] = [["coalesce", r.randrange(50)]]
                    if r.random() < 0.1:
                        spec["reserved"] = True
                    if r.random() < 0.3:
                        spec["dcid"] = r.choice([f"host:{r.randrange(8)}", "retired:0", "unknown:8"])
                else:
                    spec = gen_input(r)
                R.apply_input(sim, victim, spec, res, seen, tap=tap)
        finally:
            tap.remove()
            sim.close_taps()
        cases += tap.cases
    return cases


def correspond_datagrams(ctx, R, r, cat, n, gen_input):
    cases = datagram_cases(R, r, cat, n, gen_input)
    ops = [c[0] for c in cases]
    impl_lines = [l for c in cases for l in c[1]]
    model_lines = lean.run_driver([l for c in ops for l in c])
    mism = core.diff_streams(ctx, "receive-datagram-flow", ops, impl_lines, model_lines)
    for m in mism[:3]:
        if m[0] >= 0:
            ci, oi, il, ml = m
            ctx.disagreement("receive-datagram-flow", ops[ci][: oi + 1], ml, il, oi)
    kinds = {}
    for c in cases:
        k = c[1][1].split(" | ")[0]
        k = "ok closed" if k.startswith("ok closed") else k
        kinds[k] = kinds.get(k, 0) + 1
        ctx.count(("dgram-flow", c[0][0], c[0][1]), True)
    ctx.cov["traces_validated_against_impl"] += len(cases)
    ctx.notes["flow_cases"] = len(cases)
    ctx.notes["flow_mismatches"] = len(mism)
    ctx.notes["flow_classes"] = dict(sorted(kinds.items()))
    return len(mism)


def correspond(ctx, R, r, cat, n):
    correspond_headers(ctx, R, r, 3 * n)
    cases = record_cases(R, r, cat, n)
    ops = [c[0] for c in cases]
    impl_lines = [l for c in cases for l in c[1]]
    flat = [l for c in ops for l in c]
    model_lines = lean.run_driver(flat)
    mism = core.diff_streams(ctx, "payload-outcome", ops, impl_lines, model_lines)
    for m in mism[:3]:
        if m[0] >= 0:
            ci, oi, il, ml = m
            ctx.disagreement("payload-outcome", ops[ci][: oi + 1], ml, il, oi)
    classes = {}
    for c in cases:
        k = c[1][1].split(" | ")[0]
        k = " ".join(k.split()[:3]) if k.startswith("ok closed") else " ".join(k.split()[:2])
        classes[k] = classes.get(k, 0) + 1
        ctx.count(("corr", c[0][1]), True)
    ctx.cov["traces_validated_against_impl"] += len(cases)
    ctx.notes["corr_cases"] = len(cases)
    ctx.notes["corr_mismatches"] = len(mism)
    ctx.notes["corr_outcome_classes"] = dict(sorted(classes.items()))
    return len(mism)
