"""C05 (TLS part) — hostile but well-typed TLS handshake messages.

`Context.handle_message` may only raise `tls.Alert` (which
connection._handle_crypto_frame converts into a CRYPTO_ERROR close); anything
else escapes `QuicConnection.receive_datagram`.

Exports `run(ctx, tier)` for checks/c05.py; `main(tier)` runs it standalone.
Oracle (from the property text): any exception other than tls.Alert escaping
handle_message on real client / server contexts fed by a key-holding peer.
"""
import copy

from harness import core, rng, tree


def ser(push, obj, cap=16384):
    from aioquic.buffer import Buffer
    b = Buffer(capacity=cap)
    push(b, obj)
    return b.data


def raw_extensions(exts):
    body = b"".join(t.to_bytes(2, "big") + len(d).to_bytes(2, "big") + d for t, d in exts)
    return len(body).to_bytes(2, "big") + body


def msg(t, body):
    return bytes([t]) + len(body).to_bytes(3, "big") + body


def client_hellos(tls, D):
    """(name, bytes) hostile ClientHello variants built from a genuine one"""
    from aioquic.buffer import Buffer
    p = D.Pair(D.client(alpn=["h3"]), D.server())
    p.hello()
    hello = tls.pull_client_hello(Buffer(data=p.client_hello))
    G, E = tls.Group, tls.ExtensionType

    def v(**kw):
        h = copy.deepcopy(hello)
        for k, x in kw.items():
            setattr(h, k, x)
        return ser(tls.push_client_hello, h)

    yield "plain", v()
    for name, ks in [
        ("keyshare-empty", []), ("keyshare-unknown-group", [(0x9999, b"abc")]),
        ("keyshare-grease-only", [(G.GREASE, b"\x00")]),
        ("keyshare-x25519-short", [(G.X25519, b"abc")]), ("keyshare-x25519-empty", [(G.X25519, b"")]),
        ("keyshare-x25519-zero", [(G.X25519, bytes(32))]), ("keyshare-x25519-long", [(G.X25519, bytes(33))]),
        ("keyshare-x448-short", [(G.X448, b"abc")]), ("keyshare-x448-zero", [(G.X448, bytes(56))]),
        ("keyshare-p256-offcurve", [(G.SECP256R1, b"\x04" + bytes(64))]),
        ("keyshare-p256-empty", [(G.SECP256R1, b"")]), ("keyshare-p256-compressed", [(G.SECP256R1, b"\x02" + bytes(32))]),
        ("keyshare-p384-short", [(G.SECP384R1, b"\x04" + bytes(10))]),
        ("keyshare-p521", [(G.SECP521R1, b"\x04" + bytes(132))]),
        ("keyshare-bad-then-good", [(G.X25519, b"abc")] + list(hello.key_share)),
    ]:
        yield name, v(key_share=ks)
    yield "alpn-empty-list", v(alpn_protocols=[])
    yield "sigalgs-empty", v(signature_algorithms=[])
    yield "sigalgs-unknown", v(signature_algorithms=[0xFEFE])
    yield "groups-empty", v(supported_groups=[])
    yield "ciphers-empty", v(cipher_suites=[])
    yield "ciphers-unknown", v(cipher_suites=[0x9999, 0x00FF])
    yield "versions-empty", v(supported_versions=[])
    yield "versions-tls12", v(supported_versions=[0x0303])
    yield "compression-empty", v(legacy_compression_methods=[])
    yield "psk-modes-empty", v(psk_key_exchange_modes=[])
    yield "psk-modes-unknown", v(psk_key_exchange_modes=[7])
    psk = tls.OfferedPsks
    yield "psk-no-modes", v(psk_key_exchange_modes=None, pre_shared_key=psk(identities=[(b"id", 0)], binders=[bytes(32)]))
    yield "psk-short-binder", v(psk_key_exchange_modes=[1], pre_shared_key=psk(identities=[(b"id", 0)], binders=[b"x"]))
    yield "psk-long-binder", v(psk_key_exchange_modes=[1], pre_shared_key=psk(identities=[(b"id", 0)], binders=[bytes(255)]))
    yield "psk-empty", v(psk_key_exchange_modes=[1], pre_shared_key=psk(identities=[], binders=[]))
    yield "psk-two", v(psk_key_exchange_modes=[1], pre_shared_key=psk(identities=[(b"a", 0), (b"b", 1)], binders=[bytes(32), bytes(32)]))
    yield "psk-early-data", v(psk_key_exchange_modes=[1], early_data=True,
                              pre_shared_key=psk(identities=[(b"id", 0)], binders=[bytes(48)]))
    # raw extension surgery on the genuine hello
    b = Buffer(data=p.client_hello)
    b.seek(4 + 2 + 32)
    tls.pull_opaque(b, 1)
    tls.pull_list(b, 2, b.pull_uint16)
    tls.pull_list(b, 1, b.pull_uint8)
    head = p.client_hello[4:b.tell()]
    b.pull_uint16()
    exts = []
    while not b.eof():
        t = b.pull_uint16()
        exts.append((t, b.pull_bytes(b.pull_uint16())))

    def rebuild(xs):
        return msg(1, head + raw_extensions(xs))

    for name, drop in [("no-keyshare", {E.KEY_SHARE}), ("no-sigalgs", {E.SIGNATURE_ALGORITHMS}),
                       ("no-versions", {E.SUPPORTED_VERSIONS}), ("no-groups", {E.SUPPORTED_GROUPS}),
                       ("no-alpn", {E.ALPN}), ("no-tp", {E.QUIC_TRANSPORT_PARAMETERS}),
                       ("no-extensions", set(t for t, _ in exts))]:
        yield name, rebuild([(t, d) for t, d in exts if t not in drop])
    sni = lambda name: (E.SERVER_NAME, (len(name) + 3).to_bytes(2, "big") + b"\x00" + len(name).to_bytes(2, "big") + name)
    others = [(t, d) for t, d in exts if t != E.SERVER_NAME]
    yield "sni-nonascii", rebuild(others + [sni(b"\xff\xfe.example")])
    yield "sni-empty", rebuild(others + [sni(b"")])
    yield "sni-nul", rebuild(others + [sni(b"a\x00b")])
    yield "sni-unknown-type", rebuild(others + [(E.SERVER_NAME, b"\x00\x04\x07\x00\x01a")])
    yield "alpn-nonascii-only", rebuild([(t, d) for t, d in exts if t != E.ALPN] + [(E.ALPN, b"\x00\x03\x02\xff\xfe")])
    yield "alpn-empty-name", rebuild([(t, d) for t, d in exts if t != E.ALPN] + [(E.ALPN, b"\x00\x01\x00")])
    yield "dup-keyshare", rebuild(exts + [x for x in exts if x[0] == E.KEY_SHARE])
    yield "dup-versions", rebuild(exts + [(E.SUPPORTED_VERSIONS, b"\x02\x03\x03")])
    yield "ext-empty-known", rebuild([(t, b"") if t == E.SUPPORTED_GROUPS else (t, d) for t, d in exts])
    yield "early-data-nonempty", rebuild(exts + [(E.EARLY_DATA, b"\x00\x00\x00\x01")])


def server_cases(ctx, tls, D, S, only=None):
    """`only` = (configuration name, ClientHello bytes): re-feed one recorded hello"""
    import datetime
    hellos = list(client_hellos(tls, D)) if only is None else [("replayed", only[1])]

    def fetch(label, suite=tls.CipherSuite.AES_256_GCM_SHA384, secret=48):
        now = tls.utcnow()
        return tls.SessionTicket(age_add=0, cipher_suite=suite, not_valid_after=now + datetime.timedelta(days=1),
                                 not_valid_before=now - datetime.timedelta(days=1), resumption_secret=bytes(secret),
                                 server_name="localhost", ticket=label, max_early_data_size=0xFFFFFFFF)

    configs = [
        ("default", lambda: D.server()),
        ("alpn", lambda: D.server(alpn=["h3"])),
        ("tickets", lambda: _with(D.server(), get_session_ticket_cb=fetch, new_session_ticket_cb=lambda t: None)),
        ("client-cert", lambda: D.server(request_client_certificate=True)),
        ("ec-cert", lambda: D.server(ident=S.ident("ec256"))),
        ("ed25519-cert", lambda: D.server(ident=S.ident("ed25519"))),
    ]
    for cname, mk in configs:
        if only is not None and cname != only[0]:
            continue
        for name, data in hellos:
            s = mk()
            exc, _ = D.feed(s, data)
            judge(ctx, tls, f"server[{cname}] ClientHello {name}", exc, data, "_server_handle_hello")


def _with(obj, **kw):
    for k, v in kw.items():
        setattr(obj, k, v)
    return obj


def judge(ctx, tls, what, exc, data, where):
    ctx.count(("tls-hostile", what), True)
    if exc is not None and not isinstance(exc, tls.Alert):
        ctx.witness(f"{what}: {type(exc).__name__}: {exc} escaped Context.handle_message (only tls.Alert is converted "
                    f"into a connection close)",
                    {"case": what, "message": data.hex() if isinstance(data, bytes) else [d.hex() for d in data]},
                    {"oracle": "tls-raise", "exception": type(exc).__name__, "where": where})
        return True
    return False


def forge(tls, D, f, kinds):
    """flight from a Forger where each element is a HandshakeType (genuine /
    recomputed) or raw bytes (hostile message, hashed as sent)"""
    HT = tls.HandshakeType
    ks = f.schedule()
    hs = ks.derive_secret(b"s hs traffic")
    out = []
    for k in kinds:
        if isinstance(k, bytes):
            m = k
        elif k == HT.CERTIFICATE_VERIFY:
            sig = f.key.sign(ks.certificate_verify_data(tls.SERVER_CONTEXT_STRING),
                             *tls.signature_algorithm_params(f.sigalg))
            m = ser(tls.push_certificate_verify, tls.CertificateVerify(algorithm=f.sigalg, signature=sig))
        elif k == HT.FINISHED:
            m = ser(tls.push_finished, tls.Finished(verify_data=ks.finished_verify_data(hs)))
        else:
            m = f.msgs[int(k)]
        ks.update_hash(m)
        out.append(m)
    return out


def client_cases(ctx, tls, D, S):
    from aioquic.buffer import Buffer
    HT, G, E = tls.HandshakeType, tls.Group, tls.ExtensionType

    def fresh(kind="rsa", **ckw):
        idt = S.ident(kind)
        p = D.Pair(D.client(ident=idt if kind != "rsa" else None, **ckw), D.server(ident=idt))
        p.hello()
        assert p.serve() is None
        return p

    # ---- hostile ServerHello
    p = fresh()
    sh = tls.pull_server_hello(Buffer(data=p.server_flight[0]))

    def shv(**kw):
        h = copy.deepcopy(sh)
        for k, x in kw.items():
            setattr(h, k, x)
        return ser(tls.push_server_hello, h)

    shs = [("no-keyshare", shv(key_share=None)), ("keyshare-unknown", shv(key_share=(0x9999, b"abc"))),
           ("keyshare-grease", shv(key_share=(G.GREASE, b"\x00"))),
           ("keyshare-x25519-short", shv(key_share=(G.X25519, b"abc"))),
           ("keyshare-x25519-zero", shv(key_share=(G.X25519, bytes(32)))),
           ("keyshare-x448-zero", shv(key_share=(G.X448, bytes(56)))),
           ("keyshare-p256-offcurve", shv(key_share=(G.SECP256R1, b"\x04" + bytes(64)))),
           ("keyshare-p256-empty", shv(key_share=(G.SECP256R1, b""))),
           ("keyshare-p521", shv(key_share=(G.SECP521R1, b"\x04" + bytes(132)))),
           ("no-version", shv(supported_version=None)), ("version-12", shv(supported_version=0x0303)),
           ("cipher-unknown", shv(cipher_suite=0x9999)), ("compression-1", shv(compression_method=1)),
           ("psk-unoffered", shv(pre_shared_key=0)), ("psk-unoffered-7", shv(pre_shared_key=7)),
           ("hello-retry-request", shv(random=bytes.fromhex(
               "CF21AD74E59A6111BE1D8C021E65B891C2A211167ABB8C5E079E09E2C8A8339C"))),
           ("session-id-long", shv(legacy_session_id=bytes(255)))]
    for name, data in shs:
        c = D.client()
        D.feed(c, b"")
        exc, _ = D.feed(c, data)
        judge(ctx, tls, f"client ServerHello {name}", exc, data, "_client_handle_hello")

    # ---- hostile encrypted flight
    def ee(exts):
        return msg(8, raw_extensions(exts))

    def cert(entries, ctxb=b""):
        return ser(tls.push_certificate, tls.Certificate(request_context=ctxb, certificates=entries))

    good_cert = tls.pull_certificate(Buffer(data=p.server_flight[2])).certificates
    tp = (E.QUIC_TRANSPORT_PARAMETERS, D.SERVER_TP)
    flights = [
        ("ee-alpn-empty-list", [ee([(E.ALPN, b"\x00\x00"), tp])], "_client_handle_encrypted_extensions"),
        ("ee-alpn-nonascii", [ee([(E.ALPN, b"\x00\x02\x01\xff"), tp])], "_client_handle_encrypted_extensions"),
        ("ee-alpn-empty-name", [ee([(E.ALPN, b"\x00\x01\x00"), tp])], "_client_handle_encrypted_extensions"),
        ("ee-alpn-two", [ee([(E.ALPN, b"\x00\x04\x01a\x01b"), tp])], "_client_handle_encrypted_extensions"),
        ("ee-no-extensions", [ee([])], "_client_handle_encrypted_extensions"),
        ("ee-early-data-unoffered", [ee([(E.EARLY_DATA, b""), tp])], "_client_handle_encrypted_extensions"),
        ("cert-empty-list", [HT.ENCRYPTED_EXTENSIONS, cert([])], "_client_handle_certificate"),
        ("cert-garbage-der", [HT.ENCRYPTED_EXTENSIONS, cert([(b"garbage", b"")])], "_client_handle_certificate"),
        ("cert-empty-der", [HT.ENCRYPTED_EXTENSIONS, cert([(b"", b"")])], "_client_handle_certificate"),
        ("cert-chain-garbage", [HT.ENCRYPTED_EXTENSIONS, cert(good_cert + [(b"junk", b"")])], "_client_handle_certificate"),
        ("cert-context-nonempty", [HT.ENCRYPTED_EXTENSIONS, cert(good_cert, b"ctx"), HT.CERTIFICATE_VERIFY, HT.FINISHED],
         "_client_handle_certificate"),
        ("cr-no-sigalgs", [HT.ENCRYPTED_EXTENSIONS, msg(13, b"\x00" + raw_extensions([])), HT.CERTIFICATE,
                           HT.CERTIFICATE_VERIFY, HT.FINISHED], "_client_handle_finished"),
        ("cr-empty-sigalgs", [HT.ENCRYPTED_EXTENSIONS, msg(13, b"\x00" + raw_extensions([(13, b"\x00\x00")])),
                              HT.CERTIFICATE, HT.CERTIFICATE_VERIFY, HT.FINISHED], "_client_handle_finished"),
        ("cr-long-context", [HT.ENCRYPTED_EXTENSIONS, msg(13, b"\xff" + bytes(255) + raw_extensions([(13, b"\x00\x02\x08\x04")])),
                             HT.CERTIFICATE, HT.CERTIFICATE_VERIFY, HT.FINISHED], "_client_handle_finished"),
        ("nst-max-lifetime", [HT.ENCRYPTED_EXTENSIONS, HT.CERTIFICATE, HT.CERTIFICATE_VERIFY, HT.FINISHED,
                              ser(tls.push_new_session_ticket, tls.NewSessionTicket(
                                  ticket_lifetime=0xFFFFFFFF, ticket_age_add=0xFFFFFFFF, ticket_nonce=bytes(255),
                                  ticket=b"", max_early_data_size=0))], "_client_handle_new_session_ticket"),
    ]
    for name, fl, where in flights:
        for with_cert in ([False, True] if name.startswith("cr-") else [False]):
            q = fresh()
            q.c.new_session_ticket_cb = lambda t: None
            if with_cert:
                q.c.certificate, q.c.certificate_chain, q.c.certificate_private_key = S.ident("ec256")
            f = D.Forger(q)
            msgs = forge(tls, D, f, fl)
            exc, _ = D.feed(q.c, f.sh + b"".join(msgs))
            judge(ctx, tls, f"client flight {name}{' (client has a certificate)' if with_cert else ''}", exc, msgs, where)

    # ---- CertificateVerify: every signature algorithm against every key type
    algs = sorted(int(a) for a in tls.SignatureAlgorithm) + [0x0000, 0xFEFE]
    for kind in ["rsa", "ec256", "ec384", "ed25519", "ed448"]:
        for alg in algs:
            for siglen in (0, 64):
                q = fresh(kind)
                f = D.Forger(q)
                cv = ser(tls.push_certificate_verify, tls.CertificateVerify(algorithm=alg, signature=bytes(siglen)))
                msgs = forge(tls, D, f, [HT.ENCRYPTED_EXTENSIONS, HT.CERTIFICATE, cv])
                exc, _ = D.feed(q.c, f.sh + b"".join(msgs))
                judge(ctx, tls, f"client CertificateVerify alg=0x{alg:04x} on {kind} certificate sig={siglen}B",
                      exc, msgs, "_check_certificate_verify_signature")


def mutate(r, m):
    """structure-preserving-ish mutation of one handshake message; the 3-byte
    outer length is re-written so that the message is still complete"""
    t, body = m[0], bytearray(m[4:])
    for _ in range(r.choice([1, 1, 1, 2, 3])):
        k = r.random()
        if not body:
            body = bytearray(r.randbytes(r.randrange(1, 8)))
        elif k < 0.3:
            i = r.randrange(len(body))
            body[i] ^= r.choice([0x01, 0x80, 0xFF, 1 << r.randrange(8)])
        elif k < 0.5:
            i = r.randrange(len(body))
            body[i] = r.choice([0, 1, 0x7F, 0x80, 0xFF, r.randrange(256)])
        elif k < 0.62:
            body = body[:r.randrange(len(body))]
        elif k < 0.74:
            i = r.randrange(len(body) + 1)
            body[i:i] = r.randbytes(r.choice([1, 2, 3, 8, 40]))
        elif k < 0.86:
            i = r.randrange(len(body))
            del body[i:i + r.choice([1, 2, 4, 16])]
        else:
            # big-endian 16-bit field tweak (length fields live everywhere)
            i = r.randrange(max(1, len(body) - 1))
            v = int.from_bytes(body[i:i + 2], "big")
            v = r.choice([0, 1, v + 1, max(0, v - 1), 0xFFFF, len(body) - i - 2]) & 0xFFFF
            body[i:i + 2] = v.to_bytes(2, "big")
    body = bytes(body[:0xFFFF])
    return bytes([t]) + len(body).to_bytes(3, "big") + body


def fuzz(ctx, tls, D, S, r, n):
    """mutated genuine messages, each delivered in the state that expects it"""
    HT = tls.HandshakeType
    targets = ["CLIENT_EXPECT_SERVER_HELLO", "CLIENT_EXPECT_ENCRYPTED_EXTENSIONS",
               "CLIENT_EXPECT_CERTIFICATE_REQUEST_OR_CERTIFICATE", "CLIENT_EXPECT_CERTIFICATE",
               "CLIENT_EXPECT_CERTIFICATE_VERIFY", "CLIENT_EXPECT_FINISHED", "CLIENT_POST_HANDSHAKE",
               "SERVER_EXPECT_CLIENT_HELLO", "SERVER_EXPECT_CERTIFICATE", "SERVER_EXPECT_CERTIFICATE_VERIFY",
               "SERVER_EXPECT_FINISHED"]
    weights = [4, 3, 3, 1, 2, 1, 2, 6, 2, 2, 1]
    hits = 0
    for i in range(n):
        st = r.choices(targets, weights)[0]
        c, kt, nxt = S.drive(st)
        m = mutate(r, nxt)
        exc, _ = D.feed(c, m)
        if judge(ctx, tls, f"fuzz {st} #{i}", exc, m, st):
            hits += 1
    ctx.notes["tls_fuzz"] = {"cases": n, "escapes": hits}


def cert_fuzz(ctx, tls, D, S, r, n):
    """a malicious server (it holds the key, so CertificateVerify is valid over
    the transcript) presents a mutated copy of its certificate: the X.509
    libraries raise many exception types on such input"""
    from cryptography.hazmat.primitives.serialization import Encoding, PublicFormat
    HT = tls.HandshakeType
    hits = 0
    for i in range(n):
        kind = r.choice(["ec256", "rsa", "ed25519"])
        idt = S.ident(kind)
        der = idt[0].public_bytes(Encoding.DER)
        spki = idt[0].public_key().public_bytes(Encoding.DER, PublicFormat.SubjectPublicKeyInfo)
        lo = der.index(spki)
        hi = lo + len(spki)
        d = bytearray(der)
        for _ in range(r.choice([1, 1, 2, 3])):
            j = r.randrange(len(d))
            if lo <= j < hi and r.random() > 0.08:
                j = r.randrange(lo)          # mostly keep the key usable so that CertificateVerify verifies
            d[j] = r.choice([d[j] ^ (1 << r.randrange(8)), r.randrange(256), 0, 0xFF])
        p = D.Pair(D.client(ident=idt if kind != "rsa" else None), D.server(ident=idt))
        p.hello()
        assert p.serve() is None
        f = D.Forger(p)
        cert = ser(tls.push_certificate, tls.Certificate(certificates=[(bytes(d), b"")]))
        msgs = forge(tls, D, f, [HT.ENCRYPTED_EXTENSIONS, cert, HT.CERTIFICATE_VERIFY])
        exc, _ = D.feed(p.c, f.sh + b"".join(msgs))
        if judge(ctx, tls, f"mutated {kind} certificate with valid CertificateVerify #{i}", exc, msgs,
                 "_client_handle_certificate_verify" if p.c.state.name == "CLIENT_EXPECT_CERTIFICATE_VERIFY"
                 else "_client_handle_certificate"):
            hits += 1
    ctx.notes["tls_cert_fuzz"] = {"cases": n, "escapes": hits}


def connection_level(ctx, tls):
    """the same escape seen through QuicConnection.receive_datagram: a client
    that only offers a GREASE key share (configuration only, no forged bytes)"""
    from harness import sim as simmod
    s = simmod.Sim(7)
    try:
        s.client.conn.tls  # noqa  (created lazily by connect)
    except AttributeError:
        pass
    try:
        orig = tls.Context._client_send_hello

        def hello(self, output_buf):
            self._supported_groups = [tls.Group.GREASE]
            return orig(self, output_buf)

        tls.Context._client_send_hello = hello
        try:
            s.connect()
        finally:
            tls.Context._client_send_hello = orig
        s.fair_phase(max_steps=10)
    finally:
        s.close_taps()
    ctx.count(("tls-conn", "grease-only"), True)
    for api, exc in s.server.raised:
        ctx.witness(f"server QuicConnection.{api} raised {type(exc).__name__} on a ClientHello whose only key share is "
                    f"GREASE (no supported group)", {"scenario": "client _supported_groups=[GREASE]", "trace": s.log[-10:]},
                    {"oracle": "tls-raise", "exception": type(exc).__name__, "where": "_server_handle_hello"})


def run(ctx, tier):
    """TLS section of C05; call after tree.activate()"""
    from aioquic import tls
    from harness import tlsdrive as D, tlsscen as S
    D.tap_extract()
    thorough = tier == "thorough"
    server_cases(ctx, tls, D, S)
    client_cases(ctx, tls, D, S)
    fuzz(ctx, tls, D, S, rng.make("c05-tls"), 12000 if thorough else 700)
    cert_fuzz(ctx, tls, D, S, rng.make("c05-tls-cert"), 5000 if thorough else 400)
    try:
        connection_level(ctx, tls)
    except Exception as exc:   # harness problem, not a verdict
        ctx.notes["tls_connection_level"] = f"skipped: {type(exc).__name__}: {exc}"
    ctx.assumptions.append(
        "TLS part: application callbacks (alpn_cb, session ticket fetcher/handler) do not raise; "
        "X.509 / OpenSSL internals are exercised, not modelled")


def main(tier):
    ctx = core.Ctx("C05", tier)
    tree.activate()
    run(ctx, tier)
    ctx.cov["rule"] = ("TLS section only: hand-built hostile variants of every handshake message (key shares, SNI, ALPN, "
                       "missing / duplicate / empty extensions, PSK offers, certificates, CertificateVerify algorithm x "
                       "key-type matrix, CertificateRequest, NewSessionTicket) on real tls.Context objects in the state "
                       "that expects them, with a key-holding peer; plus PRNG mutation fuzz of genuine messages")
    return ctx.finish()


def owns(d):
    return d.get("signature", {}).get("oracle") == "tls-raise"


def replay_witness(d, path):
    """re-execute a recorded TLS witness on the current tree (after tree.activate()): a recorded
    ClientHello is fed again to a fresh server of the same configuration; client-side cases need
    fresh keys, so their family is regenerated (same PRNG stream) and the same case is looked up"""
    import os
    import re
    from aioquic import tls
    from harness import tlsdrive as D, tlsscen as S
    D.tap_extract()
    m = re.search(r"-(\d+)-\d+\.json$", os.path.basename(path))
    if m:
        os.environ["VERIF_SEED"] = m.group(1)
    case = d.get("replay", {}).get("case", "")
    ctx = core.Ctx("replay", "quick")
    sm = re.match(r"^server\[([\w-]+)\] ClientHello ", case)
    if sm:
        server_cases(ctx, tls, D, S, only=(sm.group(1), bytes.fromhex(d["replay"]["message"])))
        return [w["what"] for w in ctx.witnesses]
    idx = re.search(r"#(\d+)$", case)
    if case.startswith("fuzz "):
        fuzz(ctx, tls, D, S, rng.make("c05-tls"), int(idx.group(1)) + 1)
    elif case.startswith("mutated "):
        cert_fuzz(ctx, tls, D, S, rng.make("c05-tls-cert"), int(idx.group(1)) + 1)
    elif case.startswith("client "):
        client_cases(ctx, tls, D, S)
    else:
        connection_level(ctx, tls)
        return [w["what"] for w in ctx.witnesses]
    return [w["what"] for w in ctx.witnesses if w["replay"].get("case") == case]
