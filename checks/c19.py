"""C19 — asyncio adapter stays consistent under any event-loop schedule.

proof:   AQ.Props.C19 (waiters_once, reader_bytes, routing_inv, token_bound, … over ALL
         op sequences = all schedules of atomic callbacks) for AQ.Model.Adapter
tie:     T2 correspondence, two ways:
         (a) stub mode: op lines run on the real QuicConnectionProtocol / QuicServer over a
             scripted QuicConnection (its events / timer are the model's inputs) — exhaustive
             small scope, then random, including ill-formed event sequences;
         (b) real mode: real clients + real QuicServer on a virtual-time event loop over a lossy
             in-memory network; every callback is recorded as an op line with the QUIC events it
             saw and replayed on the model, comparing the projected state after every step.
oracle:  from the property text, on the real-mode runs: every wait_connected()/ping()/
         wait_closed() started at any point finishes with success or ConnectionError (and
         promptly when its deciding event is already in the past); reader bytes = writer bytes
         then EOF; routing table covers every advertised, unretired CID of every live connection
         after every step and nothing of a terminated one; foreign/forged retry tokens create
         no connection state.
"""
import itertools
import json
import logging
import os
import random
import time

from harness import core, lean, rng, tree

QUIRK = os.environ.get("C19_QUIRK", "0")


# ------------------------------------------------------------------ stub cases
def hx(r, n=8):
    return bytes(r.getrandbits(8) for _ in range(n)).hex()


class Gen:
    """generator of stub-mode cases; keeps just enough bookkeeping to number waiters and to keep
    ping uids unique among live waiters (CPython guarantees that for id())"""

    def __init__(self, r, retry, wellformed):
        self.r = r
        self.wf = wellformed
        self.lines = [f"adp.new {QUIRK}", f"adp.server {int(retry)}"]
        self.retry = retry
        self.nconn = 0
        self.server_conns = []
        self.wid = 0
        self.label = {}         # conn -> next fresh label
        self.free = {}          # conn -> labels certainly completed
        self.cids = []          # CIDs that may be in the table
        self.conn_cids = {}     # conn -> issued cids
        self.tokens = 0
        self.tok_addr = []
        self.dead = set()       # conns that saw T
        self.fin = {}           # (conn, sid) -> fin seen
        self.streams = {}       # conn -> sids with a writer
        self.client_only = False  # ping uids are re-used only where the bookkeeping above is exact

    def tat(self, c=None):
        if self.wf and c in self.dead:
            return "none"
        return self.r.choice(["none", "4652007308841189376", "4652007308841189377", "4652218415073722368"])

    def events(self, c, server_side, tx=False, certain=False):
        r = self.r
        if self.wf and c in self.dead:
            return "-"
        evs = []
        for _ in range(r.choice([0, 0, 1, 1, 2, 3])):
            k = r.random()
            if tx:
                k = 0.5 + k / 10 if self.wf else k
            if k < 0.12:
                evs.append("H")
            elif k < 0.2:
                evs.append("T")
                self.dead.add(c)
                if certain and not any(e[0] in "RD" for e in evs):
                    self.free.setdefault(c, set()).update(range(1, self.label.get(c, 1)))
                if self.wf:
                    break
            elif k < 0.35:
                lab = r.randrange(1, self.label.get(c, 1) + 1)
                evs.append(f"P{lab}")
                if certain and lab < self.label.get(c, 1) and not any(e[0] in "RD" for e in evs[:-1]):
                    self.free.setdefault(c, set()).add(lab)
            elif k < 0.5:
                cid = hx(r)
                if not self.wf and self.cids and r.random() < 0.2:
                    cid = r.choice(self.cids)
                evs.append("I" + cid)
                self.cids.append(cid)
                self.conn_cids.setdefault(c, []).append(cid)
            elif k < 0.6:
                own = self.conn_cids.get(c, [])
                if self.wf:
                    if not own or not server_side:
                        continue
                    cid = own.pop(r.randrange(len(own)))
                else:
                    cid = r.choice(own) if own and r.random() < 0.6 else (r.choice(self.cids) if self.cids and r.random() < 0.5 else hx(r))
                evs.append("R" + cid)
            elif k < 0.9:
                sid = r.choice([0, 1, 4, 5])
                fin = r.random() < 0.3
                if self.wf and self.fin.get((c, sid)):
                    continue
                data = hx(r, r.choice([0, 1, 3, 20]))
                evs.append(f"D{sid}:{data or '-'}:{int(fin)}")
                if fin:
                    self.fin[(c, sid)] = True
                self.streams.setdefault(c, set()).add(sid)
            else:
                evs.append("O")
        return ",".join(evs) if evs else "-"

    def conn(self):
        self.lines.append("adp.conn")
        self.nconn += 1
        self.label[self.nconn - 1] = 1

    def proto_op(self, c):
        r = self.r
        ss = c in self.server_conns
        k = r.random()
        if k < 0.25 and not ss:
            self.lines.append(f"adp.dgram {c} {self.tat(c)} {self.events(c, ss, certain=True)} {self.events(c, ss, True)}")
        elif k < 0.35:
            self.lines.append(f"adp.timer {c} {self.tat(c)} {self.events(c, ss)} {self.events(c, ss, True)}")
        elif k < 0.45:
            self.lines.append(f"adp.transmit {c} {self.tat(c)} {self.events(c, ss, True)}")
        elif k < 0.57:
            self.lines.append(f"adp.waitconn {c} {self.wid}")
            self.wid += 1
        elif k < 0.67:
            self.lines.append(f"adp.waitclosed {c} {self.wid}")
            self.wid += 1
        elif k < 0.79:
            free = self.free.get(c, set()) if self.client_only else set()
            if free and r.random() < 0.5:
                lab = free.pop()
            else:
                lab = self.label.get(c, 1)
                self.label[c] = lab + 1
            tx = ",".join(e for e in self.events(c, ss, True).split(",") if e[0] != "P") or "-"
            self.lines.append(f"adp.ping {c} {self.wid} {lab} {self.tat(c)} {tx}")
            self.wid += 1
        elif k < 0.815 and self.wid:
            self.lines.append(f"adp.cancel {c} {r.randrange(self.wid)}")
        elif k < 0.84:
            self.lines.append(f"adp.close {c} {self.tat(c)} {self.events(c, ss, True)}")
        elif k < 0.89:
            sid = r.choice([0, 4, 8])
            if self.wf and (sid in self.streams.get(c, set()) or c in self.dead):
                return
            self.lines.append(f"adp.mkstream {c} {sid}")
            self.streams.setdefault(c, set()).add(sid)
        elif k < 0.96:
            self.lines.append(f"adp.write {c} {r.choice([0, 1, 4, 8])} {hx(r, r.choice([0, 1, 5])) or '-'}")
        else:
            self.lines.append(f"adp.eof {c} {r.choice([0, 1, 4, 8])}")

    def sdgram(self):
        r = self.r
        addr = r.choice([0, 0, 1, 2, 3, 4, 5, 6, 7, 8, 9])
        k = r.random()
        if k < 0.05:
            self.lines.append(f"adp.sdgram {addr} bad - - - - - none - -")
            return
        if k < 0.1:
            self.lines.append(f"adp.sdgram {addr} vn - - - - - none - -")
            return
        known = self.cids and r.random() < 0.55
        dcid = r.choice(self.cids) if known else hx(r)
        ptype = "O" if known and r.random() < 0.8 else r.choice(["I", "I", "O"])
        big = int(r.random() < 0.8)
        tok = "-"
        if self.retry and ptype == "I":
            t = r.random()
            if t < 0.4 and self.tokens:
                k2 = r.randrange(self.tokens)
                tok = f"s{k2}"
                if r.random() < 0.5:
                    addr = self.tok_addr[k2]
                elif self.tok_addr[k2] == 0:
                    addr = r.choice([4, 5, 6, 7, 8, 9])     # a neighbour of the address the token was issued to
            elif t < 0.6:
                tok = f"f{r.randrange(6)}"
        rand = hx(r)
        if not self.wf and self.cids and r.random() < 0.05:
            rand = r.choice(self.cids)
        # bookkeeping: what will happen is decided by the implementation / the model; the generator
        # only needs a superset of the CIDs that may be routed and a guess at new connections
        creates = (not known) and ptype == "I" and big and (not self.retry or tok.startswith("s"))
        retry_issue = (not known) and ptype == "I" and big and self.retry and tok == "-"
        c = self.nconn if creates else None
        evs = self.events(c if c is not None else -1, True) if (creates or known) else "-"
        tx = self.events(c if c is not None else -1, True, True) if (creates or known) else "-"
        self.lines.append(f"adp.sdgram {addr} h {dcid} {ptype} {big} {tok} {rand} {self.tat()} {evs} {tx}")
        if retry_issue:
            self.tokens += 1
            self.tok_addr.append(addr)
            self.cids.append(rand)
        if creates:
            # the implementation may still refuse (token of another address): then indices shift and the
            # case simply exercises other paths; both sides agree on "no such connection"
            if not self.retry or self.tok_addr[int(tok[1:])] == addr:
                self.server_conns.append(self.nconn)
                self.label[self.nconn] = 1
                self.nconn += 1
                self.cids += [dcid, rand]
                self.conn_cids.setdefault(c, []).append(rand)


def gen_case(r, n_ops, wellformed):
    g = Gen(r, retry=r.random() < 0.5, wellformed=wellformed)
    g.client_only = r.random() < 0.3
    if g.client_only or r.random() < 0.8:
        g.conn()
    for _ in range(n_ops):
        k = r.random()
        if k < 0.03 and g.nconn < 4:
            g.conn()
        elif k < 0.3 and not g.client_only:
            g.sdgram()
        elif g.nconn:
            g.proto_op(r.randrange(g.nconn))
    return g.lines


CLIENT_ALPHABET = [
    "D H", "D T", "D P1", "D D0:aa:0", "D D0:bb:1", "W", "P", "C", "X", "T", "S", "M", "w", "e",
]


def small_scope_client(depth):
    """every sequence of `depth` atomic steps over the alphabet, on one client protocol"""
    cases = []
    for seq in itertools.product(CLIENT_ALPHABET, repeat=depth):
        lines = [f"adp.new {QUIRK}", "adp.server 0", "adp.conn"]
        wid = 0
        lab = 1
        for s in seq:
            if s.startswith("D "):
                lines.append(f"adp.dgram 0 4652007308841189376 {s[2:]} -")
            elif s == "W":
                lines.append(f"adp.waitconn 0 {wid}")
                wid += 1
            elif s == "C":
                lines.append(f"adp.waitclosed 0 {wid}")
                wid += 1
            elif s == "P":
                lines.append(f"adp.ping 0 {wid} {lab} 4652007308841189377 -")
                wid += 1
                lab += 1
            elif s == "X":
                lines.append("adp.close 0 4652007308841189378 -")
            elif s == "T":
                lines.append("adp.timer 0 none T -")
            elif s == "S":
                lines.append("adp.transmit 0 none H")
            elif s == "M":
                lines.append("adp.mkstream 0 0")
            elif s == "w":
                lines.append("adp.write 0 0 0102")
            elif s == "e":
                lines.append("adp.eof 0 0")
        cases.append(lines)
    return cases


SERVER_ALPHABET = ["N0", "N1", "T0", "T1x", "T4", "T5", "T8", "F", "R", "I", "Rt", "Tm", "K", "V"]


def small_scope_server(depth):
    """retry-validating server: every sequence of `depth` datagrams / callbacks"""
    cases = []
    A, B = "aaaaaaaaaaaaaaaa", "bbbbbbbbbbbbbbbb"
    for seq in itertools.product(SERVER_ALPHABET, repeat=depth):
        lines = [f"adp.new {QUIRK}", "adp.server 1"]
        n = 0
        for s in seq:
            n += 1
            rnd = "%016x" % (0xC0 + n)
            if s == "N0":      # Initial without token from address 0
                lines.append(f"adp.sdgram 0 h {A} I 1 - {rnd} none - -")
            elif s == "N1":    # … from address 1, too small to be answered
                lines.append(f"adp.sdgram 1 h {B} I 0 - {rnd} none - -")
            elif s == "T0":    # Initial with the first token from the address it was issued to
                lines.append(f"adp.sdgram 0 h 00000000000000c1 I 1 s0 {rnd} 4652007308841189376 H Icc00000000000001")
            elif s == "T1x":   # the same token from another address
                lines.append(f"adp.sdgram 1 h 00000000000000c1 I 1 s0 {rnd} 4652007308841189376 H -")
            elif s in ("T4", "T5", "T8"):   # the same token from a neighbour of address 0 (port+256, port^0x8000, v6-mapped)
                lines.append(f"adp.sdgram {s[1]} h 00000000000000c1 I 1 s0 {rnd} 4652007308841189376 H -")
            elif s == "F":     # forged token
                lines.append(f"adp.sdgram 0 h {B} I 1 f0 {rnd} none - -")
            elif s == "R":     # short-header datagram to an advertised CID
                lines.append("adp.sdgram 0 h cc00000000000001 O 0 - - 4652007308841189377 Rcc00000000000001 Icc00000000000002")
            elif s == "I":
                lines.append("adp.sdgram 0 h 00000000000000c1 O 0 - - 4652007308841189377 - Icc00000000000003")
            elif s == "Rt":    # retire an ID that was never issued
                lines.append("adp.sdgram 0 h 00000000000000c1 O 0 - - 4652007308841189377 Rdd00000000000001 -")
            elif s == "Tm":
                lines.append("adp.timer 0 none T -")
            elif s == "K":
                lines.append("adp.sdgram 0 bad - - - - - none - -")
            elif s == "V":
                lines.append("adp.sdgram 0 vn - - - - - none - -")
        cases.append(lines)
    return cases


def waiter_oracle(case, out):
    """waiter clause read off the implementation's own outputs, for schedules that include cancellation of the
    awaiting application task: (i) completing a waiter never raises (InvalidStateError = a future that was
    cancelled or completed from outside); (ii) a waiter future is never cancelled — only the caller is;
    (iii) on a line whose events contain ConnectionTerminated and that did not fail, the connection is closed
    and no ping / connect waiter stays registered"""
    for line, o in zip(case, out):
        head = o.split(" | ")[0]
        if head.startswith("err InvalidStateError"):
            return f"{line.split()[0][4:]} callback raised InvalidStateError while completing a waiter: {line!r}"
    for line, o in zip(case, out):
        head = o.split(" | ")[0]
        if ":cancelled" in head:
            return f"a waiter future was cancelled from outside (only its caller may be): {line!r} -> {head}"
        t = line.split()
        evs = []
        if t[0] in ("adp.dgram", "adp.timer") and head.startswith("ok") and "skip" not in head:
            evs = (t[3] + "," + t[4]).split(",")
        if "T" in evs and " | " in o:
            st = core.parse_kv(o.split(" | ")[1])
            if st.get("cl") != "1" or st.get("pw") != "[]" or st.get("cf") != "0":
                return f"ConnectionTerminated was processed but waiters remain / _closed is not set: {line!r} -> {o[:160]}"
    return None


def small_scope_cancel():
    """cancellation of the awaiting task as a schedule event: a target ping with 0-2 other pings outstanding and
    optionally a wait_closed(), then every sequence of 3 steps over {cancel target, ack target, terminate, ack
    other, cancel other, cancel the close waiter, scheduled transmit}"""
    cases = []
    alphabet = ["Xt", "At", "T", "Ao", "Xo", "Xc", "S"]
    for others in (0, 1, 2):
        for closer in (False, True):
            pre = [f"adp.new {QUIRK}", "adp.server 0", "adp.conn"]
            wid = 0
            for k in range(others):
                pre.append(f"adp.ping 0 {wid} {k + 1} 4652007308841189377 -")
                wid += 1
            tgt, tlab = wid, others + 1
            pre.append(f"adp.ping 0 {tgt} {tlab} 4652007308841189377 -")
            wid += 1
            cw = None
            if closer:
                cw = wid
                pre.append(f"adp.waitclosed 0 {cw}")
            for seq in itertools.product(alphabet, repeat=3):
                if ("Ao" in seq or "Xo" in seq) and others == 0:
                    continue
                if "Xc" in seq and cw is None:
                    continue
                lines = list(pre)
                for s in seq:
                    if s == "Xt":
                        lines.append(f"adp.cancel 0 {tgt}")
                    elif s == "At":
                        lines.append(f"adp.dgram 0 4652007308841189376 P{tlab} -")
                    elif s == "T":
                        lines.append("adp.dgram 0 none T -")
                    elif s == "Ao":
                        lines.append("adp.dgram 0 4652007308841189376 P1 -")
                    elif s == "Xo":
                        lines.append("adp.cancel 0 0")
                    elif s == "Xc":
                        lines.append(f"adp.cancel 0 {cw}")
                    elif s == "S":
                        lines.append("adp.transmit 0 4652007308841189378 -")
                cases.append(lines)
    # the same for wait_connected(): cancel before / after HandshakeCompleted / ConnectionTerminated, one or two callers
    for callers in (1, 2):
        pre = [f"adp.new {QUIRK}", "adp.server 0", "adp.conn"] + [f"adp.waitconn 0 {w}" for w in range(callers)]
        for seq in itertools.product(["X0", "X1", "H", "T", "W"], repeat=3):
            if "X1" in seq and callers == 1:
                continue
            lines, wid = list(pre), callers
            for s in seq:
                if s in ("X0", "X1"):
                    lines.append(f"adp.cancel 0 {s[1]}")
                elif s == "H":
                    lines.append("adp.dgram 0 4652007308841189376 H -")
                elif s == "T":
                    lines.append("adp.dgram 0 none T -")
                else:
                    lines.append(f"adp.waitconn 0 {wid}")
                    wid += 1
            cases.append(lines)
    return cases


def token_oracle(case, out):
    """retry clause of the property, read off the implementation's own outputs: a server that validates
    addresses creates connection state only for a token it issued, and only when the datagram comes from
    the very address (host AND port) the token was issued to"""
    from harness.impl_adapter import AdapterImpl
    if "adp.server 1" not in case[:2]:
        return None
    issued = {}
    for line, o in zip(case, out):
        t = line.split()
        if t[0] != "adp.sdgram" or t[2] != "h":
            continue
        addr, tok = int(t[1]), t[6]
        m = o.split()
        if len(m) >= 3 and m[0] == "ok" and m[1] == "retry":
            issued[m[2]] = addr
        elif len(m) >= 2 and m[0] in ("ok", "err") and "new" in m[1:3]:
            src = AdapterImpl.ADDRS[addr]
            if tok not in issued:
                return (f"retry-validating server created connection state for an Initial from {src} carrying "
                        f"token {tok!r}, which it never issued")
            to = AdapterImpl.ADDRS[issued[tok]]
            if to != src:
                return (f"retry token issued to {to} was accepted from {src}: connection state created for an "
                        f"address the token was not issued to")
    return None


def run_stub(ctx, name, cases):
    from harness.impl_adapter import AdapterImpl
    impl_lines, all_lines = [], []
    for case in cases:
        impl = AdapterImpl()
        try:
            out = [impl.step(l) for l in case]
        finally:
            impl.close()
        impl_lines += out
        all_lines += case
        p = token_oracle(case, out)
        if p:
            ctx.witness(p, {"ops": case, "impl_output": out}, {"oracle": "token", "kind": "foreign-token-accepted"})
        p = waiter_oracle(case, out)
        if p:
            ctx.witness(p, {"ops": case, "impl_output": out, "stub_oracle": "waiter"},
                        {"oracle": "waiter", "kind": "completion-raised-or-waiter-cancelled"})
        nt = any("done=[" in o and "done=[]" not in o for o in out)
        ctx.count((name, tuple(case)), nt)
    model_lines = lean.run_driver(all_lines)
    mism = core.diff_streams(ctx, name, cases, impl_lines, model_lines)
    for m in mism[:3]:
        if m[0] >= 0:
            ci, oi, il, ml = m
            ctx.disagreement(name, cases[ci][: oi + 1], ml, il, oi)
    ctx.cov["traces_validated_against_impl"] += len(cases)
    return len(mism)


def encode_grid(ctx):
    """retry.py encode_address against the model's encodeAddress (every port for one host, all byte-boundary
    patterns for the others, unencodable ports), and — from the property text — distinct source addresses
    must never share an encoding (else a token "issued to that address" is honoured from another one)"""
    import socket
    from aioquic.quic.retry import encode_address
    pats = [0, 1, 0x0F, 0x10, 0x7F, 0x80, 0xA0, 0xFE, 0xFF]
    grid = sorted({hi * 256 + lo for hi in pats for lo in pats} | {4000, 4256, 3744, 4000 ^ 0x8000, 4001})
    hosts = ["10.0.0.1", "0.0.0.0", "255.255.255.255", "192.168.1.77", "::1", "::ffff:10.0.0.1", "2001:db8::ff00:42:8329"]
    lines, outs, seen = [], [], {}
    for hi, host in enumerate(hosts):
        packed = socket.inet_pton(socket.AF_INET6 if ":" in host else socket.AF_INET, host)
        ports = list(range(65536)) if hi == 0 else grid
        for port in ports + [65536, 70000, 1 << 20]:
            lines.append(f"adp.encaddr {packed.hex()} {port}")
            try:
                b = encode_address((host, port))
            except Exception as e:
                outs.append("err " + type(e).__name__)
                continue
            outs.append("ok " + b.hex())
            if port < 65536:
                other = seen.setdefault(b, (host, port))
                if other != (host, port):
                    ctx.witness(f"encode_address maps the distinct source addresses {other} and {(host, port)} to the same "
                                f"bytes {b.hex()}: a retry token issued to one is valid from the other",
                                {"encode_address": [list(other), [host, port]]},
                                {"oracle": "token", "kind": "address-encoding-collision"})
    model = lean.run_driver(lines)
    for i, (l, o, m) in enumerate(zip(lines, outs, model)):
        if o != m:
            ctx.disagreement("encode-address", [l], m, o, 0)
            break
    ctx.cov["evaluations"] += len(lines)
    ctx.cov["traces_validated_against_impl"] += 1


# ------------------------------------------------------------------ real worlds
def plan_for(r):
    modes = ["late", "client", "server", "idle", "error"]
    n = r.choice([1, 2, 2, 3])
    return {"clients": n, "close_modes": [r.choice(modes) for _ in range(n)],
            "close_after": [r.choice([0.005, 0.02, 0.2, 1.0, 5.0]) for _ in range(n)],
            "retry": r.random() < 0.4, "p_drop": r.choice([0.0, 0.05, 0.15, 0.3]), "p_dup": r.choice([0.0, 0.1, 0.3]),
            "idle_timeout": r.choice([3.0, 8.0])}


def run_worlds(ctx, r, n):
    from harness import impl_adapter as A
    cases, impl_out = [], []
    notes = {}
    busy = 0
    for _ in range(n):
        seed = r.randrange(1 << 30)
        plan = plan_for(random.Random(seed))
        w = A.World(seed, plan)
        try:
            w.run()
        except A.BusyTimer as e:
            busy += 1
            ctx.witness(f"QUIC layer keeps a deadline in the past: {e}", {"seed": seed, "plan": plan},
                        {"oracle": "busy-timer"})
            continue
        lines, outs = w.trace()
        cases.append(lines)
        impl_out += outs
        for k, v in w.notes.items():
            notes[k] = notes.get(k, 0) + v
        notes["routing_checks"] = notes.get("routing_checks", 0) + w.routing_checks
        notes["waiters"] = notes.get("waiters", 0) + len(w.waiters)
        notes["prompt_waiters"] = notes.get("prompt_waiters", 0) + sum(1 for x in w.waiters if x.prompt)
        ctx.count(("world", seed), w.notes["terminated"] > 0 and len(w.waiters) > 2)
        for what, sig in w.problems:
            ctx.witness(what, {"seed": seed, "plan": plan, "trace_tail": lines[-25:]}, sig)
    flat = [l for c in cases for l in c]
    model_out = lean.run_driver(flat) if flat else []
    mism = core.diff_streams(ctx, "adapter-real", cases, impl_out, model_out)
    for m in mism[:3]:
        if m[0] >= 0:
            ci, oi, il, ml = m
            ctx.disagreement("adapter-real", cases[ci][max(0, oi - 12): oi + 1], ml, il, oi)
    ctx.cov["traces_validated_against_impl"] += len(cases)
    notes["busy_timer_worlds"] = busy
    notes["real_steps"] = len(flat)
    return notes, len(mism)


def run_quiet(ctx, r, seeds_per_case):
    """writer operations separated by quiescence (see harness.impl_adapter.QuietWorld): every owner x sequence"""
    from harness import impl_adapter as A
    cases, impl_out = [], []
    n = 0
    for owner in A.QUIET_OWNERS:
        for name in A.QUIET_SEQUENCES:
            for _ in range(seeds_per_case):
                seed = r.randrange(1 << 30)
                w = A.QuietWorld(seed, owner, name).run()
                n += 1
                lines, outs = w.trace()
                cases.append(lines)
                impl_out += outs
                ctx.count(("quiet", owner, name, seed), not any(s.get("oracle") == "harness" for _, s in w.problems))
                for what, sig in w.problems:
                    ctx.witness(what, {"quiet": {"seed": seed, "owner": owner, "sequence": name},
                                       "trace_tail": lines[-12:]}, sig)
    flat = [l for c in cases for l in c]
    model_out = lean.run_driver(flat) if flat else []
    mism = core.diff_streams(ctx, "adapter-quiet", cases, impl_out, model_out)
    for m in mism[:3]:
        if m[0] >= 0:
            ci, oi, il, ml = m
            ctx.disagreement("adapter-quiet", cases[ci][max(0, oi - 12): oi + 1], ml, il, oi)
    ctx.cov["traces_validated_against_impl"] += len(cases)
    return n


ATOMIC_METHODS = {
    "asyncio/protocol.py": {
        "QuicConnectionProtocol": ["change_connection_id", "close", "connect", "request_key_update", "transmit",
                                   "connection_made", "datagram_received", "quic_event_received", "_create_stream",
                                   "_handle_timer", "_process_events", "_transmit_soon"],
        "QuicStreamAdapter": ["write", "write_eof", "close"],
    },
    "asyncio/server.py": {
        "QuicServer": ["close", "connection_made", "datagram_received", "_connection_id_issued",
                       "_connection_id_retired", "_connection_terminated"],
    },
}
# coroutines of the API: the model's atomic step is the synchronous part up to the ONE await that ends them
SINGLE_AWAIT = {"asyncio/protocol.py": {"QuicConnectionProtocol": {"ping": 1, "wait_connected": 1, "wait_closed": 1,
                                                                     "create_stream": 0}}}
# coroutines that register a waiter future the adapter completes later: the await must be shielded
SHIELDED = {"ping", "wait_connected"}
REENTER = {"run_until_complete", "run_forever"}


def atomicity_audit(ctx):
    """TRUSTED-BASE AUDIT ("asyncio callbacks are atomic").  The model treats each of these methods as one
    atomic step.  That is sound only while they are plain functions: no `async def`, no generator, no call
    that re-enters the event loop — and while each API coroutine suspends exactly once, as its last action.
    Checked on the source under test (every plain method of the classes is checked for yield points /
    re-entry, so extracted helpers are covered)."""
    import ast
    problems = []
    for rel, classes in ATOMIC_METHODS.items():
        mod = ast.parse(open(tree.src(rel)).read())
        for cname, wanted in classes.items():
            cls = next((n for n in mod.body if isinstance(n, ast.ClassDef) and n.name == cname), None)
            if cls is None:
                problems.append(f"{rel}: class {cname} not found")
                continue
            methods = {n.name: n for n in cls.body if isinstance(n, (ast.FunctionDef, ast.AsyncFunctionDef))}
            for name in wanted:
                m = methods.get(name)
                if m is None:
                    problems.append(f"{rel}: {cname}.{name} (modelled as an atomic step) does not exist")
                elif isinstance(m, ast.AsyncFunctionDef):
                    problems.append(f"{rel}: {cname}.{name} is now `async def`: it can be suspended in the middle, "
                                    f"the model treats it as atomic")
            single = SINGLE_AWAIT.get(rel, {}).get(cname, {})
            for name, m in methods.items():
                inner = [n for n in ast.walk(m) if n is not m]
                nested = {id(x) for n in inner if isinstance(n, (ast.FunctionDef, ast.AsyncFunctionDef, ast.Lambda))
                          for x in ast.walk(n) if x is not n}
                body_nodes = [n for n in inner if id(n) not in nested]
                for n in body_nodes:
                    if isinstance(n, (ast.Yield, ast.YieldFrom)):
                        problems.append(f"{rel}: {cname}.{name} contains a yield point (line {n.lineno})")
                    if isinstance(n, ast.Call) and isinstance(n.func, ast.Attribute) and (
                            n.func.attr in REENTER or (n.func.attr == "run" and isinstance(n.func.value, ast.Name)
                                                       and n.func.value.id == "asyncio")):
                        problems.append(f"{rel}: {cname}.{name} re-enters the event loop "
                                        f"({n.func.attr}, line {n.lineno})")
                if isinstance(m, ast.AsyncFunctionDef):
                    awaits = [n for n in body_nodes if isinstance(n, (ast.Await, ast.AsyncFor, ast.AsyncWith))]
                    if name not in single:
                        problems.append(f"{rel}: {cname}.{name} is a coroutine the model does not know")
                        continue
                    if len(awaits) != single[name]:
                        problems.append(f"{rel}: {cname}.{name} has {len(awaits)} suspension points, the model "
                                        f"assumes {single[name]}")
                    elif awaits and name in SHIELDED and not (
                            isinstance(awaits[0], ast.Await) and isinstance(awaits[0].value, ast.Call)
                            and isinstance(awaits[0].value.func, ast.Attribute) and awaits[0].value.func.attr == "shield"):
                        problems.append(f"{rel}: {cname}.{name} awaits its waiter future without asyncio.shield (line "
                                        f"{awaits[0].lineno}): cancelling the caller would cancel the registered waiter, "
                                        f"which the model (Op.cancelCaller) excludes")
                    elif awaits and not _is_last_action(m, awaits[0]):
                        problems.append(f"{rel}: {cname}.{name} runs code after its await (line {awaits[0].lineno}): "
                                        f"the part after the suspension is not modelled")
                elif name in single:
                    problems.append(f"{rel}: {cname}.{name} is no longer a coroutine")
    for msg in problems:
        ctx.broken.append({"kind": "audit", "atomicity": msg})
    ctx.notes["atomicity_audit"] = "ok" if not problems else problems
    return problems


def _is_last_action(fn, aw):
    """the statement holding `aw` is the last of its block, and so is every enclosing compound statement"""
    import ast

    def last_in(block, target):
        if not block:
            return False
        st = block[-1]
        if any(x is target for x in ast.walk(st)):
            if isinstance(st, ast.Expr) or isinstance(st, (ast.Return, ast.Assign, ast.AugAssign, ast.AnnAssign)):
                return True
            blocks = [getattr(st, f) for f in ("body", "orelse", "finalbody") if getattr(st, f, None)]
            if isinstance(st, ast.Try):
                return False
            return any(last_in(b, target) for b in blocks if any(x is target for s2 in b for x in ast.walk(s2)))
        return False

    return last_in(fn.body, aw)


def run_retry_worlds(ctx, r, seeds_per_case):
    """retry-validating server: further datagrams addressed to the Retry source CID arrive before the client
    switches to the server's own CID (see harness.impl_adapter.RetryWorld)"""
    from harness import impl_adapter as A
    cases, impl_out = [], []
    n = 0
    for sc in A.RETRY_SCENARIOS:
        for _ in range(seeds_per_case):
            seed = r.randrange(1 << 30)
            w = A.RetryWorld(seed, sc).run()
            n += 1
            lines, outs = w.trace()
            cases.append(lines)
            impl_out += outs
            extra = sum(1 for s in w.tr.steps if s["op"] == "sdgram" and s["result"].startswith("route")
                        and " I " in s["line"])
            ctx.count(("retry-world", sc, seed), extra > 0)
            for what, sig in w.problems:
                ctx.witness(what, {"retry_world": {"seed": seed, "scenario": sc}, "trace_tail": lines[-12:]}, sig)
    flat = [l for c in cases for l in c]
    model_out = lean.run_driver(flat) if flat else []
    mism = core.diff_streams(ctx, "adapter-retry", cases, impl_out, model_out)
    for m in mism[:3]:
        if m[0] >= 0:
            ci, oi, il, ml = m
            ctx.disagreement("adapter-retry", cases[ci][max(0, oi - 12): oi + 1], ml, il, oi)
    ctx.cov["traces_validated_against_impl"] += len(cases)
    return n


def main(tier):
    ctx = core.Ctx("C19", tier)
    tree.activate()
    logging.disable(logging.CRITICAL)
    ctx.prove(["AQ.Props.C19"], [])
    atomicity_audit(ctx)
    ctx.cov["trusted_base"] = [
        "Lean 4.33.0 kernel (+ leanchecker in thorough tier)",
        "axioms: subset of {propext, Classical.choice, Quot.sound} (audited by #print axioms)",
        "model AQ.Model.Adapter follows protocol.py / server.py with fixes/C19-*.diff applied; the QUIC events, "
        "get_timer() value, id(waiter), os.urandom CIDs and the parsed header of each callback are inputs",
        "harness/vloop.py (virtual-time SelectorEventLoop subclass, in-memory network) and harness/impl_adapter.py "
        "(tracing subclasses, canonical lines); CPython asyncio semantics (callbacks run to completion, call_soon FIFO) — "
        "audited on every run: the modelled methods are plain defs without yield points or loop re-entry, each API "
        "coroutine suspends once, as its last action (atomicity_audit)",
    ]
    ctx.assumptions = [
        "C05/C16: receive_datagram / handle_timer / datagrams_to_send do not raise (an exception would skip transmit() "
        "and leave the timer unarmed)",
        "event order (EventStreamOK: nothing after ConnectionTerminated; per stream nothing after end_stream) — an explicit "
        "hypothesis that Props.C19.event_order_discharged DERIVES from C09 terminated_once and C01 (c01_nothing_after_end)",
        "C18: ConnectionIdRetired only for an ID issued by this connection and not yet retired; os.urandom connection IDs "
        "do not collide with routed IDs (ghost monitors vCid / vRand); create_stream IDs fresh (vStream)",
        "LiveDistinct: id(waiter) differs from the ids of the ping waiters alive at that moment (CPython object identity of "
        "simultaneously live objects; re-use after completion allowed)",
        "unforgeable seal: a token that validates under the server's RSA key was produced by its create_token "
        "(RSA-OAEP with a key pair that never leaves QuicRetryTokenHandler)",
        "end-to-end byte equality composes with C01/C10 (QUIC stream delivery) — the adapter clause proved here is "
        "reader content = concatenation of the StreamDataReceived data, then EOF",
    ]
    thorough = tier == "thorough"
    r = rng.make("c19")
    t0 = time.time()
    # (a) stub mode
    run_stub(ctx, "adapter-small-client", small_scope_client(3 if not thorough else 4))
    run_stub(ctx, "adapter-small-server", small_scope_server(3 if not thorough else 4))
    run_stub(ctx, "adapter-small-cancel", small_scope_cancel())
    n = 250 if not thorough else 5000
    run_stub(ctx, "adapter-random-wf", [gen_case(r, r.choice([8, 20, 40]), True) for _ in range(n)])
    run_stub(ctx, "adapter-random-any", [gen_case(r, r.choice([8, 20, 40]), False) for _ in range(n)])
    encode_grid(ctx)
    ctx.cov["exhaustive"] = True
    ctx.notes["stub_s"] = round(time.time() - t0, 1)
    # (b) real mode
    t1 = time.time()
    ctx.notes["quiet_worlds"] = run_quiet(ctx, r, 1 if not thorough else 8)
    ctx.notes["retry_worlds"] = run_retry_worlds(ctx, r, 2 if not thorough else 20)

    def search():
        # failing-input search used when an obligation / correspondence broke without a witness: more of the
        # scenario families whose oracles are written from the property text
        rs = rng.make("c19-search")
        run_retry_worlds(ctx, rs, 10)
        run_quiet(ctx, rs, 3)
        run_worlds(ctx, rs, 150)

    ctx.search = search
    notes, _ = run_worlds(ctx, r, 120 if not thorough else 4000)
    ctx.notes.update(notes)
    ctx.notes["real_s"] = round(time.time() - t1, 1)
    ctx.sample({"stub": gen_case(rng.make("c19-sample"), 8, True)[:8]})
    ctx.cov["rule"] = (
        "stub mode: every sequence of 3 (thorough: 4) atomic steps over 14 client-side and 11 server-side step kinds, then "
        "random interleavings of datagram/timer/transmit callbacks with arbitrary event lists (well-formed and ill-formed: "
        "events after termination, data after FIN, unknown/foreign retired IDs, colliding IDs), API coroutines, stream writes "
        "and server datagrams (bad header, unsupported version, Initial with no/issued/foreign-address/forged token). Real "
        "mode: 1-3 concurrent real clients against a real QuicServer (retry on in 40%) on a virtual-time loop, network "
        "dropping 0-30%, duplicating 0-30%, delaying 0-40 ms (reordering), PRNG order among timers due together; close by "
        "client, by server, by injected bad frame, by blackhole + idle timeout, at a PRNG time incl. mid-handshake; waiters "
        "started before/after handshake and after termination, a quarter of the awaiting tasks cancelled by the "
        "application after a PRNG delay; stub mode enumerates cancel of the target / another / the close waiter against "
        "ack and termination with 0-2 other waiters; forged-token adversary that also replays every issued "
        "token from the neighbours of its address (port +-256, high byte only, +1, other host, v6-mapped). Quiescence "
        "worlds: lossless network, idle timeout 60 s, writer ops (write / write_eof / close) of client-initiated, "
        "server-initiated and echoed streams separated by 2 s of virtual quiet, 9 op orders, peer reader checked after each. "
        "Retry worlds: retry=True, one client, lossless net with scenario policy: client datagrams duplicated, server "
        "first flight dropped (client PTO re-sends its Initial to the Retry source CID), ClientHello split over two "
        "datagrams, combinations; oracle after every step: every ID the server handed to a client (Retry SCID, advertised "
        "host CIDs) and not retired routes to its protocol object, no datagram to such an ID creates a second state. "
        "encode_address vs model over all 65536 ports and byte-boundary grids of 7 hosts. Non-trivial = a waiter completed "
        "(stub) / connection terminated with >2 waiters (real); distinct by op-sequence or seed hash."
    )
    return ctx.finish()


def replay(path):
    """./check C19 --replay <file>: re-run a recorded witness (real-mode world by seed + plan, or a
    stub-mode op list) on the tree under test and on the model"""
    tree.activate()
    logging.disable(logging.CRITICAL)
    rec = json.load(open(path))
    from harness import impl_adapter as A
    rp = rec.get("replay", {}) if rec.get("kind") == "impl-witness" else {}
    if "ops" in rp:                      # stub-mode witness of the retry-token oracle
        impl = A.AdapterImpl()
        try:
            out = [impl.step(l) for l in rp["ops"]]
        finally:
            impl.close()
        p = waiter_oracle(rp["ops"], out) if rp.get("stub_oracle") == "waiter" else token_oracle(rp["ops"], out)
        for l, o in zip(rp["ops"], out):
            print(l, "\n    ", o[:160])
        print("PROBLEM " + p if p else "no problem on this tree")
        return 1 if p else 0
    if "retry_world" in rp:
        q = rp["retry_world"]
        w = A.RetryWorld(q["seed"], q["scenario"]).run()
        for what, sig in w.problems:
            print("PROBLEM", sig, what)
        if not w.problems:
            print("no problem on this tree")
        return 1 if w.problems else 0
    if "quiet" in rp:                    # writer operations separated by quiescence
        q = rp["quiet"]
        w = A.QuietWorld(q["seed"], q["owner"], q["sequence"]).run()
        for what, sig in w.problems:
            print("PROBLEM", sig, what)
        if not w.problems:
            print("no problem on this tree")
        return 1 if w.problems else 0
    if "encode_address" in rp:
        from aioquic.quic.retry import encode_address
        a, b = [tuple(x) for x in rp["encode_address"]]
        ea, eb = encode_address(a), encode_address(b)
        print(a, ea.hex(), b, eb.hex())
        print("PROBLEM same encoding for distinct addresses" if ea == eb else "no problem on this tree")
        return 1 if ea == eb else 0
    if rec.get("kind") == "impl-witness" and "seed" in rec.get("replay", {}):
        rp = rec["replay"]
        w = A.World(rp["seed"], rp["plan"])
        try:
            w.run()
        except A.BusyTimer as e:
            print("busy timer:", e)
            return 1
        for what, sig in w.problems:
            print("PROBLEM", sig, what)
        lines, outs = w.trace()
        model = lean.run_driver(lines)
        for i, (l, o, m) in enumerate(zip(lines, outs, model)):
            if o != m:
                print(f"model/implementation differ at step {i}: {l}\n  impl  {o}\n  model {m}")
                break
        return 1 if w.problems else 0
    for b in rec.get("broken", []):
        ops = b.get("ops")
        if not ops:
            continue
        if not ops[0].startswith("adp.new"):
            print("(trace tail only; re-run the check with the same VERIF_SEED to regenerate the world)")
            continue
        impl = A.AdapterImpl()
        out = [impl.step(l) for l in ops]
        impl.close()
        model = lean.run_driver(ops)
        for l, o, m in zip(ops, out, model):
            print(l)
            print("   impl ", o)
            print("   model", m)
    return 1
