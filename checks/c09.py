"""C09 — a live connection always has a timer, and closing always terminates.

proof:   AQ.Props.C09 about AQ.Model.CloseTimer (generic in the time type);
         AQ.Props.C09Timers about the product AQ.Model.ConnTimers = CloseTimer x
         Recovery (timer sources and the closing-period PTO computed by the
         recovery model, composed with C01Loss's loss-timeout facts)
tie:     real client/server pairs (harness/sim.py) driven by PRNG scripts; the
         monitor harness/impl_close.py turns every public API call into the
         model op (inputs = observed sub-call values / packet classification)
         and the projected state after EVERY call is diffed against the
         compiled model (Float instance, close_at compared bit-exactly)
oracle:  written from the property text on the public API trace + packet taps:
         no exception from the public calls, finite get_timer() from start until
         termination is reported, exactly one ConnectionTerminated, nothing after
         it, termination by the first timer firing at/after close start + 3 PTO
         (or the idle deadline), only closing packets after close starts
"""
import json
import math

from harness import core, lean, rng, tree

PUBLIC = ("connect", "receive_datagram", "datagrams_to_send", "get_timer", "handle_timer",
          "next_event", "close")
EPS = 1e-9


# ------------------------------------------------------------------- scripts
def fatal_payloads(F, r):
    """frame sequences that make frame handling raise QuicConnectionError"""
    return [
        ("unknown-frame", b"\x3f"),
        ("max-streams-too-big", F.enc_max_streams(1 << 61)),
        ("ping-then-unknown", b"\x01" + b"\x3f"),
        ("truncated-close", b"\x1c\x0a"),
        ("stream-then-bad", F.enc_stream(r.choice([0, 4, 8]) if r.random() < 0.5 else 1, 0, b"abc") + b"\x3f"),
        ("app-close-any", F.enc_close(7, reason=b"app", app=True)),     # fatal in I/H, peer close in 1-RTT
        ("stream-in-any", F.enc_stream(0, 0, b"zz")),                   # fatal in I/H
    ]


def close_payloads(F, r):
    reason = r.choice([b"", b"bye", b"\xff\xfe", "café".encode()])
    code = r.choice([0, 1, 10, 0x100 + 42])
    ft = r.choice([0, 6, 0x1c])
    base = F.enc_close(code, ft, reason)
    return [
        ("close", base),
        ("ping-close", b"\x01" + base),
        ("close-ping", base + b"\x01"),
        ("close-close", base + F.enc_close(3, 0, b"second")),
        ("close-then-unknown", base + b"\x3f"),
        ("stream-close-stream", F.enc_stream(r.choice([0, 4]), 0, b"pre") + base + F.enc_stream(r.choice([8, 12]), 0, b"post")),
        ("app-close", F.enc_close(code, reason=reason, app=True)),
    ]


class Script:
    """one PRNG-driven run; everything derives from (seed, kind)"""

    def __init__(self, seed, kind="random", plan=None):
        from harness import impl_close as IC, inject, frames as F
        import random
        self.IC, self.inject, self.F = IC, inject, F
        self.seed, self.kind, self.plan = seed, kind, plan
        self.r = random.Random(f"c09/{seed}/{kind}/{plan}")
        r = self.r
        idle = r.choice([60.0, 60.0, 5.0, 0.7, 0.25])
        co = {"idle_timeout": idle}
        so = {"idle_timeout": r.choice([60.0, idle, 1.5])}
        if plan and plan[0][0] == "options":
            co = {"idle_timeout": plan[0][2]}
            so = {"idle_timeout": plan[0][3]}
        self.mon = IC.CloseMonitor()
        self.sim = IC.CSim(seed, client_options=co, server_options=so, monitors=[self.mon])
        self.mon.attach(self.sim)
        self.sim.drain_p = r.choice([1.0, 1.0, 0.6])
        self.sim.max_timer_jump = r.choice([2.0, 100.0])
        self.acts = []
        self.blackout = 0
        self.stash = []
        self.next_stream = {"client": 0, "server": 1}

    # -- actions -----------------------------------------------------------
    def ep(self, name):
        return self.sim.client if name == "client" else self.sim.server

    def act(self, a):
        """a = (verb, endpoint name, extra)"""
        sim, r, F = self.sim, self.r, self.F
        self.acts.append(a)
        verb, who = a[0], a[1]
        ep = self.ep(who) if who else None
        if verb == "options":
            pass            # consumed by __init__
        elif verb == "connect":
            sim.connect()
        elif verb == "net":
            for _ in range(a[2]):
                if self.blackout > 0:
                    self.blackout -= 1
                    sim.pending.clear()
                    if not sim.adversarial_step(p_timer=1.0):
                        break
                    continue
                for d in sim.pending[:1]:
                    if len(self.stash) < 6 and r.random() < 0.3:
                        self.stash.append(dict(d))
                if not sim.adversarial_step():
                    break
        elif verb == "handshake":
            c, v = sim.client.conn, sim.server.conn
            sim.fair_phase(max_steps=200, done=lambda: c._handshake_confirmed and v._handshake_confirmed
                           and not sim.pending)
        elif verb == "quiesce":
            # deliver what is in flight (and the answers), no timer fires
            for _ in range(a[2]):
                if not sim.pending:
                    break
                d = sim.pending.pop(0)
                sim.now += 0.001
                sim.deliver(d)
        elif verb == "fair":
            sim.fair_phase(max_steps=a[2])
        elif verb == "write":
            sid = self.next_stream[who] if r.random() < 0.5 else r.choice([0, 1, 4, 5])
            if sid == self.next_stream[who]:
                self.next_stream[who] += 4
            sim.api(ep, "send_stream_data", sid, bytes(r.randrange(256) for _ in range(r.choice([1, 50, 3000]))),
                    end_stream=r.random() < 0.3)
            sim.transmit(ep)
        elif verb == "ping":
            sim.api(ep, "send_ping", r.randrange(100))
            sim.transmit(ep)
        elif verb == "close":
            code, ft, reason = a[2]
            sim.api(ep, "close", error_code=code, frame_type=ft, reason_phrase=reason)
            if a[3]:
                sim.transmit(ep)
        elif verb == "inject":
            _, _, epoch, payload, reserved = a[:5]
            pad_to = a[5] if len(a) > 5 else None
            if reserved:
                sim.flip_reserved = True
            try:
                self.inject.inject(sim, ep, payload, epoch=epoch, pad_to=pad_to)
            except Exception as e:  # crafting problem, not the implementation's
                self.acts.append(("inject-failed", who, repr(e)))
            sim.flip_reserved = False
        elif verb == "vn":
            self.IC.raw_deliver(sim, sim.client, self.IC.vn_datagram(sim, a[2]))
        elif verb == "retry":
            self.IC.raw_deliver(sim, sim.client, self.IC.retry_datagram(sim, a[2]))
        elif verb == "garbage":
            self.IC.raw_deliver(sim, ep, a[2])
        elif verb == "serve-one":
            # only the first datagram addressed to the server arrives; everything
            # else (and every answer) is lost
            for d in list(sim.pending):
                if d["dst"] is sim.server:
                    sim.pending.remove(d)
                    sim.now += 0.001
                    sim.deliver(d)
                    break
            sim.pending.clear()
        elif verb == "drain-budget":
            # total blackout: the probe timer of `who` expires again and again
            # (retransmissions) until the 3x anti-amplification budget of its
            # unvalidated path is used up or `a[2]` probes went unanswered
            for _ in range(a[2]):
                sim.pending.clear()
                paths = ep.conn._network_paths
                if paths and not paths[0].is_validated and paths[0].bytes_received * 3 - paths[0].bytes_sent < 40:
                    break
                if not sim.fire_timer(ep):
                    break
            sim.pending.clear()
        elif verb == "replay-dup":
            # total blackout in which the network re-delivers, `n` times and `dt` apart,
            # the k-th last datagram `who` already received (a duplicate); timers whose
            # deadline passes in between fire at their deadline
            _, _, k, dt, n = a
            st = self.mon.eps[who]
            for _ in range(n):
                sim.pending.clear()
                self.advance(sim.now + dt)
                if not st.delivered or ep.terminated:
                    break
                d = dict(st.delivered[-min(k, len(st.delivered))])
                sim.pending.clear()
                sim.deliver(d)
                sim.pending.clear()
        elif verb == "blackout":
            sim.pending.clear()
            self.blackout = a[2]
        elif verb == "timer":
            sim.now += a[3] if len(a) > 3 else 0.0
            sim.fire_timer(ep, late=a[2])
        elif verb == "stale-timer":
            # a timer requested earlier fires although get_timer() is None by now
            sim.now += a[2]
            sim.api(ep, "handle_timer", now=sim.now)
            sim.transmit(ep)
        elif verb == "transmit":
            sim.transmit(ep)
        elif verb == "replay":
            if self.stash:
                d = self.stash[a[2] % len(self.stash)]
                sim.now += 0.001
                sim.deliver(dict(d))
        elif verb == "prestart":
            # calls before connect / the first datagram (outside the property's
            # range; compared with the model only)
            sim.check_timer(ep)
            if a[2]:
                sim.api(ep, "handle_timer", now=sim.now)
            sim.transmit(ep)
        else:
            raise ValueError(verb)

    def advance(self, target):
        """let virtual time pass until `target`, firing every timer at its deadline"""
        sim = self.sim
        for _ in range(200):
            best = None
            for e in sim.endpoints:
                if getattr(e, "started", False) and not e.terminated:
                    t = sim.check_timer(e)
                    if t is not None and t <= target and (best is None or t < best[0]):
                        best = (t, e)
            if best is None:
                break
            before = sim.now
            sim.pending.clear()
            sim.fire_timer(best[1])
            sim.pending.clear()
            if sim.now == before and best[0] <= before:
                sim.now = min(target, sim.now + 0.01)     # a deadline in the past: time passes while the caller spins
        if sim.now < target:
            sim.now = target

    def rand_close_args(self):
        r = self.r
        return (r.choice([0, 0, 1, 10, 0x10c, 300]), r.choice([None, None, 0, 6]),
                r.choice(["", "", "bye", "café closed"]))

    def rand_action(self):
        r, F = self.r, self.F
        who = r.choice(["client", "server"])
        x = r.random()
        if x < 0.40:
            return ("net", None, r.choice([1, 1, 2, 5]))
        if x < 0.48:
            return ("write", who)
        if x < 0.50:
            return ("ping", who)
        if x < 0.60:
            return ("close", who, self.rand_close_args(), r.random() < 0.85)
        if x < 0.72:
            epoch = r.choice(["INITIAL", "HANDSHAKE", "ONE_RTT"])
            name, payload = r.choice(close_payloads(F, r))
            return ("inject", who, epoch, payload, False)
        if x < 0.82:
            epoch = r.choice(["INITIAL", "HANDSHAKE", "ONE_RTT"])
            name, payload = r.choice(fatal_payloads(F, r))
            return ("inject", who, epoch, payload, r.random() < 0.15)
        if x < 0.84:
            return ("inject", who, r.choice(["INITIAL", "HANDSHAKE", "ONE_RTT"]), b"\x01", True)
        if x < 0.87:
            return ("blackout", None, r.choice([3, 10, 40]))
        if x < 0.93:
            return ("timer", who, r.choice([0.0, 0.0, 0.001, 0.3, 5.0]), r.choice([0.0, 0.0, 0.05]))
        if x < 0.94:
            return ("replay", None, r.randrange(6))
        if x < 0.95:
            return ("replay-dup", who, r.choice([1, 2, 5]), r.choice([0.05, 0.4, 1.5]), r.choice([1, 3, 6]))
        if x < 0.97:
            return ("garbage", who, r.choice([b"\x40" + bytes(30), b"\xc0\x00\x00\x00\x01\x08" + bytes(40), b"", b"\x00"]))
        if x < 0.985:
            return ("stale-timer", who, r.choice([0.0, 0.5]))
        return ("transmit", who)

    def run(self):
        r = self.r
        sim = self.sim
        try:
            if self.kind == "plan":
                for a in self.plan:
                    self.act(tuple(a))
            else:
                # before the start
                if r.random() < 0.10:
                    self.act(("garbage", "server", r.choice([b"\x40" + bytes(30), b"\xc3" + bytes(50), b"\x00"])))
                    if r.random() < 0.5:
                        self.act(("close", "server", self.rand_close_args(), True))
                if r.random() < 0.05:
                    self.act(("prestart", r.choice(["client", "server"]), r.random() < 0.5))
                if r.random() < 0.04:
                    self.act(("close", "client", self.rand_close_args(), False))
                self.act(("connect", None))
                # version negotiation / retry while in first flight
                y = r.random()
                if y < 0.06:
                    self.act(("vn", None, [0x1a2a3a4a]))
                elif y < 0.12:
                    self.act(("vn", None, [0x6b3343cf]))                 # QUIC v2: restart
                    if r.random() < 0.5:
                        self.act(("vn", None, [0x1a2a3a4a]))
                elif y < 0.15:
                    self.act(("vn", None, [1, 0x6b3343cf]))               # lists our version: ignored
                elif y < 0.21:
                    self.act(("retry", None, r.random() < 0.8))
                    if r.random() < 0.3:
                        self.act(("retry", None, True))
                # progress of the handshake before the interesting part
                stage = r.choice([0, 1, 2, 3, 4, 6, 10, 40])
                if r.random() < 0.5:
                    self.act(("fair", None, stage))
                else:
                    self.act(("net", None, stage))
                for _ in range(r.choice([3, 8, 20])):
                    self.act(self.rand_action())
            self.finale()
        finally:
            sim.close_taps()
        return self

    def finale(self):
        """total blackout; timers fire at/after their deadline until both ends are done"""
        sim = self.sim
        sim.pending.clear()
        self.acts.append(("finale",))
        self.finale_index = {n: len(st.trace) for n, st in self.mon.eps.items()}
        spin = 0.001
        for _ in range(600):
            live = [ep for ep in sim.endpoints if getattr(ep, "started", False) and not ep.terminated]
            if not live:
                break
            progressed = False
            for ep in live:
                sim.pending.clear()
                before = sim.now
                if sim.fire_timer(ep, late=self.r.choice([0.0, 0.0, 0.01])):
                    progressed = True
                if sim.now == before:
                    # the deadline named was not in the future (e.g. a stale pacing
                    # deadline): real time passes while the caller spins
                    sim.now += spin
                    spin = min(spin * 2, 2.0)
                sim._drain_events(ep, force=True)
            if not progressed:
                break
        for ep in sim.endpoints:
            sim._drain_events(ep, force=True)
            sim.check_timer(ep)


# -------------------------------------------------------------------- oracle
def has_close(frames):
    return any(f.get("type") in (0x1C, 0x1D) for f in frames)


def only_close(frames):
    return all(f.get("type") in (0x1C, 0x1D, 0x00) for f in frames) and has_close(frames)


def oracle(st, started, finished):
    """the property, on the public-API trace of one endpoint.  Returns a list of
    (kind, detail) problems."""
    problems = []
    tr = st.trace
    begun = False             # connect() / first receive_datagram() happened
    term_seen = 0
    close_start = None        # (index, time, deadline)
    close_call_idx = None     # index of the datagrams_to_send call that built closing packets
    last_activity = None      # (time, idle bound)
    has_peer = False          # connect() succeeded / a packet of the peer authenticated
    local_close = None        # index of an application close() not yet followed by a transmit
    n = len(tr)
    for i, rec in enumerate(tr):
        api = rec["api"]
        if api in ("connect", "receive_datagram"):
            begun = True
        if (api == "connect" and rec["raised"] is None) or (api == "receive_datagram" and rec.get("auth")):
            has_peer = True
        # "starting to close" is the moment the connection enters its closing or
        # draining period, whether or not a closing packet could be built (the
        # anti-amplification budget may leave room for none)
        if (close_start is None and not term_seen and rec["raised"] is None
                and api in ("datagrams_to_send", "receive_datagram")
                and rec.get("state_after") in ("CLOSING", "DRAINING")):
            pto = max(rec["pto_before"], rec.get("pto_after") or 0.0)
            close_start = (i, rec["now"], rec["now"] + 3 * pto)
        if api == "close" and rec["raised"] is None and begun and has_peer and close_start is None and not term_seen:
            if local_close is None:
                local_close = i
        if api == "datagrams_to_send" and rec["raised"] is None and local_close is not None:
            # "After a local close ...": the transmit that follows close() starts the closing period
            if rec.get("state_after") not in ("CLOSING", "DRAINING", "TERMINATED"):
                problems.append(("close-not-started",
                                 f"close() at call {local_close} but datagrams_to_send left state {rec.get('state_after')}", {}))
            local_close = None
        # 1. no exception from the public calls (from the start on)
        if rec["raised"] is not None and api in PUBLIC and begun:
            problems.append(("exception", f"{api} raised {type(rec['raised']).__name__}: {rec['raised']}",
                             {"api": api, "exc": type(rec["raised"]).__name__}))
            continue
        if api == "next_event":
            ev = rec.get("ret")
            if ev is not None:
                if term_seen:
                    problems.append(("event-after-termination", f"{type(ev).__name__} after ConnectionTerminated", {}))
                if type(ev).__name__ == "ConnectionTerminated":
                    term_seen += 1
                    if term_seen > 1:
                        problems.append(("terminated-twice", "second ConnectionTerminated", {}))
            continue
        if api == "connect" and rec["raised"] is None:
            last_activity = (rec["now"], max(rec["idle_before"], rec.get("idle_after", 0.0)))
        if api == "receive_datagram":
            d0 = rec.get("data0", b"")
            vn_or_retry = len(d0) >= 5 and d0[0] & 0x80 and (d0[1:5] == b"\0\0\0\0" or (d0[0] & 0x30) in (0x30, 0x00))
            # activity = a NEW packet of the peer authenticated; a duplicate (same packet
            # number space and packet number as an earlier one) carries nothing new
            if any(not a[3] for a in rec.get("auth", [])) or vn_or_retry or last_activity is None:
                last_activity = (rec["now"], max(rec["idle_before"], rec.get("idle_after", 0.0)))
            if close_start is None and any(has_close(a[1]) for a in rec.get("auth", []) if not a[3]) and not term_seen:
                pto = max(rec["pto_before"], rec.get("pto_after") or 0.0)
                close_start = (i, rec["now"], rec["now"] + 3 * pto)
        if api == "datagrams_to_send":
            built = rec.get("built", [])
            if term_seen and (built or rec.get("ndg")):
                problems.append(("sent-after-termination", f"{len(built)} packets after termination", {}))
            if built and any(has_close(fr) for _, fr in built):
                if close_call_idx is not None:
                    problems.append(("closing-packets-twice", "closing packets built in two calls", {}))
                close_call_idx = i
                if not all(only_close(fr) for _, fr in built):
                    problems.append(("data-with-close", "non-closing frames sent together with CONNECTION_CLOSE", {}))
                if close_start is None:
                    pto = max(rec["pto_before"], rec.get("pto_after") or 0.0)
                    close_start = (i, rec["now"], rec["now"] + 3 * pto)
            elif built and close_start is not None and i > close_start[0]:
                problems.append(("data-after-close", f"{len(built)} non-closing packets after closing started", {}))
        if api == "get_timer" and begun and not term_seen:
            t = rec.get("ret")
            if t is None or not isinstance(t, float) or not math.isfinite(t):
                # allowed only if the termination event is retrievable right now
                j = i + 1
                ok = False
                while j < n and tr[j]["api"] == "next_event":
                    if type(tr[j].get("ret")).__name__ == "ConnectionTerminated":
                        ok = True
                    j += 1
                if not ok:
                    problems.append(("no-timer", f"get_timer() = {t!r} while no termination was reported", {}))
            else:
                if close_start is not None and i > close_start[0] and t > close_start[2] + EPS:
                    problems.append(("timer-beyond-closing-period",
                                     f"get_timer()={t} > close start {close_start[1]} + 3 PTO = {close_start[2]}", {}))
                if close_start is None and last_activity is not None and t > last_activity[0] + last_activity[1] + EPS:
                    problems.append(("timer-beyond-idle-deadline",
                                     f"get_timer()={t} > last activity {last_activity[0]} + idle {last_activity[1]}", {}))
        if api == "handle_timer" and begun and not term_seen and rec["raised"] is None:
            now = rec["now"]
            due = []
            if close_start is not None and i > close_start[0] and now >= close_start[2] + EPS:
                due.append("closing period (3 PTO) over")
            if close_start is None and last_activity is not None and now >= last_activity[0] + last_activity[1] + EPS:
                due.append("idle deadline reached")
            if due:
                # termination must be reported before the next call that is not
                # datagrams_to_send / get_timer / next_event
                j = i + 1
                ok = False
                while j < n and tr[j]["api"] in ("next_event", "get_timer", "datagrams_to_send"):
                    if tr[j]["api"] == "next_event" and type(tr[j].get("ret")).__name__ == "ConnectionTerminated":
                        ok = True
                        break
                    j += 1
                if not ok:
                    problems.append(("no-termination-at-deadline", f"handle_timer(now={now}): {', '.join(due)} but no ConnectionTerminated", {}))
    if started and finished and term_seen != 1:
        problems.append(("not-terminated-once", f"{term_seen} ConnectionTerminated events by the end of the run", {}))
    return problems


# ---------------------------------------------------------------- execution
def run_one(ctx, seed, kind="random", plan=None, collect=None):
    sc = Script(seed, kind, plan).run()
    cases = []
    nontriv = False
    for name, st in sc.mon.eps.items():
        ep = st.ep
        started = getattr(ep, "started", False)
        finished = ep.terminated or not started
        probs = oracle(st, started, True)
        if st.unclassified:
            ctx.broken.append({"kind": "broken-correspondence", "correspondence": "close-monitor",
                               "error": f"unclassified sub-call {st.unclassified[:3]}", "seed": seed, "script_kind": kind})
        seen = set()
        for kind_, detail, extra in probs:
            if kind_ in seen:
                continue
            seen.add(kind_)
            sig = {"oracle": "c09", "kind": kind_}
            sig.update(extra)
            key = json.dumps(sig, sort_keys=True)
            nseen = ctx.notes.setdefault("witness_signatures", {})
            nseen[key] = nseen.get(key, 0) + 1
            if nseen[key] > 2:
                continue        # same defect again: two replays per signature are enough
            ctx.witness(f"{name}: {detail}",
                        {"seed": seed, "script_kind": kind, "plan_index": seed - 1000 if kind == "plan" else None,
                         "endpoint": name,
                         "actions": [repr(a)[:160] for a in sc.acts][:80]}, sig)
        states = {o.split(" | ")[1].split()[0] for o in st.outs if " | " in o}
        if "st=TERMINATED" in states and ("st=CLOSING" in states or "st=DRAINING" in states):
            nontriv = True
        cases.append((f"{seed}/{kind}/{name}", st.ops, st.outs))
        # the recovery component of the product model, fed from the calls this very
        # connection made on its `_loss` object (+ the glue points: values the close
        # model was fed vs what the recovery MODEL computes at that moment)
        cases.append((f"{seed}/{kind}/{name}/recovery", st.rec.ops, st.rec.outs, st.rec.glue))
        if collect is not None:
            for o in st.outs:
                for tok in o.split(" | ")[1].split()[:1]:
                    collect[tok] = collect.get(tok, 0) + 1
    ctx.count((seed, kind, repr(plan)), nontriv)
    return cases, sc


def correspond(ctx, name, cases):
    """cases: (key, ops, impl_outs[, glue]) -> diff against the compiled model.
    `glue` (product CloseTimer x Recovery): at line i of a recovery case the
    recovery MODEL's loss-detection time / probe timeout must equal, bit for bit,
    the value the close model was fed at that moment — then the product's
    get_timer (close model's get_timer over the recovery model's sources) is the
    real get_timer() that the close lines are compared with."""
    if not cases:
        return 0
    all_ops = [l for c in cases for l in c[1]]
    impl = [l for c in cases for l in c[2]]
    model = lean.run_driver(all_ops)
    mism = core.diff_streams(ctx, name, [c[1] for c in cases], impl, model)
    for m in mism[:3]:
        if m[0] >= 0:
            ci, oi, il, ml = m
            key, ops = cases[ci][0], cases[ci][1]
            ctx.disagreement(name, {"case": key, "ops": ops[max(0, oi - 6): oi + 1]}, ml, il, oi)
    nglue = 0
    if len(model) == len(all_ops):
        base = 0
        bad = 0
        for c in cases:
            for idx, what, fed in (c[3] if len(c) > 3 else ()):
                nglue += 1
                toks = model[base + idx].split()
                got = None
                if len(toks) == 3 and toks[0] == "ok":
                    got = toks[1] if what == "ldt" else toks[2].split("=", 1)[-1]
                if got != fed and bad < 3:
                    bad += 1
                    ctx.disagreement(name + "-product-glue", {"case": c[0], "ops": c[1][max(0, idx - 6): idx + 1],
                                                              "source": what},
                                     f"recovery model {what}={got}", f"close model was fed {fed}", idx)
            base += len(c[1])
    ctx.notes["product_glue_points"] = ctx.notes.get("product_glue_points", 0) + nglue
    ctx.cov["traces_validated_against_impl"] += len(cases)
    return len(mism)


# small-scope plans: every single action at every handshake stage ------------
def small_scope_plans(F):
    import random
    r = random.Random(9)
    base_close = F.enc_close(10, 6, b"bye")
    singles = []
    for who in ("client", "server"):
        singles.append([("close", who, (0, None, ""), True)])
        singles.append([("close", who, (10, 0, "x"), True), ("close", who, (1, None, "again"), True)])
        singles.append([("close", who, (0, None, ""), False), ("timer", who, 0.0)])
        for epoch in ("INITIAL", "HANDSHAKE", "ONE_RTT"):
            singles.append([("inject", who, epoch, base_close, False)])
            singles.append([("inject", who, epoch, b"\x01" + base_close + b"\x01", False)])
            singles.append([("inject", who, epoch, b"\x3f", False)])
            singles.append([("inject", who, epoch, b"\x01", True)])
            singles.append([("inject", who, epoch, F.enc_close(7, reason=b"app", app=True), False)])
            singles.append([("close", "server" if who == "client" else "client", (0, None, ""), False),
                            ("inject", who, epoch, base_close, False)])
        singles.append([("blackout", None, 100)])
        singles.append([("timer", who, 70.0)])
        singles.append([("stale-timer", who, 0.0)])
        singles.append([("garbage", who, b"\x40" + bytes(30))])
    plans = []
    for stage in (0, 1, 2, 3, 5, 30):
        for s in singles:
            plans.append([("connect", None), ("fair", None, stage)] + s)
    # first flight specials
    for vers in ([0x1a2a3a4a], [0x6b3343cf], [1, 0x6b3343cf], [0x6b3343cf, 0x1a2a3a4a]):
        plans.append([("connect", None), ("vn", None, vers), ("fair", None, 30)])
        plans.append([("connect", None), ("vn", None, vers), ("vn", None, [0x1a2a3a4a]), ("fair", None, 30)])
        plans.append([("connect", None), ("close", "client", (0, None, ""), False), ("vn", None, vers), ("transmit", "client")])
        plans.append([("connect", None), ("vn", None, vers), ("stale-timer", "client", 1.0)])
    for valid in (True, False):
        plans.append([("connect", None), ("retry", None, valid), ("fair", None, 30)])
        plans.append([("connect", None), ("retry", None, valid), ("retry", None, True), ("fair", None, 30)])
        plans.append([("connect", None), ("fair", None, 30), ("retry", None, valid), ("fair", None, 5)])
    # before the start
    for g in (b"\x40" + bytes(30), b"\xc3" + bytes(50), b"\x00", b""):
        plans.append([("garbage", "server", g), ("connect", None), ("fair", None, 30)])
        plans.append([("garbage", "server", g), ("close", "server", (0, None, ""), True), ("timer", "server", 0.0)])
        plans.append([("garbage", "server", g), ("close", "server", (0, None, ""), True), ("connect", None), ("fair", None, 10)])
    plans.append([("close", "client", (0, None, ""), False), ("connect", None), ("fair", None, 10)])
    plans.append([("close", "server", (0, None, ""), False), ("connect", None), ("fair", None, 10)])
    plans.append([("prestart", "client", True), ("prestart", "server", True), ("connect", None), ("fair", None, 10)])
    # close started during a blackout, after unanswered probes (the closing period
    # must still be three *base* probe timeouts) and with the server's 3x
    # anti-amplification budget used up (no closing packet can be written, the
    # closing period must start all the same).  Kept at the END: the quick tier
    # always runs the last 20 plans.
    for cl in ((0, None, ""), (10, 0, "x")):
        plans.append([("options", None, 60.0, 60.0), ("connect", None), ("serve-one", None), ("drain-budget", "server", 8),
                      ("close", "server", cl, True)])
        plans.append([("options", None, 60.0, 60.0), ("connect", None), ("blackout", None, 100), ("drain-budget", "client", 3),
                      ("close", "client", cl, True)])
    plans.append([("options", None, 60.0, 60.0), ("connect", None), ("serve-one", None), ("drain-budget", "server", 8),
                  ("inject", "client", "INITIAL", b"\x3f", False, 1200)])
    plans.append([("options", None, 60.0, 60.0), ("connect", None), ("serve-one", None), ("drain-budget", "server", 8),
                  ("inject", "client", "INITIAL", F.enc_close(10, 6, b"bye"), False, 1200)])
    # a blackout in which the network keeps re-delivering an old datagram: duplicates
    # carry nothing new, the idle deadline must not move
    for who in ("server", "client"):
        for k in (1, 3):
            plans.append([("options", None, 2.0, 2.0), ("connect", None), ("handshake", None),
                          ("write", "client"), ("quiesce", None, 10), ("replay-dup", who, k, 1.5, 6)])
    plans.append([("options", None, 2.0, 2.0), ("connect", None), ("fair", None, 3),
                  ("replay-dup", "server", 1, 1.5, 6)])
    plans.append([("options", None, 60.0, 60.0), ("connect", None), ("serve-one", None), ("drain-budget", "server", 2),
                  ("close", "server", (0, None, ""), True)])
    return plans


def main(tier):
    ctx = core.Ctx("C09", tier)
    tree.activate()
    import logging
    logging.disable(logging.CRITICAL)
    from harness import frames as F

    ctx.prove(["AQ.Props.C09", "AQ.Props.C09Timers"], [])
    ctx.cov["trusted_base"] = [
        "Lean 4.33.0 kernel (+ leanchecker in thorough tier)",
        "axioms: subset of {propext, Classical.choice, Quot.sound} (audited by #print axioms)",
        "model AQ.Model.CloseTimer is generic in the time arithmetic; order facts used by timer_defined are "
        "explicit hypotheses (lt implies le, le reflexive/transitive) that hold for finite IEEE doubles",
        "harness/impl_close.py: classification of receive_datagram sub-calls (wrappers of private methods, "
        "observation only) and canonicalisation; harness/sim.py taps; harness/frames.py parser",
    ]
    ctx.assumptions = [
        "model follows connection.py with fixes/C09-timer-none.diff and fixes/C09-no-network-path.diff applied",
        "C16 dependency: the `_close_pending` branch of datagrams_to_send never raises (reason phrase truncated "
        "to fit, fixes/C16-close-reason.diff); scripts here use short reason phrases",
        "usage hypothesis of the theorems: a client is fed no datagram before connect() (a pre-connect client that is "
        "fed datagrams and timers can be driven to TERMINATED and connect() would then re-arm its deadline)",
        "documented usage: datagrams_to_send follows receive_datagram/handle_timer/close at the same `now`; "
        "handle_timer is called with now >= a deadline get_timer() returned earlier",
        "product (C09Timers): the loss-detection deadline and the closing-period PTO are computed by AQ.Model.Recovery, fed "
        "from the calls each real connection makes on its own _loss object (bit-exact state after every call) and glued to the "
        "close model at every get_timer()/_close_begin (recovery model's value == value the close model was fed); the VALUES "
        "stored into ack_at / _pacing_at and idle-timeout values stay inputs; usage hypothesis of C09Timers adds C01Loss's "
        "increasing packet numbers per space; the no-re-fire fact of the loss timer needs C01Loss's LossOrderFacts (IEEE one-ulp caveat); "
        "progress of the ack/loss/pacing timers under repeated firing is checked empirically only (blackout finale)",
    ]
    thorough = tier == "thorough"
    states = {}
    # exhaustive small scope
    plans = list(enumerate(small_scope_plans(F)))
    if not thorough:
        plans = plans[::3] + plans[-20:]
    cases = []
    for k, plan in plans:
        cs, _ = run_one(ctx, 1000 + k, "plan", plan, states)
        cases += cs
    correspond(ctx, "close-small-scope", cases)
    ctx.sample({"plan": [repr(a) for a in plans[0][1]], "ops": cases[0][1][:6]})
    # random scripts
    n = 140 if not thorough else 4000
    base = rng.seed() * 100000
    cases = []
    for k in range(n):
        cs, _ = run_one(ctx, base + k, "random", None, states)
        cases += cs
        if len(cases) >= 400:
            correspond(ctx, "close-random", cases)
            cases = []
    correspond(ctx, "close-random", cases)
    ctx.notes["state_lines"] = states

    def search():
        """a proof obligation / the correspondence broke but no run above violated the
        oracle: run the small-scope plans the quick tier skipped and more random
        scripts, oracle only, until a concrete failing input shows up"""
        done = {k for k, _ in plans}
        for k, plan in enumerate(small_scope_plans(F)):
            if k not in done:
                run_one(ctx, 1000 + k, "plan", plan, None)
                if ctx.witnesses:
                    return
        for k in range(n, n + 400):
            run_one(ctx, base + k, "random", None, None)
            if ctx.witnesses:
                return
    ctx.search = search
    ctx.cov["exhaustive"] = False
    ctx.cov["rule"] = (
        "small scope: every single close/inject(peer close, fatal frame, reserved bits, app close; Initial/Handshake/1-RTT)/"
        "blackout/timer/garbage action at 6 handshake stages for both ends + version-negotiation/Retry/pre-start plans; "
        "random: PRNG scripts mixing adversarial network steps, writes, close() (with/without transmit), injected peer "
        "closes and fatal frames in every packet number space, reserved bits, blackouts, timers fired at/after the deadline, "
        "stale timers, replayed datagrams, garbage; every run ends with a total blackout firing timers until both ends "
        "report termination. One case = one endpoint's API-call sequence; non-trivial = it passed through CLOSING or "
        "DRAINING and reached TERMINATED; distinct by (seed, script) hash."
    )
    return ctx.finish()


def replay(path):
    """re-run one recorded script and print what the oracle / the model comparison say"""
    tree.activate()
    import logging
    logging.disable(logging.CRITICAL)
    from harness import frames as F
    rec = json.load(open(path))
    rp = rec.get("replay", {})
    if "seed" not in rp:
        print("replay file names no script (proof-side breakage): rerun ./check C09")
        return 1
    ctx = core.Ctx("C09", "replay")
    plan = None
    if rp.get("script_kind") == "plan":
        plan = small_scope_plans(F)[rp["plan_index"]]
    cases, sc = run_one(ctx, rp["seed"], rp.get("script_kind", "random"), plan)
    for a in sc.acts:
        print("  act", repr(a)[:200])
    for w in ctx.witnesses:
        print("WITNESS", w["what"])
    correspond(ctx, "close-replay", cases)
    for b in ctx.broken:
        print("BROKEN", json.dumps(b, default=str)[:1500])
    return 1 if ctx.witnesses or ctx.broken else 0
