"""C17, frames part: the codec of every QUIC frame (lean/AQ/Model/FrameCodec.lean)
and the Retry token plaintext, tied to the code and to an independent codec.

(a) every plaintext payload that two REAL connections build in adversarial
    harness/sim.py scenarios (tap `on_packet_built`) is decoded by the model
    (`frame.decode`, compared with harness/frames.py) and written back by the
    model's `_write_*` scripts byte-exactly (`frame.reencode`);
(b) boundary / random frames of every type: RFC 9000 §19 encoder of
    CodecSpec.lean (`frame.spec`) == harness/frames.py encoders, and both
    decoders agree on them, on their truncations and mutations and on random bytes;
(c) quic/retry.py token plaintext (`frame.token`, `frame.token_pull`) against the
    real QuicRetryTokenHandler with an identity key.
Oracle (independent of aioquic and of the model): harness/frames.py.
"""
from harness import rng, runner

P62 = 1 << 62
V2 = 0x6B3343CF
INTS = [0, 1, 63, 64, 16383, 16384, (1 << 30) - 1, 1 << 30, P62 - 1]


def hx(b):
    return bytes(b).hex() if b else "-"


def data_of(n, salt=0):
    return bytes((i * 7 + salt) % 256 for i in range(n))


# ------------------------------------------------------------ (a) real payloads
def real_payload_cases(thorough, seed0, ctx=None):
    from harness.impl_frames import api_field_problems, collect_built_payloads
    seen = set()
    n = 10 if not thorough else 150
    for k in range(n):
        conn_seed = seed0 * 1000 + k
        payloads, calls = collect_built_payloads(conn_seed, version=(V2 if k % 2 else None), with_calls=True)
        if ctx is not None:
            for p in api_field_problems(payloads, calls)[:1]:
                ctx.witness("a built frame does not carry the values passed to the API: " + p,
                            {"conn_seed": conn_seed, "version": "v2" if k % 2 else "v1",
                             "rerun": "harness.impl_frames.collect_built_payloads(conn_seed, with_calls=True)"},
                            {"oracle": "frames-api"})
        for _, _, p in payloads:
            if p not in seen:
                seen.add(p)
                yield [f"frame.decode {p.hex()}", f"frame.reencode {p.hex()}"]


def oracle_real(case, out):
    # the independent codec must be able to read what the real writers produced, and
    # re-encoding its reading (shortest varints) must read back identically
    from harness import frames as F
    from harness.impl_frames import enc_frame_text, show_frame
    if not out[0].startswith("ok "):
        return (f"harness/frames.py (RFC 9000 §19) cannot parse a payload built by the real connection: "
                f"{case[0][13:200]}", {"kind": "built-payload-unparseable"})
    txt = out[0][3:]
    if txt != "-":
        enc = b"".join(enc_frame_text(x) for x in txt.split(";") if not x.startswith("ACK_ECN"))
        if "ACK_ECN" not in txt:
            back = ";".join(show_frame(f) for f in F.parse_frames(enc))
            if back != txt:
                return (f"re-encoding of a built payload reads back differently: {txt[:200]!r} vs {back[:200]!r}",
                        {"kind": "built-payload-reencode"})
    return None


# -------------------------------------------------- (b) boundary / random frames
def frame_texts(r, thorough):
    """canonical texts of in-range frames of every type with boundary values"""
    out = []
    iv = INTS
    for a in iv:
        out += [f"MAX_DATA:v={a}", f"MAX_STREAMS_BIDI:v={a}", f"MAX_STREAMS_UNI:v={a}", f"DATA_BLOCKED:v={a}",
                f"STREAMS_BLOCKED_BIDI:v={a}", f"STREAMS_BLOCKED_UNI:v={a}", f"RETIRE_CONNECTION_ID:seq={a}"]
        for b in (0, 64, P62 - 1):
            out += [f"MAX_STREAM_DATA:sid={a},v={b}", f"STREAM_DATA_BLOCKED:sid={a},v={b}",
                    f"STOP_SENDING:sid={a},err={b}", f"RESET_STREAM:sid={a},err={b},final={iv[(a + b) % len(iv)]}"]
    lens = [0, 1, 63, 64, 300] + ([16383, 16384] if thorough else [])
    for n in lens:
        d = hx(data_of(n))
        out += [f"NEW_TOKEN:token={d}", f"DATAGRAM:data={d},l=1", f"APPLICATION_CLOSE:err={iv[n % 9]},reason={d}",
                f"TRANSPORT_CLOSE:err={iv[n % 7]},ft={iv[n % 5]},reason={d}"]
        for off in (0, 1, 16384, P62 - 1 - n):
            out.append(f"CRYPTO:off={off},data={d}")
            for sid in (0, 3, P62 - 1):
                for fin in (0, 1):
                    o = 1 if off else r.choice([0, 1])
                    out.append(f"STREAM:sid={sid},off={off},data={d},fin={fin},o={o},l=1")
    for cl in (0, 1, 8, 20, 255):
        for seq, rpt in ((0, 0), (63, 1), (P62 - 1, 64)):
            out.append(f"NEW_CONNECTION_ID:seq={seq},rpt={rpt},cid={hx(data_of(cl, 3))},token={data_of(16, 9).hex()}")
    out += [f"PATH_CHALLENGE:data={data_of(8, 1).hex()}", f"PATH_RESPONSE:data={bytes(8).hex()}", "PING",
            "HANDSHAKE_DONE", "PADDING:n=1", "PADDING:n=40"]
    for rs in ("0:1", "0:3/5:7", "0:1/2:3/4:5/6:7", f"{P62 - 4}:{P62 - 3}/{P62 - 2}:{P62}", "5:70/16390:16391"):
        for delay in (0, 64, P62 - 1):
            out += [f"ACK:rs={rs},delay={delay}", f"ACK_ECN:rs={rs},delay={delay}"]
    return out


def frame_cases(impl, r, thorough):
    texts = frame_texts(r, thorough)
    for t in texts:                                      # each frame alone, then followed by a PING
        o = impl.step(f"frame.spec {t}")
        case = [f"frame.spec {t}", f"frame.spec {t};PING"]
        if o.startswith("ok "):
            case += [f"frame.decode {o.split()[1]}", f"frame.decode {o.split()[1]}01"]
        yield case
    # open-ended frames (no Length): last in the payload
    for n in (0, 1, 64, 300):
        d = hx(data_of(n, 5))
        for t in (f"DATAGRAM:data={d},l=0", f"STREAM:sid=8,off=0,data={d},fin=1,o=0,l=0",
                  f"STREAM:sid=8,off=77,data={d},fin=0,o=1,l=0"):
            o = impl.step(f"frame.spec PING;{t}")
            yield [f"frame.spec PING;{t}", f"frame.decode {o.split()[1]}"]
    for _ in range(300 if not thorough else 20000):      # random payloads of several frames
        k = r.randrange(1, 6)
        fs = [r.choice(texts) for _ in range(k)]
        fs = [f for i, f in enumerate(fs) if not (f.startswith("PADDING") and i + 1 < len(fs) and fs[i + 1].startswith("PADDING"))]
        t = ";".join(fs)
        o = impl.step(f"frame.spec {t}")
        yield [f"frame.spec {t}", f"frame.decode {o.split()[1]}"]


def oracle_frames(case, out):
    t = case[0].split()[1]
    if not out[0].startswith("ok "):
        return (f"independent encoder failed on {t[:120]!r}: {out[0]}", {"kind": "frame-encode"})
    decs = [(op, o) for op, o in zip(case, out) if op.startswith("frame.decode ")]
    wants = [t, t + ";PING"] if len(case) == 4 else [t]
    for (op, o), want in zip(decs, wants):
        if o != "ok " + want:
            return (f"{want[:150]!r} encodes to {op.split()[1][:120]} which decodes to {o[:200]!r}",
                    {"kind": "frame-roundtrip"})
    return None


def skip_for_independent_codec(data):
    """inputs on which harness/frames.py is (deliberately) stricter or laxer than aioquic:
    ACK frames with negative packet numbers (frames.py rejects them, aioquic accepts — see the
    ack-decode section of c17.py) and CRYPTO/STREAM frames whose offset+length exceeds 2^62-1
    (aioquic's explicit FRAME_ENCODING_ERROR; frames.py has no such check)"""
    from harness import frames as F
    try:
        fs = F.parse_frames(data)
    except F.ParseError as e:
        return str(e) == "ack range"
    for f in fs:
        if f["name"] in ("CRYPTO", "STREAM") and f["offset"] + len(f["data"]) > P62 - 1:
            return True
    return False


def frame_decode_cases(seeds, r, n):
    from checks.c17 import mutate
    for a in range(256):
        yield [f"frame.decode {a:02x}"]
    for ab in range(r.randrange(11), 65536, 11):
        d = ab.to_bytes(2, "big")
        if not skip_for_independent_codec(d):
            yield [f"frame.decode {d.hex()}"]
    for s in seeds[:8]:
        for k in range(0, len(s) + 1, max(1, len(s) // 60)):
            if not skip_for_independent_codec(s[:k]):
                yield [f"frame.decode {hx(s[:k])}"]
    for _ in range(n):
        s = r.choice(seeds)[:300]
        for _ in range(r.randrange(1, 4)):
            s = mutate(r, s)
        if not skip_for_independent_codec(s):
            yield [f"frame.decode {hx(s)}"]
    for _ in range(n // 2):
        s = bytes(r.choice([r.randrange(0, 0x32), r.randrange(256), 0, 1]) for _ in range(r.randrange(0, 24)))
        if not skip_for_independent_codec(s):
            yield [f"frame.decode {hx(s)}"]


# ------------------------------------------------------------ (c) retry token
def token_cases(r):
    addrs = [bytes([127, 0, 0, 1, 0x11, 0x51]), bytes(range(16)) + b"\xff\xff", bytes([1, 2, 3, 4, 0, 0])]
    for a in addrs:
        for ol in (0, 1, 8, 20, 255):
            for rl in (0, 8, 20):
                o, s = data_of(ol, 1), data_of(rl, 2)
                plain = bytes([len(a)]) + a + bytes([ol]) + o + bytes([rl]) + s
                yield [f"frame.token {a.hex()} {hx(o)} {hx(s)}", f"frame.token_pull {plain.hex()} {a.hex()}",
                       f"frame.token_pull {plain.hex()}00 {a.hex()}", f"frame.token_pull {plain[:-1].hex()} {a.hex()}",
                       f"frame.token_pull {plain.hex()} {addrs[0].hex() if a != addrs[0] else addrs[2].hex()}"]
    yield [f"frame.token {addrs[0].hex()} {hx(data_of(256))} -", f"frame.token {addrs[0].hex()} {hx(data_of(255))} {hx(data_of(255))}"]
    for _ in range(200):
        s = bytes(r.choice([r.randrange(0, 8), 6, r.randrange(256)]) for _ in range(r.randrange(0, 20)))
        yield [f"frame.token_pull {hx(s)} {addrs[0].hex()}"]


def oracle_token(case, out):
    if case[0].startswith("frame.token ") and len(case) == 5:
        t = case[0].split()
        if out[1] != f"ok odcid={t[2]} rscid={t[3]}":
            return (f"{case[0]!r}: token plaintext read back as {out[1]!r}", {"kind": "token-roundtrip"})
        if out[4] != "err ValueError":
            return (f"token accepted for another address: {out[4]!r}", {"kind": "token-address"})
    return None


ORACLES = {"frames-built": oracle_real, "frames-spec": oracle_frames, "retry-token": oracle_token}


def run(ctx, tier):
    from harness.impl_frames import FrameImpl
    thorough = tier == "thorough"
    r = rng.make("c17-frames")
    impl = FrameImpl()
    one = lambda: impl    # noqa: E731

    def go(name, cases, oracle=None, nontrivial=None):
        return runner.run_cases(ctx, name, cases, one, oracle, nontrivial, fresh_impl_per_case=False)

    ctx.prove(["AQ.Props.C17frames"], [])
    cases = list(real_payload_cases(thorough, rng.seed(), ctx))
    go("frames-built", cases, oracle_real, lambda c, o: ";" in o[0])
    ctx.sample({"frames-built": [x[:120] for x in cases[len(cases) // 2]]})
    seeds = [bytes.fromhex(c[0].split()[1]) for c in cases if len(c[0]) > 40]
    cases = list(frame_cases(impl, r, thorough))
    go("frames-spec", cases, oracle_frames)
    ctx.sample({"frames-spec": [x[:120] for x in cases[7]]})
    go("frames-decode", frame_decode_cases(seeds, r, 3000 if not thorough else 80000), None,
       lambda c, o: o[0].startswith("ok ") and o[0] != "ok -")
    go("retry-token", list(token_cases(r)), oracle_token)
    ctx.cov["trusted_base"].append(
        "frames: AQ.Model.FrameCodec tied to the real writers by decoding and re-writing byte-exactly every payload "
        "built by real connections in harness/sim.py scenarios, and to harness/frames.py (independent RFC 9000 §19 "
        "codec) on boundary/random/mutated frames; the real frame parsers are tied to the same field layout by C05 "
        "(AQ.Model.RecvFrames); Retry token: RSA-OAEP replaced by an identity key in the adapter")
    ctx.cov["rule"] += (
        " Frames: every distinct plaintext payload built by both endpoints in 10 (quick) / 150 (thorough) adversarial "
        "connections (v1/v2; stream data, resets, stop-sending, datagrams, pings, CID changes, key updates, limits, "
        "path validation, both close kinds); every frame type x boundary values through the RFC-written encoder and both "
        "decoders, alone / followed by PING / in random sequences; truncations and mutations of real payloads, every "
        "1-byte and sampled 2-byte payload; Retry token plaintexts for v4/v6 addresses x CID lengths, truncated, "
        "extended, wrong address.")
