"""C18 — connection-ID lifecycle honours the peer's instructions.

proof:   AQ.Props.C18 (dest_ge_rpt, retire_announced, stock_le_limit,
         issued_le_peer_limit, accept_until_retired, replaced, cid_total, …) about
         AQ.Model.Cid = the connection-ID bookkeeping of connection.py with the
         fixes fixes/C18-*.diff applied (today's behaviour behind quirk flags,
         with `…_counterexample` theorems)
tie:     (L1) handler level: the real _handle_new_connection_id_frame /
         _handle_retire_connection_id_frame / change_connection_id /
         _replenish_connection_ids / _on_new_connection_id_delivery of a real
         QuicConnection object, exhaustively for all sequences of <= 4
         NEW_CONNECTION_ID frames (seq, retire-prior-to in 0..4) and local changes;
         (L2) connection level: a REAL connection after a real handshake driven from
         the wire by the key-holding peer; every call of a modelled function is
         observed and replayed on the compiled model (state compared after every op,
         RETIRE frames in flight compared with the recovery's sent-packet table)
oracle:  the property text on the wire (harness/impl_cid.py CidOracle): destination
         IDs, RETIRE_/NEW_CONNECTION_ID frames in acknowledged packets, acceptance
         of packets per issued ID, limits, events, escaping exceptions
"""
import itertools
import json
import logging
import time

from harness import core, lean, rng, tree

# VERIF_C18_TODAY=1: run the model with both quirk flags (= the code before fixes/C18-*.diff); used to show
# that the `…_counterexample` theorems speak about the real unfixed code.  Default: the fixed code.
import os
QUIRKS = (1, 1) if os.environ.get("VERIF_C18_TODAY") == "1" else (0, 0)
Q = f"{QUIRKS[0]} {QUIRKS[1]}"

PAIRS_VALID = [(s, r) for s in range(5) for r in range(s + 1)]
PAIRS_ALL = [(s, r) for s in range(5) for r in range(5)]


# ------------------------------------------------------------------ L1 generators
def unit_alphabet(full):
    pairs = PAIRS_ALL if full else PAIRS_VALID + [(0, 1)]
    return [f"cid.ncid {s} {r} 8" for s, r in pairs] + ["cid.change"]


def unit_exhaustive(k, full, rl=8):
    alpha = unit_alphabet(full)
    for n in range(k + 1):
        for seq in itertools.product(alpha, repeat=n):
            yield [f"cid.new 1 {rl} {Q}"] + list(seq)


def unit_random(r, n_cases, max_ops):
    for _ in range(n_cases):
        cl = r.choice([0, 1])
        rl = r.choice([2, 3, 4, 7, 8, 9, 20])
        case = [f"cid.new {cl} {rl} {Q}"]
        hi = r.choice([3, 6, 12, 40])
        for _ in range(r.randrange(1, max_ops)):
            x = r.random()
            if x < 0.5:
                s = r.randrange(hi + 1)
                rp = r.choice([0, 0, s, r.randrange(s + 2), max(0, s - 1)])
                n = r.choice([8, 8, 8, 8, 1, 20, 0, 21])
                case.append(f"cid.ncid {s} {rp} {n}")
            elif x < 0.65:
                case.append("cid.change")
            elif x < 0.85:
                s = r.randrange(12)
                via = r.choice(["none", str(s), str(r.randrange(10)), "0"])
                case.append(f"cid.retire {s} {via}")
            elif x < 0.9:
                case.append("cid.replenish")
            else:
                case.append(f"cid.ndel {r.randrange(10)} {r.choice([0, 1])}")
        yield case


def unit_oracle(case, out):
    """property clauses that are visible at handler level (independent of the
    model): no Python exception escapes; after a successful NEW_CONNECTION_ID the
    current ID is >= every retire-prior-to seen and stock <= 8; issued <= min(8, limit)"""
    rl = int(case[0].split()[2])
    max_rpt = 0
    got = {0}
    for op, line in zip(case, out):
        head, st = line.split(" | ")
        kv = core.parse_kv(st)
        if head.startswith("err") and not head.startswith("err QuicConnectionError"):
            return ("no-exception", f"{head[4:]} escaped on {op!r}")
        if head.startswith("err"):
            return None     # connection closes
        t = op.split()
        if t[0] == "cid.ncid":
            max_rpt = max(max_rpt, int(t[2]))
            got.add(int(t[1]))
            if int(kv["peer"]) < max_rpt:
                return ("dest-ge-rpt", f"current peer ID #{kv['peer']} below retire-prior-to {max_rpt} after {op!r}")
            avail = [x for x in kv["avail"].strip("[]").split(",") if x]
            if 1 + len(avail) > 8:
                return ("stock-le-limit", f"{1 + len(avail)} peer IDs kept after {op!r}")
        hc = [x for x in kv["hcids"].strip("[]").split(",") if x]
        if len(hc) > max(1, min(8, rl)):
            return ("issued-le-peer-limit", f"{len(hc)} issued IDs with peer limit {rl} after {op!r}")
    return None


# ------------------------------------------------------------------ L2 generators
def sim_alphabet():
    return [f"pkt 0 n:{s}:{r}:8" for s, r in PAIRS_VALID + [(0, 1)]] + ["change"]


EPILOGUE = ["flush", "lose", "flush"]


# directed histories (the defects found on the tree before fixes/C18-*.diff, and their neighbours)
DIRECTED = [
    ["pkt 0 n:3:0:8", "pkt 0 n:2:0:8", "change", "change", "pkt 0 n:3:3:8"],           # no replacement left
    ["pkt 0 n:2:0:8", "pkt 0 n:1:0:8", "pkt 1 p", "pkt 2 p", "pkt 2 n:2:2:8"],         # same, peer-driven (server)
    ["pkt 0 n:2:2:8", "flush", "pkt 0 n:1:0:8"],                                       # reordered below retire-prior-to
    ["pkt 0 n:2:2:8", "pkt 0 n:1:0:8", "pkt 0 n:1:0:8", "pkt 0 n:1:1:8"],              # … retired once only
    ["pkt 0 n:4:4:8", "pkt 0 n:1:0:8", "pkt 0 n:2:0:8", "pkt 0 n:3:0:8", "lose"],      # … announced again after loss
    ["pkt 0 " + " ".join(f"n:{i}:0:8" for i in range(1, 8)), "pkt 0 n:8:0:8"],         # over the advertised limit
    ["pkt 0 " + " ".join(f"n:{i}:0:8" for i in range(1, 8)), "pkt 0 n:8:1:8", "flush", "pkt 0 n:9:9:8"],
    ["pkt 0 r:1", "pkt 0 r:1", "pkt 1 p", "pkt 2 r:3 r:2", "pkt 3 r:3"],               # retire issued IDs, current one
    ["fill 30000", "pkt 0 n:1:1:8 r:1 r:2", "flush", "flush", "ack all", "flush"],     # no room for CID frames
] + [
    [f"fill {n}", "pkt 0 n:1:1:8 r:1 r:2 r:3 r:4", "flush", "flush", "ack all", "flush"]  # room for some of them
    for n in range(13400, 14100, 20)
]


def sim_exhaustive(k):
    alpha = sim_alphabet()
    for n in range(k + 1):
        for seq in itertools.product(alpha, repeat=n):
            yield list(seq) + EPILOGUE


def sim_random(r, max_cmds, full_peer):
    script = []
    lo = 8 if full_peer else 0
    hi = lo + r.choice([3, 5, 9])
    for _ in range(r.randrange(2, max_cmds)):
        x = r.random()
        if x < 0.45:
            frames = []
            for _ in range(r.choice([1, 1, 1, 2, 3])):
                y = r.random()
                if y < 0.6:
                    s = r.randrange(lo and lo - 3, hi + 1)
                    rp = r.choice([0, 0, s, s, r.randrange(s + 2), max(0, s - 1)])
                    n = r.choice([8] * 12 + [1, 20, 0, 21])
                    frames.append(f"n:{s}:{rp}:{n}")
                elif y < 0.9:
                    frames.append(f"r:{r.randrange(0, 12)}")
                else:
                    frames.append("p")
            via = r.choice(["0", "0", "0", str(r.randrange(12)), str(r.randrange(12)), "x"])
            script.append("pkt " + via + " " + " ".join(frames))
        elif x < 0.6:
            script.append("change")
        elif x < 0.78:
            script.append("flush")
        elif x < 0.88:
            script.append(r.choice(["ack all", f"ack {r.randrange(1, 16)}"]))
        elif x < 0.94:
            script.append("lose")
        elif x < 0.97:
            script.append(f"fill {r.choice([3000, 12500, 30000, r.randrange(13300, 14100), r.randrange(13300, 14100)])}")
        else:
            script.append("timer")
    return script


# ------------------------------------------------------------------------- main
def run_sim_cases(ctx, name, scripts, meta, stats):
    from harness import impl_cid
    cases, impl = [], []
    for script in scripts:
        res = impl_cid.run_script(meta["seed"], meta["victim"], meta["remote_limit"], meta["full_peer"], script, QUIRKS)
        cases.append(res["ops"])
        impl += res["outs"]
        nontrivial = any(o.startswith("cid.ncid") for o in res["ops"]) and any(
            o.startswith("cid.rdel") for o in res["ops"])
        ctx.count((name, tuple(script)), nontrivial)
        stats["ops"] += len(res["ops"])
        stats["closed"] += res["closed"] is not None
        for o in res["ops"]:
            k = o.split()[0]
            stats["kinds"][k] = stats["kinds"].get(k, 0) + 1
        for rule, text in res["findings"]:
            ctx.witness(f"{text} [{name}]", {**meta, "script": script}, {"oracle": "c18", "rule": rule})
    model = lean.run_driver([l for c in cases for l in c])
    mism = core.diff_streams(ctx, name, cases, impl, model)
    for m in mism[:3]:
        if m[0] >= 0:
            ci, oi, il, ml = m
            ctx.disagreement(name, {**meta, "script": scripts[ci], "ops": cases[ci][: oi + 1]}, ml, il, oi)
    ctx.cov["traces_validated_against_impl"] += len(cases)
    return len(mism)


def main(tier):
    ctx = core.Ctx("C18", tier)
    tree.activate()
    logging.disable(logging.CRITICAL)
    from harness import impl_cid
    impl_cid.cache_private_key()

    ctx.prove(["AQ.Props.C18"], [])
    ctx.cov["trusted_base"] = [
        "Lean 4.33.0 kernel (+ leanchecker in thorough tier)",
        "axioms: subset of {propext, Classical.choice, Quot.sound} (audited by #print axioms)",
        "model AQ.Model.Cid <-> connection.py: differential correspondence at handler level (exhaustive small scope) "
        "and at connection level (observed calls of the real methods after a real handshake)",
        "harness/impl_cid.py observation wrappers and canonicalisation; harness/sim.py, inject.py, frames.py",
    ]
    ctx.assumptions = [
        "issued connection IDs are pairwise distinct byte strings (asserted on every replenish in the harness)",
        "_remote_active_connection_id_limit >= 2 and constant once the transport parameters are parsed "
        "(enforced by _parse_transport_parameters; asserted in the harness)",
        "the loss recovery reports each tracked frame at most once (C08 callbacks-once)",
        "frame decoding (truncated frames -> FRAME_ENCODING_ERROR) belongs to C17",
    ]
    thorough = tier == "thorough"
    #        unit depth, unit random, sim exhaustive depth, sample of next depth (client, server), sim random
    SZ = {"smoke": (2, 300, 1, 40, 20, 40), "quick": (4, 3000, 2, 1500, 500, 500),
          "thorough": (4, 20000, 3, 20000, 6000, 5000)}[tier if tier in ("smoke", "thorough") else "quick"]
    r = rng.make("c18")
    t0 = time.time()

    # ---- L1: handler level
    cases = list(unit_exhaustive(SZ[0], full=thorough))
    core.run_cases(ctx, "cid-unit-exhaustive", cases, impl_cid.CidUnit, unit_oracle_w, None, unit_sig)
    ctx.cov["exhaustive"] = True
    ctx.sample({"unit": cases[len(cases) // 2]})
    cases = list(unit_random(r, SZ[1], 40))
    core.run_cases(ctx, "cid-unit-random", cases, impl_cid.CidUnit, unit_oracle_w, None, unit_sig)
    ctx.notes["unit_s"] = round(time.time() - t0, 1)

    # ---- L2: connection level
    stats = {"ops": 0, "closed": 0, "kinds": {}}
    t1 = time.time()
    plans = [("client", 8, False), ("server", 8, False), ("server", 3, False), ("client", 8, True), ("server", 8, True)]
    for victim, rl, full in plans:
        seed = rng.seed() * 1000 + len(victim) + rl + full
        meta = {"seed": seed, "victim": victim, "remote_limit": rl, "full_peer": full}
        name = f"cid-sim-{victim}-{rl}-{'full' if full else 'bare'}"
        if not full and rl == 8:
            depth = SZ[2]
            scripts = [d + EPILOGUE for d in DIRECTED] + list(sim_exhaustive(depth))
            extra = list(itertools.product(sim_alphabet(), repeat=depth + 1))
            k = SZ[3] if victim == "client" else SZ[4]
            scripts += [list(s) + EPILOGUE for s in r.sample(extra, min(k, len(extra)))]
            run_sim_cases(ctx, name + "-exh", scripts, meta, stats)
        n = SZ[5]
        scripts = [sim_random(r, r.choice([6, 12, 25]), full) for _ in range(n)]
        run_sim_cases(ctx, name + "-rnd", scripts, meta, stats)
        ctx.sample({name: scripts[0][:6]})
    ctx.notes["sim_s"] = round(time.time() - t1, 1)
    ctx.notes["sim_ops"] = stats
    ctx.cov["rule"] = (
        "L1: every sequence of <= 4 events over {NEW_CONNECTION_ID(seq, rpt) | 0 <= rpt <= seq <= 4 (thorough: all "
        "seq, rpt in 0..4)} + {rpt > seq} + {local change} on a real QuicConnection object, plus random sequences "
        "(<= 40 ops: NEW_CONNECTION_ID with seq <= 40, any rpt, ID length 0/1/8/20/21; RETIRE_CONNECTION_ID via any "
        "ID; replenish; NEW_CONNECTION_ID loss). L2: real connection after a real handshake (client and server victim, "
        "peer limit 8 and 3, bare peer / genuine peer that issued 7 IDs), every script of <= 2 (thorough 3) events + "
        "sample of the next length, followed by flush / loss of everything outstanding / flush / fair phase; random "
        "scripts (multi-frame packets addressed to any issued or unknown ID = peer switches, RETIRE_CONNECTION_ID, "
        "local changes, partial ACKs, loss, timers). Non-trivial = a NEW_CONNECTION_ID was processed and a "
        "RETIRE_CONNECTION_ID delivery (ack/loss) was observed; distinct by script hash."
    )
    # keep the three shortest failing inputs per violated clause (hundreds of longer ones repeat them)
    by_rule = {}
    for w in ctx.witnesses:
        by_rule.setdefault(w["signature"].get("rule"), []).append(w)
    ctx.notes["witnesses_per_rule"] = {str(k): len(v) for k, v in by_rule.items()}
    ctx.witnesses = [w for v in by_rule.values()
                     for w in sorted(v, key=lambda w: len(json.dumps(w["replay"])))[:3]]
    return ctx.finish()


def unit_oracle_w(case, out):
    p = unit_oracle(case, out)
    return None if p is None else f"{p[1]} [{p[0]}]"


def unit_sig(case, out, p):
    return {"oracle": "c18", "rule": p.rsplit("[", 1)[1].rstrip("]")}


def replay(path):
    """re-run a stored witness (connection-level script or handler-level op list)"""
    tree.activate()
    logging.disable(logging.CRITICAL)
    from harness import impl_cid
    w = json.load(open(path))
    rp = w.get("replay") or (w.get("broken") or [{}])[0].get("ops") or {}
    if "script" in rp:
        res = impl_cid.run_script(rp["seed"], rp["victim"], rp["remote_limit"], rp["full_peer"], rp["script"])
        model = lean.run_driver(res["ops"])
        for o, a, b in zip(res["ops"], res["outs"], model):
            print(("   " if a == b else "!! ") + o, "=>", a)
            if a != b:
                print("      model:", b)
        print("findings:", res["findings"], "closed:", res["closed"], "raised:", res["raised"])
        return 1 if res["findings"] else 0
    ops = rp.get("ops", [])
    impl = impl_cid.CidUnit()
    out = [impl.step(l) for l in ops]
    model = lean.run_driver(ops)
    for o, a, b in zip(ops, out, model):
        print(("   " if a == b else "!! ") + o, "=>", a)
        if a != b:
            print("      model:", b)
    return 1 if unit_oracle(ops, out) else 0
