"""C10 — stream halves conform to a reference model.

proof:   AQ.Props.C10 (+ RangeSet lemmas) built and audited
tie:     T2 correspondence of AQ.Model.Stream / AQ.Base.RangeSet (compiled
         driver) against the real QuicStreamReceiver / QuicStreamSender /
         RangeSet on exhaustive small scopes + random long sequences
oracle:  independent dict-based offset->byte reference, evaluated on the
         implementation's own trace
"""
import itertools

from harness import core, lean, rng, send_explore, tree


# ----------------------------------------------------------------- generators
def byte_at(o, salt=0):
    return (o * 7 + 1 + salt) % 256


def frame_op(o, n, fin, salt=0):
    data = bytes(byte_at(o + i, salt) for i in range(n))
    return f"recv.frame {o} {data.hex() if data else '-'} {1 if fin else 0}"


def recv_alphabet(L):
    ops = []
    for o in range(L + 1):
        for n in range(L - o + 1):
            for fin in (0, 1):
                ops.append(frame_op(o, n, fin))
    for z in range(L + 1):
        ops.append(f"recv.reset {z}")
    return ops


def recv_exhaustive(L, k):
    alpha = recv_alphabet(L)
    for seq in itertools.product(alpha, repeat=k):
        yield ["recv.new"] + list(seq)


def recv_random(r, n_cases, max_ops, size):
    for _ in range(n_cases):
        case = ["recv.new"]
        total = r.choice([size, size // 4 + 1, 8])
        salted = r.random() < 0.15   # malformed stream: inconsistent overlaps
        final = total if r.random() < 0.8 else None
        pts = sorted({0, total} | {r.randrange(total + 1) for _ in range(r.randrange(1, 12))})
        for _ in range(r.randrange(1, max_ops)):
            x = r.random()
            if x < 0.05:
                case.append(f"recv.reset {r.choice([total, r.randrange(total + 2)])}")
                continue
            if x < 0.65:
                i = r.randrange(len(pts) - 1) if len(pts) > 1 else 0
                a = pts[i]
                b = pts[min(len(pts) - 1, i + r.randrange(1, 3))]
            else:
                a = r.randrange(total + 1)
                b = min(total + (2 if r.random() < 0.05 else 0), a + r.randrange(0, 1 + total // 2))
            fin = (b == final and r.random() < 0.7) or r.random() < 0.03
            case.append(frame_op(a, b - a, fin, r.randrange(256) if salted and r.random() < 0.5 else 0))
        yield case


def send_random(r, n_cases, max_ops, wf=True):
    """well-formed histories: delivery reports only name outstanding frames.
    Returns cases as lists of *symbolic* ops resolved while executing, so the
    generator needs the implementation's answers: we generate adaptively."""
    raise NotImplementedError


# ------------------------------------------------------- reference (oracles)
class RecvRef:
    """the 'simple offset-to-byte map' of the property statement"""

    def __init__(self):
        self.known = {}
        self.delivered = 0
        self.final = None
        self.reset = False

    def frame(self, o, data, fin):
        end = o + len(data)
        if self.final is not None and (end > self.final or (fin and end != self.final)):
            return "err"
        if fin:
            self.final = end
        for i, b in enumerate(data):
            if o + i >= self.delivered:
                self.known[o + i] = b
        out = bytearray()
        while self.delivered in self.known:
            out.append(self.known.pop(self.delivered))
            self.delivered += 1
        endm = self.delivered == self.final
        if out or endm:
            return (bytes(out), endm)
        return None

    def do_reset(self, z):
        if self.final is not None and z != self.final:
            return "err"
        self.final = z
        self.reset = True
        return "reset"


def parse_kv(s):
    d = {}
    for tok in s.split():
        if "=" in tok:
            k, v = tok.split("=", 1)
            d[k] = v
    return d


def oracle_recv(ctx, case, out):
    """check one implementation trace against the reference; returns problem or None"""
    ref = RecvRef()
    for op, line in zip(case[1:], out[1:]):
        t = op.split()
        head, _, state = line.partition(" | ")
        if t[0] == "recv.frame":
            data = b"" if t[2] == "-" else bytes.fromhex(t[2])
            exp = ref.frame(int(t[1]), data, t[3] == "1")
            if exp == "err":
                if head != "err FinalSizeError":
                    return f"expected FinalSizeError on {op!r}, got {head!r}"
            elif head.startswith("err"):
                return f"unexpected {head!r} on {op!r}"
            elif ref.reset:
                pass  # after an accepted reset only errors and bytes are specified
            else:
                if exp is None:
                    if head != "ok none":
                        return f"expected no event on {op!r}, got {head!r}"
                else:
                    kv = parse_kv(head)
                    got = (b"" if kv.get("data") == "-" else bytes.fromhex(kv.get("data", "")), kv.get("end") == "1")
                    if head == "ok none" or got != exp:
                        return f"expected data={exp[0].hex()} end={exp[1]} on {op!r}, got {head!r}"
            if not head.startswith("err") and ref.reset and exp not in ("err", None):
                kv = parse_kv(head)
                if head != "ok none":
                    got = b"" if kv.get("data") == "-" else bytes.fromhex(kv.get("data", ""))
                    if got != exp[0]:
                        return f"bytes after reset differ on {op!r}: {head!r}"
        elif t[0] == "recv.reset":
            exp = ref.do_reset(int(t[1]))
            if exp == "err" and head != "err FinalSizeError":
                return f"expected FinalSizeError on {op!r}, got {head!r}"
            if exp != "err" and head.startswith("err"):
                return f"unexpected {head!r} on {op!r}"
    return None


class SendDriver:
    """adaptive generator + oracle for the send half: drives the implementation
    and records the op lines so the same lines can be replayed on the model."""

    def __init__(self, impl, r):
        self.impl = impl
        self.r = r
        self.lines = []
        self.outs = []
        self.written = bytearray()
        self.fin_written = False
        self.reset = False
        self.outstanding = []   # (start, stop, fin)
        self.acked = set()
        self.fin_acked = False
        self.reset_out = 0
        self.reset_acked = False
        self.problem = None
        self.flags = set()

    def do(self, line):
        out = self.impl.step(line)
        self.lines.append(line)
        self.outs.append(out)
        # independent per-state oracle (conservation / re-offer / completion,
        # evaluated on a deep copy of the real sender after EVERY op)
        if not hasattr(self, "ghost"):
            self.ghost = send_explore.SendGhost()
        p = self.ghost.apply(line, out) or self.ghost.check(self.impl.send)
        if p:
            self.fail(f"{p} (after {line!r})")
        return out

    def fail(self, msg):
        if self.problem is None:
            self.problem = msg

    def check_state(self, out):
        kv = parse_kv(out.partition(" | ")[2])
        done = (self.fin_written and self.fin_acked and len(self.acked) == len(self.written) and not self.reset_acked_only())
        # completion exactly when all bytes and the FIN, or the reset, acknowledged
        exp = self.latched_done or self.reset_acked
        if (kv.get("fin") == "1") != exp:
            self.fail(f"is_finished={kv.get('fin')} but expected {exp} after {self.lines[-1]!r}")

    def reset_acked_only(self):
        return False

    latched_done = False

    def run(self, max_ops):
        r = self.r
        self.do("send.new 1")
        for _ in range(max_ops):
            if self.problem:
                return self.problem      # shortest failing history: stop at the first problem
            x = r.random()
            if x < 0.25 and not self.fin_written and not self.reset:
                n = r.choice([0, 1, 2, 3, 5, 8, 40])
                data = bytes(byte_at(len(self.written) + i) for i in range(n))
                fin = r.random() < 0.2
                out = self.do(f"send.write {data.hex() if data else '-'} {1 if fin else 0}")
                self.written += data
                self.fin_written |= fin
                if out.startswith("err"):
                    self.fail(f"write raised: {out}")
            elif x < 0.6 and not self.reset:
                ms = r.choice([0, 1, 2, 3, 7, 100])
                mo = r.choice(["none", "none", str(r.randrange(len(self.written) + 2))])
                out = self.do(f"send.get {ms} {mo}")
                head = out.partition(" | ")[0]
                if head.startswith("err"):
                    self.fail(f"get_frame raised: {out}")
                elif head != "ok none":
                    kv = parse_kv(head)
                    off = int(kv["off"])
                    data = b"" if kv["data"] == "-" else bytes.fromhex(kv["data"])
                    fin = kv["fin"] == "1"
                    if bytes(self.written[off:off + len(data)]) != data or off + len(data) > len(self.written):
                        self.fail(f"frame bytes differ from written bytes: {head}")
                    if len(data) > ms:
                        self.fail(f"frame larger than max_size {ms}: {head}")
                    if mo != "none" and off + len(data) > int(mo) and len(data) > 0:
                        self.fail(f"frame beyond max_offset {mo}: {head}")
                    if fin and not (self.fin_written and off + len(data) == len(self.written)):
                        self.fail(f"FIN on a frame that does not end the written data: {head}")
                    if not data and not fin:
                        self.fail(f"empty frame without FIN: {head}")
                    self.outstanding.append((off, off + len(data), fin))
                    self.flags.add("frame")
            elif x < 0.85 and self.outstanding:
                i = r.randrange(len(self.outstanding))
                a, b, fin = self.outstanding.pop(i)
                ack = r.random() < 0.55
                self.do(f"send.delivery {1 if ack else 0} {a} {b} {1 if fin else 0}")
                if not self.reset:
                    if ack:
                        self.acked |= set(range(a, b))
                        self.fin_acked |= fin
                        self.flags.add("ack-middle" if a > 0 and 0 not in self.acked else "ack")
                        if self.fin_written and self.fin_acked and len(self.acked) == len(self.written):
                            self.latched_done = True
                    else:
                        self.flags.add("loss")
            elif x < 0.9:
                self.do(f"send.reset {r.randrange(4)}")
                self.reset = True
                self.flags.add("reset")
            elif x < 0.95 and self.reset:
                kv = parse_kv(self.outs[-1].partition(" | ")[2])
                if kv.get("rp") == "1":
                    self.do("send.getreset")
                    self.reset_out += 1
            elif self.reset_out:
                self.reset_out -= 1
                ack = r.random() < 0.5
                self.do(f"send.resetdelivery {1 if ack else 0}")
                self.reset_acked |= ack
            else:
                continue
            self.check_state(self.outs[-1])
            if self.reset:
                kv = parse_kv(self.outs[-1].partition(" | ")[2])
                if kv.get("empty") != "1":
                    self.fail("buffer_is_empty false after reset (data would be offered after a reset)")
        # conservation: everything written and not acknowledged is either
        # outstanding or re-offered by draining get_frame
        if not self.reset:
            covered = set(self.acked)
            fin_cov = self.fin_acked
            for a, b, fin in self.outstanding:
                covered |= set(range(a, b))
                fin_cov |= fin
            for _ in range(len(self.written) + 3):
                out = self.do("send.get 1000000 none")
                head = out.partition(" | ")[0]
                if head == "ok none" or head.startswith("err"):
                    break
                kv = parse_kv(head)
                off = int(kv["off"])
                n = 0 if kv["data"] == "-" else len(kv["data"]) // 2
                covered |= set(range(off, off + n))
                fin_cov |= kv["fin"] == "1"
            if covered != set(range(len(self.written))):
                self.fail(f"written bytes neither acknowledged, outstanding nor re-offered: missing {sorted(set(range(len(self.written))) - covered)[:5]}")
            if self.fin_written and not fin_cov:
                self.fail("FIN neither acknowledged, outstanding nor re-offered")
        return self.problem


def send_malformed(r, n_cases, max_ops):
    """arbitrary (not well-formed) histories: correspondence only"""
    for _ in range(n_cases):
        case = ["send.new " + r.choice(["1", "1", "0"])]
        for _ in range(r.randrange(1, max_ops)):
            x = r.random()
            if x < 0.3:
                n = r.randrange(0, 6)
                case.append(f"send.write {bytes(r.randrange(256) for _ in range(n)).hex() or '-'} {r.choice([0, 0, 0, 1])}")
            elif x < 0.6:
                case.append(f"send.get {r.choice([0, 1, 2, 5, 50])} {r.choice(['none', 'none', str(r.randrange(12))])}")
            elif x < 0.85:
                a = r.randrange(10)
                case.append(f"send.delivery {r.choice([0, 1])} {a} {a + r.randrange(0, 5)} {r.choice([0, 0, 1])}")
            elif x < 0.9:
                case.append(f"send.reset {r.randrange(3)}")
            elif x < 0.95:
                case.append("send.getreset")
            else:
                case.append(f"send.resetdelivery {r.choice([0, 1])}")
        yield case


def rs_cases(r, exhaustive_universe, k, n_random):
    U = exhaustive_universe
    alpha = []
    for a in range(U):
        for b in range(a + 1, U + 1):
            alpha.append(f"rs.add {a} {b}")
            alpha.append(f"rs.sub {a} {b}")
    alpha.append("rs.shift")
    for seq in itertools.product(alpha, repeat=k):
        yield ["rs.new"] + list(seq) + ["rs.bounds"] + [f"rs.contains {x}" for x in range(U + 1)]
    for _ in range(n_random):
        case = ["rs.new"]
        for _ in range(r.randrange(1, 60)):
            a = r.randrange(200)
            b = a + r.randrange(1, 30)
            case.append(r.choice([f"rs.add {a} {b}", f"rs.add {a} {b}", f"rs.sub {a} {b}", "rs.shift", "rs.bounds", f"rs.contains {a}"]))
        yield case


# ----------------------------------------------------------------- the check
def run_cases(ctx, name, cases, StreamImpl, oracle=None, nontrivial=None):
    impl_lines = []
    all_lines = []
    for case in cases:
        impl = StreamImpl()
        out = [impl.step(l) for l in case]
        impl_lines += out
        all_lines += case
        nt = nontrivial(case, out) if nontrivial else True
        ctx.count(tuple(case), nt)
        if oracle is not None:
            p = oracle(ctx, case, out)
            if p:
                ctx.witness(p, {"ops": case, "impl_output": out}, {"oracle": name})
    model_lines = lean.run_driver(all_lines)
    mism = core.diff_streams(ctx, name, cases, impl_lines, model_lines)
    for m in mism[:3]:
        if m[0] >= 0:
            ci, oi, il, ml = m
            ctx.disagreement(name, cases[ci][: oi + 1], ml, il, oi)
    ctx.cov["traces_validated_against_impl"] += len(cases)
    return len(mism)


def recv_nontrivial(case, out):
    # gap fill / duplicate trim / out-of-order FIN: some frame produced no event
    # and a later one delivered data
    return any(o.startswith("ok none") for o in out) and any(" data=" in o and "data=-" not in o for o in out)


def main(tier):
    ctx = core.Ctx("C10", tier)
    tree.activate()
    from harness.impl_stream import StreamImpl

    ctx.prove(["AQ.Props.C10"], [])
    ctx.cov["trusted_base"] = [
        "Lean 4.33.0 kernel (+ leanchecker in thorough tier)",
        "axioms: subset of {propext, Classical.choice, Quot.sound} (audited by #print axioms)",
        "hand-written model AQ.Model.Stream / AQ.Base.RangeSet tied by differential correspondence (this run) to stream.py / rangeset.py",
        "harness/impl_stream.py canonicalisation; CPython semantics between compared observations",
    ]
    ctx.assumptions = [
        "offsets and lengths are non-negative (decoded varints)",
        "sender theorems: delivery reports name frames emitted earlier and not yet reported (guaranteed by recovery, C08)",
    ]
    r = rng.make("c10")
    thorough = tier == "thorough"
    # 1. corpus (past disagreements) would go first -- none recorded yet
    # 2. exhaustive small scope
    cases = list(recv_exhaustive(3, 3 if not thorough else 4))
    cases += list(recv_exhaustive(4, 2 if not thorough else 3))
    run_cases(ctx, "recv-exhaustive", cases, StreamImpl, oracle_recv, recv_nontrivial)
    ctx.sample({"recv": cases[len(cases) // 3]})
    # 3. random long
    cases = list(recv_random(r, 400 if not thorough else 6000, 60, 4096))
    run_cases(ctx, "recv-random", cases, StreamImpl, oracle_recv, recv_nontrivial)
    ctx.sample({"recv-random": cases[0][:6]})
    # 4. range set
    cases = list(rs_cases(r, 5, 2 if not thorough else 3, 300 if not thorough else 5000))
    run_cases(ctx, "rangeset", cases, StreamImpl)
    ctx.sample({"rangeset": cases[7]})
    # 5a. sender, exhaustive small scope on the REAL object (deep copies at every
    #     branch), oracle at EVERY state, then the explored histories on the model
    scopes = [(12, 3, 2)] if not thorough else [(40, 3, 2), (13, 4, 3), (9, 5, 3)]
    for depth, nbytes, nwrites in scopes:
        problems, cases, outs, st = send_explore.explore(StreamImpl, depth, nbytes, nwrites)
        for what, ops, out in problems:
            ctx.witness(what, {"ops": ops, "impl_output": out}, {"oracle": "send-exhaustive", "what": what.split(":")[0]})
        for c in cases:
            ctx.count(tuple(c), any(l.startswith("send.delivery 0") for l in c))
        ctx.cov.setdefault("send_exhaustive", []).append(
            {"max_ops": depth, "max_bytes": nbytes, "max_writes": nwrites, **st, "histories": len(cases)})
        model_lines = lean.run_driver([l for c in cases for l in c])
        for m in core.diff_streams(ctx, "send-exhaustive", cases, [o for c in outs for o in c], model_lines)[:3]:
            if m[0] >= 0:
                ctx.disagreement("send-exhaustive", cases[m[0]][: m[1] + 1], m[3], m[2], m[1])
        ctx.cov["traces_validated_against_impl"] += len(cases)
        if cases:
            ctx.sample({"send-exhaustive": cases[len(cases) // 2]})
    # 5b. sender: adaptive well-formed histories + oracle, then replay on model
    cases = []
    impl_lines = []
    for i in range(600 if not thorough else 10000):
        sd = SendDriver(StreamImpl(), r)
        p = sd.run(r.choice([8, 20, 60]))
        cases.append(sd.lines)
        impl_lines += sd.outs
        ctx.count(tuple(sd.lines), {"loss", "frame"} <= sd.flags or "ack-middle" in sd.flags)
        if p:
            ctx.witness(p, {"ops": sd.lines, "impl_output": sd.outs}, {"oracle": "send"})
    model_lines = lean.run_driver([l for c in cases for l in c])
    for m in core.diff_streams(ctx, "send-wf", cases, impl_lines, model_lines)[:3]:
        if m[0] >= 0:
            ctx.disagreement("send-wf", cases[m[0]][: m[1] + 1], m[3], m[2], m[1])
    ctx.cov["traces_validated_against_impl"] += len(cases)
    ctx.sample({"send": cases[0][:8]})
    cases = list(send_malformed(r, 500 if not thorough else 8000, 25))
    run_cases(ctx, "send-malformed", cases, StreamImpl)
    ctx.cov["rule"] = (
        "receiver: every (offset,len,fin)/reset sequence over streams of length<=3 (k ops) and <=4, plus random "
        "overlap-biased sequences incl. inconsistent overlaps; sender: EVERY well-formed history of <=12 ops "
        "(quick; to closure and wider in thorough) over streams of <=3 bytes written in <=2 writes (incl. a separate "
        "empty FIN write), get_frame with max_size in {1,2,inf} x max_offset in {none,1,2}, every ack/loss of every "
        "frame in flight, reset/RESET delivery at any point, states merged when sender attributes and history "
        "coincide, with the conservation / re-offer / completion oracle evaluated at every state on a deep copy; "
        "plus adaptive random well-formed histories (same oracle at every state) and arbitrary malformed histories; RangeSet: all add/subtract/shift "
        "sequences over a universe of 5. Non-trivial = a receive trace with a withheld frame later delivered "
        "(gap fill / reordering) or a send trace with loss after emission or ack of a middle range; distinct by op-sequence hash."
    )
    ctx.cov["exhaustive"] = True

    def search():
        # failing-input search: deeper exhaustive scope + many more random histories,
        # oracle only (the implementation is what is being searched)
        rr = rng.make("c10-search")
        for case in list(recv_exhaustive(3, 4)) + list(recv_random(rr, 4000, 60, 4096)):
            impl = StreamImpl()
            out = [impl.step(l) for l in case]
            p = oracle_recv(ctx, case, out)
            if p:
                ctx.witness(p, {"ops": case, "impl_output": out}, {"oracle": "recv"})
                return
        problems, _, _, _ = send_explore.explore(StreamImpl, 10, 4, 3)
        for what, ops, out in problems[:1]:
            ctx.witness(what, {"ops": ops, "impl_output": out}, {"oracle": "send-exhaustive", "what": what.split(":")[0]})
            return
        for _ in range(8000):
            sd = SendDriver(StreamImpl(), rr)
            p = sd.run(rr.choice([8, 20, 60]))
            if p:
                ctx.witness(p, {"ops": sd.lines, "impl_output": sd.outs}, {"oracle": "send"})
                return

    ctx.search = search
    return ctx.finish()


def replay(path):
    """re-execute a replay file against the current tree"""
    import json
    tree.activate()
    from harness.impl_stream import StreamImpl
    d = json.load(open(path))
    if d.get("kind") != "impl-witness":
        print("replay names a broken obligation/correspondence, nothing to execute:", json.dumps(d.get("broken", []))[:400])
        return 1
    ops = d["replay"]["ops"]
    impl = StreamImpl()
    out = [impl.step(l) for l in ops]
    if ops[0].startswith("recv"):
        p = oracle_recv(None, ops, out)
    else:
        # send half: re-evaluate the history oracle at every state of the recorded op list
        # (this subsumes the end-of-run checks of the random driver)
        p, out = send_explore.check_trace(StreamImpl, ops)
    print("still failing: " + p if p else "no longer failing")
    return 1 if p else 0
