"""C02b section 7: the expected packet number as connection STATE.

  "… a truncated packet number is always expanded to the candidate closest to
   the next expected number"  /  "Every protected packet an endpoint emits is
   recovered bit-exactly by its peer …"

proof:   AQ.Props.C02b.expected_tracks_largest / genuine_in_window_expands about
         AQ.Model.PnSpace (the `raise expected packet number` statement of
         receive_datagram), over ALL sequences of accepted / dropped packets.
tie:     `space.expected_packet_number` of the live connections is read after
         every receive_datagram and compared with the compiled model fed with
         the packets that authenticated (`prot.pn.*`), and with largest + 1
         computed by the harness — in adversarial sim runs (reordering,
         duplication, loss) and in the scenario below.
oracle:  an INDEPENDENT RFC 9001 sender (Lean pipeline + harness/rfc_prot.py,
         keyed with the client's live 1-RTT secret) sends, after a forward jump
         and a burst of ≥ 2^(bits−1) late packets, in-order packets with 1-byte
         packet numbers, packets at both edges of the 1- and 2-byte windows,
         3- and 4-byte numbers, an altered copy and duplicates: every genuine
         packet inside the window must be accepted.
"""
import json

from harness import lean, sim as simmod
from checks import c02b_flip as F


def hx(b):
    return bytes(b).hex() if len(b) else "-"


def unhx(s):
    return b"" if s == "-" else bytes.fromhex(s)


class PnMonitor:
    """per packet space: the op lines for the model and what the connection shows"""

    def __init__(self):
        self.spaces = {}       # key -> {"ops": [...], "obs": [...], "seen": set(), "name": str}
        self.order = []
        self.call = []         # (ep, epoch, pn) authenticated during the current receive_datagram
        self.accepted_in_call = []

    def on_packet_authenticated(self, sim, ep, epoch, pn, hdr, payload):
        self.call.append((ep, epoch, pn))

    def after_api(self, sim, ep, name, args, kw, res):
        if name != "receive_datagram":
            return
        from aioquic import tls
        touched = {}
        self.accepted_in_call = []
        for e, epoch, pn in self.call:
            ename = "ONE_RTT" if epoch == "ZERO_RTT" else epoch
            space = e.conn._spaces.get(tls.Epoch[ename]) if getattr(e.conn, "_spaces", None) else None
            if space is None:
                continue
            key = (e.name, ename, id(space))
            if key not in self.spaces:
                self.spaces[key] = {"ops": ["prot.pn.new"], "obs": [None], "seen": set(), "name": f"{e.name}/{ename}", "space": space}
                self.order.append(key)
            sp = self.spaces[key]
            if pn in sp["seen"]:
                sp["ops"].append("prot.pn.drop")           # duplicate: discarded before the statement
            else:
                sp["seen"].add(pn)
                sp["ops"].append(f"prot.pn.accept {pn}")
                self.accepted_in_call.append((ename, pn))
            sp["obs"].append(None)
            touched[key] = sp
        self.call = []
        for sp in touched.values():
            sp["obs"][-1] = sp["space"].expected_packet_number

    def note_dropped(self, ep, ename):
        """a packet known to be dropped (altered copy): the value must stay"""
        from aioquic import tls
        space = ep.conn._spaces.get(tls.Epoch[ename])
        for sp in self.spaces.values():
            if sp["space"] is space:
                sp["ops"].append("prot.pn.drop")
                sp["obs"].append(space.expected_packet_number)

    def check(self, ctx, what, replay):
        """model correspondence + the harness' own largest+1; returns number of problems"""
        n = 0
        for key in self.order:
            sp = self.spaces[key]
            out = lean.run_driver(sp["ops"])
            largest = None
            for i, (op, obs, mo) in enumerate(zip(sp["ops"], sp["obs"], out)):
                if op.startswith("prot.pn.accept"):
                    pn = int(op.split()[1])
                    largest = pn if largest is None else max(largest, pn)
                if obs is None:
                    continue
                ctx.count((what, sp["name"], i, op), largest is not None and "accept" in op and int(op.split()[1]) < largest)
                model_exp = int(mo.split("expected=")[1].split()[0])
                bad = None
                if obs != model_exp:
                    bad = f"model AQ.PnSpace says {model_exp}"
                if largest is not None and not (largest <= obs <= largest + 1):
                    bad = f"largest accepted packet number is {largest}"
                if bad:
                    n += 1
                    ctx.witness(f"{sp['name']}: expected_packet_number is {obs} after {op!r} (op #{i} of the space), but {bad}: "
                                "the reference for packet number expansion drifted",
                                dict(replay, space=sp["name"], space_ops=sp["ops"][:i + 1][-40:], observed=obs, model=mo),
                                {"oracle": "pn-state", "class": "expected-drift"})
                    break
            ctx.cov["traces_validated_against_impl"] += 1
        return n


# ------------------------------------------------------ independent RFC sender
def lean_protect(rfc, suite, key, iv, hp, items):
    """items: (hdr, plain, pn) -> protected packets from the Lean pipeline + independent primitives"""
    nonces = [unhx(o[3:]) for o in lean.run_driver([f"prot.q.nonce {hx(iv)} {pn}" for _, _, pn in items])]
    sealed = [rfc.seal(suite, key, n, h, p) for (h, p, _), n in zip(items, nonces)]
    samples = [unhx(o[3:]) for o in lean.run_driver([f"prot.q.sample {hx(h)} {hx(s)}" for (h, _, _), s in zip(items, sealed)])]
    lines = [f"prot.encrypt {suite} {hx(key)} {hx(iv)} {hx(hp)} {hx(h)} {hx(p)} {pn} | {hx(n)} {hx(sl)} {hx(s)} {hx(rfc.mask(suite, hp, s))}"
             for (h, p, pn), n, sl, s in zip(items, nonces, sealed, samples)]
    out = lean.run_driver(lines)
    assert all(o.startswith("ok ") for o in out), [o for o in out if not o.startswith("ok ")][:2]
    return [unhx(o[3:]) for o in out]


def plan(p0, thorough):
    """(pn, pn_len, kind, why): every genuine entry lies inside the window
    L + 1 - 2^(8·len-1) < pn <= L + 2^(8·len-1) around the largest number L sent before"""
    steps, sent = [], set()
    L = [None]

    def add(pn, n, kind="genuine", why=""):
        steps.append((pn, n, kind, why))
        if kind == "genuine":
            sent.add(pn)
            L[0] = pn if L[0] is None else max(L[0], pn)
    b = p0 + 5
    add(b, 2, why="first")
    add(b + 300, 2, why="forward jump")
    for pn in range(b + 100, b + 300):
        add(pn, 2, why="late burst (200 >= 2^7 packets below the largest)")
    for k in range(1, 11):
        add(L[0] + 1, 1, why="in order, 1-byte packet number after the late burst")
    add(L[0] + 1, 1, "altered", "altered copy first")
    add(L[0] + 1, 1, why="genuine after its altered copy")
    add(L[0] + 128, 1, why="upper edge of the 1-byte window")
    add(L[0] - 126, 1, why="lower edge of the 1-byte window (late)")
    add(L[0] - 126, 1, "duplicate", "duplicate")
    add(L[0] + 1, 3, why="3-byte packet number")
    add(L[0] + 1, 4, why="4-byte packet number")
    add(L[0] + 32768, 2, why="upper edge of the 2-byte window")
    add(L[0] - 32766, 2, why="lower edge of the 2-byte window (late)")
    for k in range(5):
        add(L[0] + 1, 1, why="in order, 1-byte, at the end")
    if thorough:
        top = L[0] + 40000
        add(top, 4, why="forward jump")
        for pn in range(top - 33000, top):
            # a conforming sender uses a 2-byte number only inside the window top + 1 - 2^15 < pn (RFC 9000
            # 17.1 / A.2); the oldest packets of the burst lie below it and carry 4 bytes
            add(pn, 2 if pn > top + 1 - 32768 else 4, why="late burst (33000 >= 2^15 packets below the largest)")
        for k in range(5):
            add(L[0] + 1, 2, why="in order, 2-byte packet number after the long late burst (what aioquic's own sender emits)")
    return steps


def run_rfc_sender(ctx, suite, version, seed, thorough):
    """returns number of problems found"""
    from aioquic import tls
    F.memoise_key_loading()
    rfc = F.rfc()
    mon = PnMonitor()
    sc = F.Scenario(suite, version, False, seed)
    sim = sc.make([mon])
    problems = 0
    replay = {"kind": "pn-rfc-sender", "suite": suite, "version": version, "seed": seed, "thorough": thorough,
              "rerun": "./check C02 --replay <this file>"}
    try:
        if not sim.handshake():
            ctx.broken.append({"kind": "broken-correspondence", "correspondence": "pn-rfc-sender", "error": "handshake failed"})
            return 1
        c, s = sim.client, sim.server
        sim.pending.clear()
        pair = c.conn._cryptos[tls.Epoch.ONE_RTT]
        key, iv, hp = rfc.keys(suite, version, pair.send.secret)
        dcid = c.conn._peer_cid.cid
        steps = plan(c.conn._packet_number, thorough)
        items = []
        for pn, n, kind, why in steps:
            hdr = bytes([0x40 | (pair.key_phase << 2) | (n - 1)]) + dcid + (pn % (1 << (8 * n))).to_bytes(n, "big")
            items.append((hdr, b"\x01" + bytes(3), pn))            # PING + PADDING
        packets = lean_protect(rfc, suite, key, iv, hp, items)
        for i, ((pn, n, kind, why), pkt) in enumerate(zip(steps, packets)):
            if kind == "altered":
                pkt = bytearray(pkt)
                pkt[-1] ^= 0x01
                pkt = bytes(pkt)
            d = {"id": -3, "src": c, "dst": s, "data": pkt, "to": s.addr, "from": c.addr, "t": sim.now}
            n_raised = len(s.raised)
            sim.deliver(d)
            sim.pending.clear()
            got = ("ONE_RTT", pn) in mon.accepted_in_call
            if kind == "altered":
                mon.note_dropped(s, "ONE_RTT")
            mon.accepted_in_call = []
            ctx.count(("pn-rfc", suite, version, i, pn, n, kind), True)
            bad = None
            if kind == "genuine" and not got:
                bad = (f"a genuine packet of an RFC 9001 sender (packet number {pn} in {n} byte(s): {why}) is NOT accepted; "
                       f"expected_packet_number was {s.conn._spaces[tls.Epoch.ONE_RTT].expected_packet_number}")
            elif kind != "genuine" and got:
                bad = f"{kind} packet {pn} accepted as new"
            elif len(s.raised) != n_raised or s.terminated:
                bad = f"server raised / closed: {s.raised[n_raised:]} {s.events[-1:]}"
            if bad:
                problems += 1
                ctx.witness(bad, dict(replay, failed_step=i, steps_before=[list(x[:3]) for x in steps[max(0, i - 3):i + 1]],
                                      first_steps=[list(x[:3]) for x in steps[:3]], datagram=pkt.hex()),
                            {"oracle": "pn-rfc-sender", "class": kind, "pn_len": n})
                break
        problems += mon.check(ctx, "pn-rfc", replay)
    finally:
        sim.close_taps()
    return problems


def run_adversarial(ctx, suite, version, seed):
    """organic reordering / duplication / loss between two aioquic endpoints"""
    F.memoise_key_loading()
    mon = PnMonitor()
    sc = F.Scenario(suite, version, False, seed)
    sim = sc.make([mon])
    try:
        sim.connect()
        for _ in range(60):
            if not sim.adversarial_step(p_drop=0.1, p_dup=0.15, p_reorder=0.5):
                break
        sid = 0
        if sim.client.conn._handshake_complete:
            sim.api(sim.client, "send_stream_data", sid, bytes(20000), True)
            sim.transmit(sim.client)
        for _ in range(250):
            if not sim.adversarial_step(p_drop=0.05, p_dup=0.15, p_reorder=0.6):
                break
        return mon.check(ctx, "pn-adversarial", {"kind": "pn-adversarial", "suite": suite, "version": version, "seed": seed})
    finally:
        sim.close_taps()


def section_pn_state(ctx, tier, r):
    thorough = tier == "thorough"
    lt = F.long_types_from_tables()
    v1, v2 = sorted(lt.keys())
    for suite, v in ((4865, v1), (4866, v2), (4867, v1)) + (((4865, v2), (4867, v2)) if thorough else ()):
        run_rfc_sender(ctx, suite, v, 31 + suite, thorough and suite == 4865)
    for k in range(6 if not thorough else 60):
        run_adversarial(ctx, (4865, 4866, 4867)[k % 3], (v1, v2)[k % 2], 1000 + k + 97 * ctx.seed)
    ctx.sample({"pn-state": "independent RFC sender: forward jump, 200 late packets, then 1-byte in-order / window edges / 3-4 byte "
                            "numbers / altered copy / duplicate; expected_packet_number vs AQ.PnSpace after every datagram"})


def replay(path):
    """./check C02 --replay <file> for the witnesses of this section"""
    from harness import core
    rec = json.load(open(path))
    rp = rec.get("replay") or {}
    ctx = core.Ctx("C02", "quick")
    if rp.get("kind") == "pn-rfc-sender":
        n = run_rfc_sender(ctx, rp["suite"], rp["version"], rp["seed"], rp.get("thorough", False))
    elif rp.get("kind") == "pn-adversarial":
        n = run_adversarial(ctx, rp["suite"], rp["version"], rp["seed"])
    else:
        print("replay: witness kind not replayable by checks/c02b_pn.py")
        return 2
    for w in ctx.witnesses[:3]:
        print("REPLAY-WITNESS:", w["what"][:300])
    print(f"replay: {'still failing' if n else 'no longer failing'} ({n} problem(s))")
    return 1 if n else 0
