"""Scenario scripts shared by checks/c06.py and checks/c07.py: a real
QuicConnection E (after a real handshake through harness/sim.py) facing a
puppet peer that holds the peer connection's keys (harness/inject.py), or two
real connections over the adversarial network of harness/sim.py."""
from harness import frames as F
from harness import core, lean
from harness.impl_flow import FlowObserver, PacketLog, Puppet, RecvOracle, SendOracle, fast_certs, limits_of, set_stream_count_limits

BIG = 1 << 40


def EPOCH_ONE_RTT():
    from aioquic import tls
    return tls.Epoch.ONE_RTT


class Cover:
    """byte ranges per stream emitted on the wire (progress oracle)"""

    def __init__(self):
        self.bytes = {}
        self.fin = set()
        self.reset = set()

    def on_auth(self, *a):
        pass

    def bind(self, name):
        self.name = name
        return self

    def on_built(self, name, epoch, pn, frames):
        if name != self.name:
            return
        for f in frames:
            if f["name"] == "STREAM":
                self.bytes.setdefault(f["stream_id"], set()).update(range(f["offset"], f["offset"] + len(f["data"])))
                if f["fin"]:
                    self.fin.add(f["stream_id"])
            elif f["name"] == "RESET_STREAM":
                self.reset.add(f["stream_id"])


def run_puppet(cfg, script, drain=False):
    """cfg: dict(seed, e_is_client, e_opts, p_opts, e_streams, p_streams, quirks)
    script: list of action tuples.  Returns a result dict."""
    pu = Puppet(cfg.get("seed", 0), cfg.get("e_is_client", True), cfg.get("e_opts"), cfg.get("p_opts"),
                cfg.get("e_streams"), cfg.get("p_streams"), cfg.get("quirks", "000"))
    cover = Cover().bind(pu.E.name)
    pu.log.listeners.append(cover)
    written = {}       # sid -> [bytes, fin, reset]
    gone = set()       # streams the endpoint may have discarded (judged from the frames on the wire, not from its state)

    def sweep():
        """after an action (every injected packet and every transmit runs the write loop): a stream whose receive
        half is complete and whose send half may be finished (receive-only stream; FIN / RESET_STREAM written or
        STOP_SENDING received on a bidirectional one) may have been discarded"""
        ro = pu.recv_oracle
        for sid in set(ro.touched) | set(written):
            if ro.recv_done(sid) and (bool(sid & 2) or (sid in written and (written[sid][1] or written[sid][2]))):
                gone.add(sid)
    accepted = []      # (action, expected codes, closed code after)
    recv_problems = []
    bounds_problems = []
    queue_problems = []
    e = pu.E.conn
    unblocked_after_raise = False
    qo = None
    frozen = {}        # sizes of the peer-driven queues when the endpoint decided to close

    def ncid_frame(seq, rpt):
        return F.enc_new_connection_id(seq, rpt, bytes([seq % 256, seq // 256 % 256, seq // 65536 % 256, 7, 7, 7, 7, 7]), bytes(16))

    def quiet(payload):
        """receive_datagram() of an injected packet, no datagrams_to_send() afterwards"""
        from harness import inject as inj
        data = inj.build(pu.sim, pu.P, payload)
        if data is not None:
            d = {"id": -1, "src": pu.P, "dst": pu.E, "data": data, "to": pu.E.addr, "from": pu.P.addr, "t": pu.sim.now,
                 "injected": True}
            pu.sim._emit("on_datagram_delivered", pu.E, d, pu.P.addr)
            pu.sim.api(pu.E, "receive_datagram", data, pu.P.addr, now=pu.sim.now)

    def queue_sizes():
        from aioquic import tls
        return {"pending retirements": len(e._retire_connection_ids), "peer connection ids": len(e._peer_cid_available),
                "path challenges": sum(len(np_.remote_challenges) for np_ in e._network_paths),
                "CRYPTO bytes": sum(len(cs.receiver._buffer) for cs in e._crypto_streams.values()),
                "stream bytes": sum(len(st.receiver._buffer) for st in e._streams.values())}

    def check_queues(act):
        """the documented bounds of the peer-driven state, after every step: pending retirements <= min(4 * limit, 100)
        (+ frames in flight, re-queued on loss, + local change_connection_id() calls) or the connection is closed;
        once the endpoint has decided to close, nothing the peer sends makes this state grow any more"""
        if pu.closed is None:
            lim = e._local_active_connection_id_limit
            if 1 + len(e._peer_cid_available) > lim:
                queue_problems.append(f"{1 + len(e._peer_cid_available)} peer connection ids held > limit {lim} after {act}")
            unacked = set(pu.outstanding)
            inflight = sum(1 for ep_, pn, fr in pu.log.built.get(pu.E.name, []) if pn in unacked and ep_ == "ONE_RTT"
                           for f in fr if f["name"] == "RETIRE_CONNECTION_ID")
            n_change = sum(1 for a in script if a[0] == "change_cid")
            if len(e._retire_connection_ids) > min(4 * lim, 100) + inflight + n_change:
                queue_problems.append(f"{len(e._retire_connection_ids)} retirements pending > {min(4 * lim, 100)} + {inflight} unacknowledged + {n_change} local after {act}, connection not closed")
        else:
            now_ = queue_sizes()
            if not frozen:
                frozen.update(now_)
            for kq, v in now_.items():
                if v > frozen[kq]:
                    queue_problems.append(f"{kq}: {v} > {frozen[kq]} held when the endpoint decided to close (code {pu.closed}); "
                                          f"frames received after the close decision are still queued, after {act}")
                    frozen[kq] = v
    try:
        if not pu.ok:
            return {"pu": pu, "handshake": False}
        if cfg.get("queues"):
            from harness.impl_flow import QueueObserver
            qo = QueueObserver(e)
        for act in script:
            if pu.closed is not None:
                break
            k = act[0]
            n_raised = len(pu.E.raised)
            if k == "send":
                _, sid, n, fin = act
                pu.api("send_stream_data", sid, bytes(n), fin)
                if len(pu.E.raised) == n_raised:
                    w = written.setdefault(sid, [0, False, False])
                    w[0] += n
                    w[1] |= bool(fin)
            elif k == "reset":
                pu.api("reset_stream", act[1], 9)
                if len(pu.E.raised) == n_raised:
                    written.setdefault(act[1], [0, False, False])[2] = True
            elif k == "stop":
                pu.api("stop_stream", act[1], 8)
            elif k == "ping":
                pu.api("send_ping", act[1])
            elif k == "tx":
                pu.tx()
            elif k == "timer":
                t = pu.sim.check_timer(pu.E)
                if t is not None and t - pu.sim.now < 2.0:
                    pu.timer()
            elif k == "adv":
                pu.sim.now += act[1]
            elif k == "md":
                pu.inject(F.enc_max_data(act[1]))
            elif k == "msd":
                pu.inject(F.enc_max_stream_data(act[1], act[2]))
            elif k == "ms":
                blocked_before = len(e._streams_blocked_bidi) + len(e._streams_blocked_uni)
                pu.inject(F.enc_max_streams(act[2], uni=bool(act[1])))
                if len(e._streams_blocked_bidi) + len(e._streams_blocked_uni) < blocked_before:
                    unblocked_after_raise = True
            elif k == "ackall":
                pu.ack(list(pu.outstanding))
            elif k == "ack":
                pu.ack([p for p in act[1] if p in pu.outstanding])
            elif k == "acknewest":
                if pu.outstanding:
                    pu.ack([max(pu.outstanding)])
            elif k == "lose":
                # three more ack-eliciting packets, then acknowledge only the newest:
                # everything at least 3 older is declared lost (packet threshold)
                for i in range(3):
                    pu.api("send_ping", 1000 + i)
                    pu.tx()
                if pu.outstanding:
                    pu.ack([max(pu.outstanding)])
            elif k in ("pstream", "preset", "psdb", "pss", "pmd", "pmulti"):
                # one packet with one or several frames that name a stream id; the oracle
                # classifies them in order, the first violating frame decides the expectation
                ro = pu.recv_oracle
                payload = b""
                exp = set()
                unspecified = may_ignore = False
                for sub in (act[1] if k == "pmulti" else [act]):
                    sid = sub[1]
                    if sub[0] == "pstream":
                        _, sid, off, n, fin = sub
                        payload += F.enc_stream(sid, off, bytes(n), fin)
                    elif sub[0] == "preset":
                        payload += F.enc_reset_stream(sid, 3, sub[2])
                    elif sub[0] == "psdb":
                        payload += b"\x15" + F.put_varint(sid) + F.put_varint(sub[2] if len(sub) > 2 else 0)
                    elif sub[0] == "pss":
                        payload += F.enc_stop_sending(sid, 4)
                    else:
                        payload += F.enc_max_stream_data(sid, sub[2])
                    if exp or unspecified:
                        continue
                    # The oracle decides by itself whether the endpoint may have DISCARDED the stream (`gone`:
                    # receive half complete by FIN / RESET_STREAM, send half possibly finished, and a write loop
                    # ran since): only then may the frame be ignored.  Until then every limit and the final-size
                    # rule stay in force, also on a stream whose receive half is complete.
                    done = sid in gone
                    e_opened = sid in written
                    if sub[0] == "pstream":
                        x = ro.expect("stream", sid, off, n, fin, e_opened=e_opened)
                    elif sub[0] == "preset":
                        x = ro.expect("reset", sid, final_size=sub[2], e_opened=e_opened)
                    else:
                        x = ro.expect_id({"psdb": "sdb", "pss": "stop", "pmd": "msd"}[sub[0]], sid, e_opened=e_opened)
                    if done:
                        if x and k == "pmulti":
                            unspecified = True     # ignored or judged, and the later frames depend on which
                        elif x:
                            exp, may_ignore = x, True      # ignored (stream discarded) or judged with a matching code
                        continue
                    exp = x
                    if sub[0] == "pss" and not x and sid in written:
                        written[sid][2] = True     # STOP_SENDING resets the sending part
                pu.inject(payload)
                got = pu.closed
                accepted.append((act, sorted(exp), got))
                if unspecified or (may_ignore and got is None):
                    pass
                elif exp and got not in exp:
                    recv_problems.append(f"{act}: beyond advertised limits / not allowed (matching codes {sorted(exp)}) but connection close code is {got}")
                elif not exp and got is not None:
                    recv_problems.append(f"{act}: within every advertised limit but connection closed with {got}")
            elif k == "pstop":
                pu.inject(F.enc_stop_sending(act[1], 4))
                if act[1] in written and pu.closed is None:
                    written[act[1]][2] = True     # STOP_SENDING resets the sending part
            elif k == "raw":
                pu.inject(act[1])
            elif k == "crypto":
                _, off, n = act
                start = e._crypto_streams[EPOCH_ONE_RTT()].receiver.starting_offset()
                exp = None
                if off + n > (1 << 62) - 1:
                    exp = 7
                elif off + n - start > 524288:
                    exp = 13
                if off == start and n > 0 and exp is None:
                    continue       # would hand bytes to TLS: not part of these histories
                pu.inject(F.enc_crypto(off, bytes(n)))
                if pu.closed != exp:
                    queue_problems.append(f"{act}: expected close code {exp}, got {pu.closed}")
            elif k == "chal":
                pu.inject(b"".join(F.enc_path_challenge(bytes([i % 256]) * 8) for i in range(act[1])))
            elif k == "ncid":
                _, seq, rpt = act
                pu.inject(ncid_frame(seq, rpt))
            elif k == "ncids":
                # several NEW_CONNECTION_ID frames in ONE packet (the endpoint cannot transmit in between)
                pu.inject(b"".join(ncid_frame(seq, rpt) for seq, rpt in act[1]))
            elif k == "quiet":
                # a burst of datagrams (one frame each: ("ncid", seq, rpt) / ("chal", n) / ("crypto", off, len)) handed to
                # receive_datagram() WITHOUT datagrams_to_send() in between; the bounds are checked after every datagram
                for sub in act[1]:
                    if sub[0] == "ncid":
                        quiet(ncid_frame(sub[1], sub[2]))
                    elif sub[0] == "chal":
                        quiet(b"".join(F.enc_path_challenge(bytes([i % 256, sub[1] % 256]) * 4) for i in range(sub[1])))
                    else:
                        quiet(F.enc_crypto(sub[1], bytes(sub[2])))
                    check_queues(("quiet", sub))
            elif k == "change_cid":
                pu.api("change_connection_id")
            elif k == "fill":
                # fill E's congestion window: frames that count as in flight can no longer be written
                sid = 0 if pu.E.is_client else 1
                pu.api("send_stream_data", sid, bytes(60000), False)
                written.setdefault(sid, [0, False, False])[0] += 60000
                for _ in range(40):
                    if pu.tx() == 0:
                        pu.sim.now += 0.01
                    if e._loss.bytes_in_flight >= e._loss.congestion_window:
                        break
            else:
                raise ValueError(act)
            sweep()
            # measured bounds (C07): reassembly bytes against advertised limits
            ro = pu.recv_oracle
            tot = 0
            for st in e._streams.values():
                bl = len(st.receiver._buffer)
                tot += bl
                if bl > ro.stream_limit(st.stream_id):
                    bounds_problems.append(f"stream {st.stream_id} holds {bl} bytes > advertised stream limit {ro.stream_limit(st.stream_id)} after {act}")
            if tot > ro.max_data:
                bounds_problems.append(f"{tot} bytes held for reassembly > advertised connection limit {ro.max_data} after {act}")
            # measured peer-driven queues against the documented bounds
            for ep_, cs in e._crypto_streams.items():
                if len(cs.receiver._buffer) > 524288:
                    queue_problems.append(f"{len(cs.receiver._buffer)} CRYPTO bytes buffered in epoch {ep_.name} after {act}")
            for np_ in e._network_paths:
                if len(np_.remote_challenges) > 32:
                    queue_problems.append(f"{len(np_.remote_challenges)} path challenges queued after {act}")
            check_queues(act)
        progress = []
        if drain and pu.closed is None:
            # raise the data limits, then the stream-count limits ONE STEP AT A TIME; after each
            # step (no loss, every packet acknowledged) all data of the streams the limit in
            # force allows must have been emitted
            so = pu.send_oracle

            def rounds():
                for _ in range(60):
                    if pu.closed is not None:
                        break
                    pu.tx()
                    pu.ack(list(pu.outstanding))
                    pu.sim.now += 0.02
                    t = pu.sim.check_timer(pu.E)
                    if t is not None and t <= pu.sim.now:
                        pu.timer()
                    if all((st.sender.buffer_is_empty and not st.sender.reset_pending) or st.is_blocked for st in e._streams.values()) and not pu.outstanding:
                        break

            def allowed(sid):
                return not so.local(sid) or sid // 4 < so.max_streams[bool(sid & 2)]

            pu.inject(F.enc_max_data(BIG))
            steps = [None]
            for uni in (False, True):
                idx = sorted({sid // 4 + 1 for sid in written if so.local(sid) and bool(sid & 2) == uni
                              and sid // 4 + 1 > so.max_streams[uni]})
                steps += [(uni, n) for n in idx]
            for step in steps:
                if pu.closed is not None:
                    break
                if step is not None:
                    pu.inject(F.enc_max_streams(step[1], uni=step[0]))
                for sid in list(written):
                    if sid in e._streams and pu.closed is None and e._stream_can_send(sid) and allowed(sid):
                        pu.inject(F.enc_max_stream_data(sid, BIG))
                rounds()
                if pu.closed is not None:
                    break
                for sid, (n, fin, rst) in written.items():
                    if sid in e._streams_finished and sid not in e._streams:
                        continue
                    if not allowed(sid):
                        continue
                    if rst:
                        if sid not in cover.reset:
                            progress.append(f"stream {sid} was reset but no RESET_STREAM was emitted although the limits in force allow it (after {step})")
                        continue
                    miss = set(range(n)) - cover.bytes.get(sid, set())
                    if miss:
                        progress.append(f"stream {sid}: {len(miss)} of {n} written bytes not emitted although the limits in force allow them (after {step}; first {min(miss)})")
                    if fin and sid not in cover.fin:
                        progress.append(f"stream {sid}: FIN not emitted although the limits in force allow it (after {step})")
                if progress:
                    break
        return {"pu": pu, "handshake": True, "written": written, "accepted": accepted,
                "recv_problems": recv_problems, "bounds_problems": bounds_problems, "progress": progress,
                "queue_problems": queue_problems, "qo": qo,
                "unblocked": unblocked_after_raise, "cover": cover}
    finally:
        pu.finish()


def note_hyp(ctx, obs):
    """the delivery-report hypothesis of the C06 theorems (GWFRun), validated on the real trace"""
    ctx.notes["delivery_reports_checked"] = ctx.notes.get("delivery_reports_checked", 0) + obs.reports_checked
    for v in obs.hyp_violations[:1]:
        ctx.broken.append({"kind": "broken-assumption", "assumption": "delivery reports name outstanding frames", "detail": v})


def ledger_problems(outs):
    """credit neither double counted nor leaked: on every state line of the
    implementation `used == gs + sum(sh)`"""
    probs = []
    for i, line in enumerate(outs):
        head, _, st = line.partition(" | ")
        conn, _, streams = st.partition(" |")
        kv = core.parse_kv(conn)
        if "used" not in kv:
            continue
        tot = int(kv["gs"])
        for tok in streams.split():
            for part in tok.split(":"):
                if part.startswith("sh"):
                    tot += int(part[2:])
        if tot != int(kv["used"]):
            probs.append(f"line {i}: _remote_max_data_used={kv['used']} but sum of highest offsets sent={tot}")
            break
    return probs


def diff_cases(ctx, name, cases, impl_outs):
    """replay all op lines on the compiled model and diff per case"""
    flat = [l for c in cases for l in c]
    model = lean.run_driver(flat) if flat else []
    mism = core.diff_streams(ctx, name, cases, [l for o in impl_outs for l in o], model)
    for m in mism[:3]:
        if m[0] >= 0:
            ci, oi, il, ml = m
            ctx.disagreement(name, cases[ci][: oi + 1], ml, il, oi)
    # the inputs of the disagreeing cases: judged first by the failing-input search
    inputs = getattr(ctx, "flow_inputs", {})
    for m in mism:
        if m[0] >= 0 and id(cases[m[0]]) in inputs:
            ctx.__dict__.setdefault("disagreeing_inputs", []).append(inputs[id(cases[m[0]])])
    ctx.cov["traces_validated_against_impl"] += len(cases)
    return len(mism)
