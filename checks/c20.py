"""C20 — logging is observationally transparent.

Proof side (Lean): AQ.Props.C20 — a generic noninterference theorem over the
log IR (AQ.Model.LogIR), instantiated with the program that tools/extract_log.py
regenerates from the four source files on every run (AQ.Gen.LogProgram), plus
encoder totality, JSON-typedness and one-record-per-packet path theorems on the
extracted terms.

Correspondence / oracle side (this file): PAIRED RUNS.  Every scenario is
executed with identical PRNG seeds with logging off and with logging on (qlog,
secrets log, both, QuicFileLogger); the observations (harness/paired.py) must
be equal; any exception of the ON run that the OFF run does not have is a
witness; then the qlog document must serialise as strict JSON and hold exactly
one packet_sent / packet_received record per packet built / accepted.
"""
import json
import os
import re
import shutil

from harness import core, rng, tree

VALS = [0, 1, 63, 64, 16383, 16384, (1 << 30) - 1, 1 << 30, (1 << 62) - 1]
ODD_REASONS = ["", "bye", "café", "a\x00b", "\U0001f600" * 3, "x" * 200, "x" * 3000, "bad\udcff", " {\"", "\\"]
EXTRA_HEADERS = [
    (b"x-a", b"\xff"), (b"x-\xff", b"v"), (b"x-utf", "café".encode()), (b"x-latin", "café".encode("latin1")),
    (b"x-trunc", b"\xe2\x82"), (b"x-sur", b"\xed\xa0\x80"), (b"", b""), (b"x-nul", b"a\x00b"), (b"X-Upper", b"v"),
    (b"x-long", b"a" * 5000), (b"x-ws", b" v "), (b"content-length", b"3"), (b"content-length", b"-1"),
    (b"content-length", b"abc"), (b"x-ok", b"fine"), (b"x-bin", bytes(range(0x80, 0x90))), (b":late", b"x"),
    (b"x-quote", b"\"\\"), (b"transfer-encoding", b"chunked"),
]


# --------------------------------------------------------------------------
# scenario helpers
# --------------------------------------------------------------------------
def _writes(run, n, *, p_op=0.3, net=None):
    """PRNG script of API calls interleaved with adversarial network steps"""
    s, r = run.sim, run.r
    net = net or {}
    for _ in range(n):
        if r.random() < p_op:
            ep = r.choice(s.endpoints)
            x = r.random()
            sid = r.choice([0, 4, 2, 6] if ep.is_client else [1, 5, 3, 0])
            if x < 0.55:
                data = bytes(r.randrange(256) for _ in range(r.choice([0, 1, 10, 1000, 5000])))
                s.api(ep, "send_stream_data", sid, data, end_stream=r.random() < 0.2)
            elif x < 0.62:
                s.api(ep, "reset_stream", sid, r.choice(VALS))
            elif x < 0.69:
                s.api(ep, "stop_sending", r.choice([0, 1, 4, 5, 2, 3]), r.choice(VALS))
            elif x < 0.77:
                s.api(ep, "send_datagram_frame", bytes(r.randrange(256) for _ in range(r.choice([0, 1, 100, 1100, 2000]))))
            elif x < 0.84:
                s.api(ep, "send_ping", r.randrange(1 << 16))
            elif x < 0.90:
                s.api(ep, "request_key_update")
            elif x < 0.96:
                s.api(ep, "change_connection_id")
            else:
                s.api(ep, "get_next_available_stream_id", r.random() < 0.5)
            s.transmit(ep)
        else:
            s.adversarial_step(**net)


def _finish(run, close=True):
    """odd close reason, then run both endpoints to termination (end_trace)"""
    s, r = run.sim, run.r
    s.fair_phase(max_steps=150)
    if close:
        ep = r.choice(s.endpoints)
        kw = {"error_code": r.choice(VALS), "reason_phrase": r.choice(ODD_REASONS)}
        if r.random() < 0.5:
            kw["frame_type"] = r.choice([None, 0, 6, 0x1E, 0x7FFF])
        s.api(ep, "close", **kw)
        s.transmit(ep)
    s.max_timer_jump = 1e9
    s.fair_phase(max_steps=120)


NETS = {
    "benign": dict(p_drop=0.0, p_dup=0.0, p_reorder=0.0, p_timer=0.05),
    "lossy": dict(p_drop=0.3, p_dup=0.0, p_reorder=0.3),
    "dup": dict(p_drop=0.05, p_dup=0.4, p_reorder=0.4),
    "rebind": dict(p_drop=0.1, p_dup=0.1, p_reorder=0.3, p_rebind=0.15),
}


def scn_net(run):
    s, r = run.sim, run.r
    net = NETS[run.opts["net"]]
    if run.opts.get("hs_adversarial"):
        s.connect()
        for _ in range(40):
            s.adversarial_step(**net)
        s.fair_phase(max_steps=200, done=lambda: s.client.conn._handshake_confirmed
                     and s.server.conn._handshake_confirmed and not s.pending)
    elif not s.handshake():
        return
    _writes(run, r.choice([40, 120]), net=net)
    _finish(run)


def scn_retry_vn(run):
    from aioquic.quic.packet import encode_quic_retry, encode_quic_version_negotiation
    s, r = run.sim, run.r
    variant = run.opts["variant"]
    c = s.client.conn
    s.connect()

    def retry(good=True, dcid=None):
        pkt = encode_quic_retry(version=c._version, source_cid=bytes(r.randrange(256) for _ in range(8)),
                                destination_cid=dcid or c.host_cid,
                                original_destination_cid=c._peer_cid.cid if good else bytes(8),
                                retry_token=bytes(r.randrange(256) for _ in range(r.choice([1, 16, 200]))))
        if good:
            run.rec.extra_received["client"] += 1 if not c._retry_count and (dcid or c.host_cid) == c.host_cid else 0
            run.rec.attempt["client"] += 1
        s.api(s.client, "receive_datagram", pkt, s.server.addr, now=s.now)
        s.transmit(s.client)

    def vn(versions):
        accepted = c._state.name == "FIRSTFLIGHT" and not c._version_negotiated_incompatible
        pkt = encode_quic_version_negotiation(source_cid=c._peer_cid.cid, destination_cid=c.host_cid,
                                              supported_versions=versions)
        if accepted:
            run.rec.extra_received["client"] += 1
            run.rec.attempt["client"] += 1
        s.api(s.client, "receive_datagram", pkt, s.server.addr, now=s.now)
        s.transmit(s.client)

    if variant == "retry":
        s.pending.clear()
        retry(good=False)
        retry(good=True)
        retry(good=True)          # second Retry: dropped
        s.pending.clear()
    elif variant == "vn":
        s.pending.clear()
        vn([c._version, 1])       # contains the original version: ignored after the record
        vn([1] if c._version != 1 else [0x6B3343CF])
        vn([1])
        s.pending.clear()
    elif variant == "vn-none":
        s.pending.clear()
        vn([0x1A2A3A4A])          # no common version: _close_end() inside receive_datagram
        vn([1])
    elif variant == "late":
        s.handshake_done = s.fair_phase(max_steps=200, done=lambda: c._handshake_confirmed and not s.pending)
        vn([1])
        retry(good=True)
        retry(good=False, dcid=bytes(8))
    for _ in range(4):
        s.fire_timer(s.client)
    _finish(run, close=variant != "vn-none")


def hostile_catalogue(r, ep_is_client):
    """one hostile 1-RTT payload: every frame type with boundary values,
    truncated frames, unknown frame types (written from RFC 9000 §19)"""
    from harness import frames as F
    v = lambda: r.choice(VALS)                                           # noqa: E731
    sid = lambda: r.choice([0, 1, 2, 3, 4, 5, 8, 400, 401, 402, 403, (1 << 62) - 1])   # noqa: E731
    rb = lambda n: bytes(r.randrange(256) for _ in range(n))              # noqa: E731
    pv = F.put_varint
    makers = [
        lambda: b"\x00" * r.choice([1, 5]),
        lambda: b"\x01",
        lambda: F.enc_ack([(0, r.choice([0, 3, 50]))], delay=v()),
        lambda: F.enc_ack([(0, 1), (3, 4), (r.choice([6, 1000]), r.choice([1000, 5000]))], delay=v()),
        lambda: b"\x02" + pv(v()) + pv(v()) + pv(r.choice([0, 1, 300])) + pv(v()),            # raw ACK, odd ranges
        lambda: b"\x03" + pv(5) + pv(v()) + pv(0) + pv(0) + pv(v()) + pv(v()) + pv(v()),          # ACK_ECN
        lambda: F.enc_reset_stream(sid(), v(), v()),
        lambda: F.enc_stop_sending(sid(), v()),
        lambda: F.enc_crypto(v(), rb(r.choice([0, 1, 50]))),
        lambda: b"\x07" + pv(r.choice([0, 1, 30])) + rb(30),                                       # NEW_TOKEN
        lambda: F.enc_stream(sid(), r.choice([0, 1, 5000, (1 << 62) - 1]), rb(r.choice([0, 1, 100])),
                             fin=r.random() < 0.5, with_len=r.random() < 0.5),
        lambda: F.enc_max_data(v()),
        lambda: F.enc_max_stream_data(sid(), v()),
        lambda: F.enc_max_streams(r.choice(VALS + [1 << 60, (1 << 60) + 1]), uni=r.random() < 0.5),
        lambda: b"\x14" + pv(v()),
        lambda: b"\x15" + pv(sid()) + pv(v()),
        lambda: r.choice([b"\x16", b"\x17"]) + pv(r.choice(VALS + [1 << 60, (1 << 60) + 1])),
        lambda: F.enc_new_connection_id(r.choice([0, 1, 2, 3, 9, 1 << 40]), r.choice([0, 1, 2, 3, 10]),
                                        rb(r.choice([0, 1, 8, 20, 21])), rb(16)),
        lambda: F.enc_retire_connection_id(r.choice([0, 1, 2, 7, 8, 9, 1 << 40])),
        lambda: F.enc_path_challenge(rb(8)),
        lambda: F.enc_path_response(rb(8)),
        lambda: F.enc_close(v(), frame_type=v(), reason=r.choice([b"", b"x", b"\xff\xfe", b"y" * 300])),
        lambda: F.enc_close(v(), reason=r.choice([b"", b"\xc3", "café".encode()]), app=True),
        lambda: b"\x1e",
        lambda: b"\x30" + rb(r.choice([0, 1, 100, 1300])),
        lambda: b"\x31" + pv(r.choice([0, 1, 100])) + rb(100),
        lambda: pv(r.choice([0x1F, 0x20, 0x2F, 0x32, 0x3F, 0x40, 0x21, 0x4000, (1 << 62) - 1]), r.choice([0, 2, 8])),
        lambda: pv(0x01, 2),                                                                       # non-minimal type
    ]
    p = r.choice(makers)()
    x = r.random()
    if x < 0.25 and len(p) > 1:
        p = p[: r.randrange(1, len(p))]                 # truncated
    elif x < 0.4:
        p = p + r.choice(makers)()                      # two frames
    return p


def _inject(run, src, payload, **kw):
    from harness import inject
    run.rec.suspend = True
    try:
        data = inject.build(run.sim, src, payload, **kw)
    except Exception as e:  # noqa  (a payload the builder itself cannot wrap)
        run.rec._add("inject-failed", [type(e).__name__])
        data = None
    finally:
        run.rec.suspend = False
    if data is None:
        return False
    s = run.sim
    s.deliver({"id": -1, "src": src, "dst": src.peer, "data": data, "to": src.peer.addr, "from": src.addr,
               "t": s.now, "injected": True})
    return True


def scn_hostile(run):
    s, r = run.sim, run.r
    phase = run.opts["phase"]
    if phase == "connected":
        if not s.handshake():
            return
        _writes(run, 10, net=NETS["benign"])
    else:
        s.connect()
        for _ in range(r.choice([1, 2, 3])):
            if s.pending:
                s.deliver(s.pending.pop(0))
    for _ in range(r.choice([1, 3, 8])):
        src = r.choice(s.endpoints)
        if src.peer.terminated:
            break
        epoch = "ONE_RTT" if phase == "connected" else r.choice(["INITIAL", "HANDSHAKE", "ONE_RTT"])
        kw = {}
        if r.random() < 0.1:
            kw["pn"] = r.choice([0, 1, src.conn._packet_number + 1000])
        if run.opts.get("reserved") and r.random() < 0.5:
            from aioquic.quic import packet_builder as pb
            orig = pb.PACKET_FIXED_BIT
            pb.PACKET_FIXED_BIT = orig | r.choice([0x08, 0x10, 0x18])
            try:
                _inject(run, src, b"\x01", epoch="ONE_RTT", **kw)
            finally:
                pb.PACKET_FIXED_BIT = orig
            continue
        try:
            ok = _inject(run, src, hostile_catalogue(r, src.is_client), epoch=epoch, **kw)
        except KeyError:
            ok = False
        if r.random() < 0.3:
            _writes(run, 3, net=NETS["benign"])
    _finish(run, close=r.random() < 0.5)


def _garbage(run, ep):
    """one garbage datagram for `ep` (written from RFC 9000 §17 header layouts)"""
    s, r = run.sim, run.r
    rb = lambda n: bytes(r.randrange(256) for _ in range(n))              # noqa: E731
    real = [d["data"] for d in s.pending if d["dst"] is ep] or [rb(1200)]
    base = r.choice(real)
    cid = ep.conn.host_cid
    kinds = [
        lambda: b"",
        lambda: rb(r.choice([1, 5, 20, 1200])),
        lambda: base[: r.randrange(1, len(base))],
        lambda: bytes(b ^ (1 << r.randrange(8)) if i == j else b for j in [r.randrange(len(base))] for i, b in enumerate(base)),
        lambda: base + rb(r.choice([1, 30])),
        lambda: base + base,
        lambda: bytes([0xC0 | r.randrange(64)]) + r.choice([b"\x00\x00\x00\x01", b"\x1a\x2a\x3a\x4a", b"\x00\x00\x00\x00", b"\x6b\x33\x43\xcf"])
        + bytes([len(cid)]) + cid + bytes([8]) + rb(8) + rb(r.choice([0, 3, 40, 1200])),
        lambda: bytes([0x40 | r.randrange(64)]) + cid + rb(r.choice([0, 3, 20, 40])),
        lambda: bytes([0x40 | r.randrange(64)]) + rb(8) + rb(30),
        lambda: bytes([r.randrange(0x40)]) + rb(30),                         # fixed bit clear
        lambda: bytes([0xF0]) + b"\x00\x00\x00\x01" + bytes([len(cid)]) + cid + bytes([8]) + rb(8) + rb(r.choice([0, 15, 16, 40])),  # Retry-shaped
        lambda: bytes([0xE0]) + b"\x00\x00\x00\x01" + bytes([len(cid)]) + cid + bytes([8]) + rb(8) + b"\x40\x30" + rb(48),          # Handshake-shaped
        lambda: bytes([0xC0]) + b"\x00\x00\x00\x01" + bytes([21]) + rb(21) + bytes([0]),                                             # CID too long
    ]
    data = r.choice(kinds)()
    s.api(ep, "receive_datagram", data, ep.peer.addr if r.random() < 0.8 else ("9.9.9.9", 9), now=s.now)
    s.transmit(ep)


def scn_garbage(run):
    s, r = run.sim, run.r
    state = run.opts["state"]
    eps = s.endpoints

    def burst():
        for _ in range(r.choice([1, 3, 6])):
            _garbage(run, r.choice(eps))

    if state == "fresh-server":
        _garbage(run, s.server)
        burst_eps = [s.server]
        for _ in range(3):
            _garbage(run, r.choice(burst_eps))
        s.connect()
    elif state == "firstflight":
        s.connect()
        burst()
    elif state == "handshake":
        s.connect()
        for _ in range(r.choice([1, 2, 3])):
            if s.pending:
                s.deliver(s.pending.pop(0))
        burst()
    elif state == "connected":
        s.handshake()
        burst()
    elif state == "closing":
        s.handshake()
        s.api(s.client, "close", error_code=3, reason_phrase="going")
        burst()                 # client: close pending; server: connected
        s.transmit(s.client)
        burst()                 # client: CLOSING
        s.fair_phase(max_steps=5)
        burst()                 # server: DRAINING
    elif state == "terminated":
        s.handshake()
        s.api(s.client, "close")
        s.transmit(s.client)
        s.max_timer_jump = 1e9
        s.fair_phase(max_steps=60)
        burst()
    s.fair_phase(max_steps=100)
    burst()
    _finish(run, close=state not in ("closing", "terminated"))


def scn_h3(run):
    s, r = run.sim, run.r
    if not s.handshake():
        return
    run.enable_h3()
    h3 = run.h3
    net = NETS[run.opts["net"]]
    for ep in s.endpoints:
        s.transmit(ep)
    s.fair_phase(max_steps=40, done=lambda: not s.pending)
    cl, sv = s.client, s.server
    open_req = []
    answered = set()
    pushes = []

    def hdrs(base):
        out = list(base)
        for _ in range(r.choice([0, 0, 1, 2])):
            h = r.choice(EXTRA_HEADERS if run.opts.get("odd", True) else [(b"x-ok", b"fine")])
            out.insert(r.randrange(len(out) + 1) if r.random() < 0.2 else len(out), h)
        return out

    req = [(b":method", b"GET"), (b":scheme", b"https"), (b":authority", b"localhost"), (b":path", b"/")]
    rsp = [(b":status", b"200")]
    for _ in range(r.choice([15, 40])):
        x = r.random()
        if x < 0.2:
            sid = cl.conn.get_next_available_stream_id()
            h3.call(cl, "send_headers", sid, hdrs(req), end_stream=r.random() < 0.4)
            open_req.append(sid)
            s.transmit(cl)
        elif x < 0.3 and open_req:
            sid = r.choice(open_req)
            h3.call(cl, "send_data", sid, bytes(r.randrange(256) for _ in range(r.choice([0, 1, 2000]))), r.random() < 0.5)
            s.transmit(cl)
        elif x < 0.5:
            got = [e.stream_id for e in h3.events["server"] if type(e).__name__ == "HeadersReceived"]
            cand = [i for i in got if i not in answered] or open_req
            if cand:
                sid = r.choice(cand)
                answered.add(sid)
                if r.random() < 0.4:
                    p = h3.call(sv, "send_push_promise", sid, hdrs(req))
                    if p is not None:
                        pushes.append(p)
                h3.call(sv, "send_headers", sid, hdrs(rsp), end_stream=r.random() < 0.3)
                if r.random() < 0.6:
                    h3.call(sv, "send_data", sid, b"body" * r.choice([0, 1, 500]), r.random() < 0.5)
                if r.random() < 0.3:
                    h3.call(sv, "send_headers", sid, hdrs([(b"x-trailer", b"t")]), end_stream=True)
                s.transmit(sv)
        elif x < 0.58 and pushes:
            p = r.choice(pushes)
            h3.call(sv, "send_headers", p, hdrs(rsp), end_stream=r.random() < 0.5)
            s.transmit(sv)
        elif x < 0.63:
            ep = r.choice(s.endpoints)
            h3.call(ep, "send_datagram", r.choice([0, 4, 1, 3]), b"dg")
            s.transmit(ep)
        elif x < 0.68 and run.opts.get("webtransport"):
            ep = r.choice(s.endpoints)
            h3.call(ep, "create_webtransport_stream", r.choice([0, 4]), is_unidirectional=r.random() < 0.5)
            s.transmit(ep)
        elif x < 0.73:
            # raw bytes on a request stream: HTTP/3 frames the peer must parse (incl. malformed)
            sid = cl.conn.get_next_available_stream_id()
            raw = r.choice([b"\x00\x03abc", b"\x01\x02\xff\xff", b"\x05\x01\x00", b"\x21\x00", b"\x01\x40", b"\x41\x00\x00\x01x"])
            s.api(cl, "send_stream_data", sid, raw, end_stream=r.random() < 0.5)
            s.transmit(cl)
        else:
            s.adversarial_step(**net)
    _finish(run)


# ---- crafted transport parameters (RFC 9000 section 18: id varint, length varint, value) ----
def tp_split(b):
    from harness import frames as F
    out, i = [], 0
    while i < len(b):
        pid, i = F.get_varint(b, i)
        ln, i = F.get_varint(b, i)
        out.append([pid, bytes(b[i:i + ln])])
        i += ln
    return out


def tp_join(ps):
    from harness import frames as F
    return b"".join(F.put_varint(pid) + F.put_varint(len(v)) + v for pid, v in ps)


def tp_set(ps, pid, val):
    ps = [p for p in ps if p[0] != pid]
    return ps + [[pid, val]]


def tp_preferred_address(r, v4=True, v6=True, cid_len=8):
    """preferred_address value (RFC 9000 section 18.2): IPv4, port, IPv6, port, CID length, CID, reset token"""
    rb = lambda n: bytes(r.randrange(1, 256) for _ in range(n))           # noqa: E731
    return ((rb(4) + rb(2)) if v4 else bytes(6)) + ((rb(16) + rb(2)) if v6 else bytes(18)) \
        + bytes([cid_len]) + rb(cid_len) + rb(16)


def tp_craft(r, variant, ps, is_client):
    """crafted parameter list announced by the peer, from its genuine list `ps`"""
    from harness import frames as F
    pv = F.put_varint
    rb = lambda n: bytes(r.randrange(256) for _ in range(n))              # noqa: E731
    vi = dict((p[0], p[1]) for p in ps).get(0x11, b"")
    if variant == "all-optional":
        # every optional parameter a peer of this role may send, each present
        ps = tp_set(ps, 0x03, pv(r.choice([1200, 1472, 65527])))
        ps = tp_set(ps, 0x0A, pv(r.choice([0, 3, 20])))
        ps = tp_set(ps, 0x0B, pv(r.choice([0, 25, 16383])))
        ps = tp_set(ps, 0x0C, b"")
        ps = tp_set(ps, 0x0E, pv(r.choice([2, 8, 1000])))
        ps = tp_set(ps, 0x20, pv(r.choice([0, 1200, 65535])))
        ps = tp_set(ps, 0x0C37, rb(r.choice([1, 200, 600])))
        if vi:
            ps = tp_set(ps, 0x11, vi + b"".join(rb(4) for _ in range(r.choice([1, 8, 40]))))
        for k in range(3):
            ps = tp_set(ps, 31 * r.randrange(1, 1 << 20) + 27, rb(r.choice([0, 1, 30])))    # reserved (grease) ids
        if not is_client:
            ps = tp_set(ps, 0x02, rb(16))
            ps = tp_set(ps, 0x0D, tp_preferred_address(r, cid_len=r.choice([1, 8, 20])))
    elif variant == "preferred":
        ps = tp_set(ps, 0x0D, tp_preferred_address(r, v4=r.random() < 0.7, v6=r.random() < 0.7, cid_len=r.choice([1, 8, 20])))
    elif variant == "server-only-from-client":
        pid, val = r.choice([(0x00, rb(8)), (0x0D, tp_preferred_address(r)), (0x10, rb(8)), (0x02, rb(16))])
        ps = tp_set(ps, pid, val)
    elif variant == "versions":
        if vi:
            ps = tp_set(ps, 0x11, vi + b"".join(rb(4) for _ in range(r.choice([50, 200]))))
    elif variant == "unknown":
        for pid in (0x12, 0x1F, 0x21, 0x3F, 0x40, 16383, 1 << 30, (1 << 62) - 1):
            if r.random() < 0.5:
                ps = tp_set(ps, pid, rb(r.choice([0, 3, 100])))
    elif variant == "big":
        big = pv((1 << 62) - 1)
        for pid in (0x01, 0x04, 0x05, 0x06, 0x07, 0x0E, 0x20):
            if r.random() < 0.6:
                ps = tp_set(ps, pid, big)
        ps = tp_set(ps, 0x0C37, rb(r.choice([600, 1000])))
    elif variant == "malformed":
        pid = r.choice([0x0D, 0x11, 0x02, 0x0C, 0x01])
        ps = tp_set(ps, pid, rb(r.choice([0, 1, 3, 17, 40])))
    return ps


def scn_tp(run):
    """the peer of `victim` announces crafted transport parameters (its own
    `_serialize_transport_parameters` output is rewritten by the harness)"""
    s, r = run.sim, run.r
    victim = s.client if run.opts["victim"] == "client" else s.server
    peer = victim.peer
    orig = peer.conn._serialize_transport_parameters
    variant = run.opts["variant"]

    def wrapped():
        b = orig()
        try:
            return tp_join(tp_craft(random_for(run), variant, tp_split(b), peer.is_client))
        except Exception:  # noqa  (genuine bytes not parseable: leave them)
            return b

    peer.conn._serialize_transport_parameters = wrapped
    s.connect()
    s.fair_phase(max_steps=60, done=lambda: (s.client.conn._handshake_confirmed and s.server.conn._handshake_confirmed
                                             and not s.pending) or any(ep.conn._close_event is not None for ep in s.endpoints))
    if all(ep.conn._close_event is None for ep in s.endpoints):
        _writes(run, r.choice([5, 20]), net=NETS["benign"])
    _finish(run, close=r.random() < 0.7)


def random_for(run):
    """PRNG for the crafted parameters: a function of the seed only, so that both
    runs of a pair (and repeated serialisations) announce the same bytes"""
    import random
    return random.Random(f"tp/{run.seed}")


# ---- QPACK-blocked streams: genuine peer bytes, encoder stream delivered late ----
def _h3_generate(r, victim_is_client, odd):
    """A real H3Connection pair on capture-only QUIC stubs plays an exchange in
    which header fields repeat (ls-qpack moves a repeated field to the dynamic
    table, so later header blocks reference entries announced on the encoder
    stream).  Returns (chunks sent by the victim's peer, its encoder stream id,
    the API calls the victim's generator twin made)."""
    from aioquic.h3.connection import H3Connection
    from aioquic.quic.events import StreamDataReceived
    from harness.paired import GenQuic
    gc, gs = GenQuic(True), GenQuic(False)
    hc, hs = H3Connection(gc), H3Connection(gs)
    done = {id(gc): 0, id(gs): 0}

    def pump():
        for src, dst in ((gc, hs), (gs, hc)):
            while done[id(src)] < len(src.chunks):
                sid, data, fin = src.chunks[done[id(src)]]
                done[id(src)] += 1
                try:
                    dst.handle_event(StreamDataReceived(data=data, end_stream=fin, stream_id=sid))
                except Exception:  # noqa  (generator side only; the victim is what is observed)
                    pass
    pump()
    pump()
    extra = [r.choice(EXTRA_HEADERS if odd else [(b"x-ok", b"fine")]) for _ in range(2)] + \
        [(b"x-repeated-" + bytes([97 + i]), b"value-" + bytes(r.randrange(97, 123) for _ in range(r.choice([3, 40])))) for i in range(3)]
    req = [(b":method", b"GET"), (b":scheme", b"https"), (b":authority", b"localhost"), (b":path", b"/" + bytes(r.randrange(97, 123) for _ in range(6)))]
    rsp = [(b":status", b"200")]
    calls = {"client": [], "server": []}

    def do(role, name, *args, **kw):
        calls[role].append((name, args, kw))
        try:
            return getattr(hc if role == "client" else hs, name)(*args, **kw)
        except Exception:  # noqa
            return None
    n = r.choice([2, 3, 4])
    for i in range(n):
        sid = gc.get_next_available_stream_id()
        with_body = r.random() < 0.5
        do("client", "send_headers", sid, req + extra[: r.randrange(len(extra) + 1)], end_stream=not with_body)
        if with_body:
            do("client", "send_data", sid, b"q" * r.choice([1, 300]), False)
            do("client", "send_headers", sid, [(b"x-trailer", b"t")] + extra[2:], end_stream=True)     # trailers
        pump()
        if r.random() < 0.8:
            # the same promised resource more than once: the second promise uses the dynamic table
            for _ in range(r.choice([1, 2, 3])):
                p = do("server", "send_push_promise", sid, req + extra[2:])
                if p is not None and r.random() < 0.6:
                    do("server", "send_headers", p, rsp + extra[2:], end_stream=r.random() < 0.5)
        do("server", "send_headers", sid, rsp + extra[r.randrange(3):], end_stream=False)
        do("server", "send_data", sid, b"b" * r.choice([1, 700]), False)
        do("server", "send_headers", sid, [(b"x-trailer", b"t")] + extra[2:], end_stream=True)           # trailers
        if r.random() < 0.5:
            pump()
    peer = gs if victim_is_client else gc
    hp = hs if victim_is_client else hc
    enc, dec = hp._local_encoder_stream_id, hp._local_decoder_stream_id
    # the peer's decoder-stream instructions acknowledge insertions of the generator twin's encoder,
    # whose choices depended on the acknowledgements it had seen: they are not replayed to the victim
    chunks = [c for c in peer.chunks if c[0] != dec or len(c[1]) == 1 and c is next(x for x in peer.chunks if x[0] == dec)]
    return chunks, enc, (calls["client"] if victim_is_client else [])


def _delivery_order(r, chunks, enc_sid, order):
    """a delivery order of the peer's chunks that preserves the order within each stream"""
    if order == "natural":
        return list(chunks)
    if order == "encoder-last":
        return [c for c in chunks if c[0] != enc_sid] + [c for c in chunks if c[0] == enc_sid]
    if order == "encoder-late":
        # every encoder-stream chunk is delivered right after the next chunk of another stream
        out, held = [], []
        for c in chunks:
            if c[0] == enc_sid:
                held.append(c)
            else:
                out.append(c)
                out += held
                held = []
        return out + held
    # random interleaving: repeatedly take the head of a random stream
    queues = {}
    for c in chunks:
        queues.setdefault(c[0], []).append(c)
    out = []
    while queues:
        sid = r.choice(sorted(queues))
        out.append(queues[sid].pop(0))
        if not queues[sid]:
            del queues[sid]
    return out


def scn_h3_blocked(run):
    from aioquic.quic.events import StreamDataReceived
    s, r = run.sim, run.r
    victim = s.client if run.opts["victim"] == "client" else s.server
    if not s.handshake():
        return
    run.enable_h3(only=victim.name)
    h3 = run.h3
    s.transmit(victim)
    chunks, enc_sid, twin_calls = _h3_generate(r, victim.is_client, run.opts.get("odd", False))
    # the victim makes the API calls of its generator twin (so its own stream state matches) ...
    for name, args, kw in twin_calls:
        h3.call(victim, name, *args, **kw)
    s.transmit(victim)
    # ... and receives the peer's genuine bytes in the chosen order, optionally cut in two
    blocked = 0
    for sid, data, fin in _delivery_order(r, chunks, enc_sid, run.opts["order"]):
        parts = [(data, fin)]
        if len(data) > 1 and r.random() < run.opts.get("p_split", 0.0):
            k = r.randrange(1, len(data))
            parts = [(data[:k], False), (data[k:], fin)]
        for d, f in parts:
            h3.on_event(s, victim, StreamDataReceived(data=d, end_stream=f, stream_id=sid))
            blocked += sum(1 for st in h3.conns[victim.name]._stream.values() if st.blocked)
        if r.random() < 0.3:
            s.transmit(victim)
    run.rec._add("blocked-stream-steps", blocked)
    s.transmit(victim)
    _finish(run)


SCENARIOS = {"h3_blocked": scn_h3_blocked, "tp": scn_tp, "net": scn_net, "retry_vn": scn_retry_vn, "hostile": scn_hostile, "garbage": scn_garbage, "h3": scn_h3}


def plan(r, tier):
    """list of (scenario name, seed, opts)"""
    k = 1 if tier != "thorough" else 12
    out = []
    for i in range(16 * k):
        net = ["benign", "lossy", "dup", "rebind"][i % 4]
        opts = {"net": net, "hs_adversarial": i % 8 >= 4,
                "client": {"congestion_control_algorithm": ["reno", "cubic"][i % 2], "max_datagram_frame_size": 1200},
                "server": {"max_datagram_frame_size": 1200}}
        out.append(("net", r.randrange(1 << 30), opts))
    for i in range(8 * k):
        v = ["retry", "vn", "vn-none", "late"][i % 4]
        co = {"supported_versions": [0x6B3343CF, 1]} if v.startswith("vn") and i % 8 < 4 else {}
        out.append(("retry_vn", r.randrange(1 << 30), {"variant": v, "client": co}))
    for i in range(60 * k):
        out.append(("hostile", r.randrange(1 << 30),
                    {"phase": "connected" if i % 4 else "handshake", "reserved": i % 10 == 9,
                     "client": {"max_datagram_frame_size": 1200} if i % 2 else {}}))
    for i in range(18 * k):
        st = ["fresh-server", "firstflight", "handshake", "connected", "closing", "terminated"][i % 6]
        out.append(("garbage", r.randrange(1 << 30), {"state": st}))
    for i in range(30 * k):
        opts = {"net": ["benign", "lossy", "dup"][i % 3], "odd": True, "webtransport": i % 5 == 0,
                "client": {"alpn_protocols": ["h3"], "max_datagram_frame_size": 1200},
                "server": {"alpn_protocols": ["h3"], "max_datagram_frame_size": 1200}}
        out.append(("h3", r.randrange(1 << 30), opts))
    tpv = [("client", "all-optional"), ("client", "preferred"), ("server", "server-only-from-client"),
           ("server", "all-optional"), ("client", "versions"), ("server", "versions"), ("client", "unknown"),
           ("server", "unknown"), ("client", "big"), ("server", "big"), ("client", "malformed"), ("server", "malformed")]
    for i in range(len(tpv) * 2 * k):
        victim, variant = tpv[i % len(tpv)]
        out.append(("tp", r.randrange(1 << 30),
                    {"victim": victim, "variant": variant, "mode": ["both", "file"][(i // len(tpv)) % 2]}))
    orders = ["natural", "encoder-last", "encoder-late", "random"]
    for i in range(16 * k):
        out.append(("h3_blocked", r.randrange(1 << 30),
                    {"victim": "client" if i % 4 != 3 else "server", "order": orders[(i // 4) % 4], "odd": i % 8 >= 6,
                     "p_split": 0.3 if i % 5 == 4 else 0.0, "mode": ["both", "qlog", "file", "both"][i % 4],
                     "client": {"alpn_protocols": ["h3"]}, "server": {"alpn_protocols": ["h3"]}}))
    return out


# --------------------------------------------------------------------------
# oracle (from the property text)
# --------------------------------------------------------------------------
KEYLOG_LINE = re.compile(r"^[A-Z_0-9]+ [0-9a-f]{64} [0-9a-f]+$")


def qlog_oracle(run):
    """list of (what, signature) problems of the ON run's log output"""
    probs = []
    rec = run.rec
    docs = {}
    for name, lg in run.loggers.items():
        try:
            d = lg.to_dict()
            txt = json.dumps(d, allow_nan=False)
            docs[name] = json.loads(txt)["traces"]
        except Exception as e:  # noqa
            probs.append((f"{name}: qlog document is not serialisable as JSON: {type(e).__name__}: {e}",
                          {"oracle": "qlog-json", "exception": type(e).__name__}))
    if run.tmpdir:
        # QuicFileLogger: traces of terminated connections are in files
        files = [os.path.join(d, f) for d, _, fs in os.walk(run.tmpdir) for f in fs]
        for fn in sorted(files):
            try:
                d = json.load(open(fn), parse_constant=lambda c: (_ for _ in ()).throw(ValueError(c)))
            except Exception as e:  # noqa
                probs.append((f"qlog file {fn} is not JSON: {type(e).__name__}: {e}", {"oracle": "qlog-json-file"}))
                continue
            for t in d["traces"]:
                docs.setdefault(t["vantage_point"]["type"], []).append(t)
    for name in ("client", "server"):
        traces = docs.get(name)
        if traces is None or len(traces) != 1:
            if run.loggers and traces is not None:
                probs.append((f"{name}: {len(traces)} traces for one connection", {"oracle": "qlog-traces"}))
            continue
        evs = traces[0]["events"]
        n_sent = sum(1 for e in evs if e["name"] == "transport:packet_sent")
        n_recv = sum(1 for e in evs if e["name"] == "transport:packet_received")
        exp_sent = rec.n_built[name]
        exp_recv = rec.n_auth[name] - rec.n_auth_dup[name] + rec.extra_received[name]
        if n_sent != exp_sent:
            probs.append((f"{name}: {n_sent} packet_sent records for {exp_sent} packets built and sent",
                          {"oracle": "qlog-packet-records", "kind": "packet_sent"}))
        if n_recv != exp_recv:
            probs.append((f"{name}: {n_recv} packet_received records for {exp_recv} packets accepted "
                          f"({rec.n_auth[name]} authenticated, {rec.n_auth_dup[name]} duplicates, "
                          f"{rec.extra_received[name]} Retry/VN)",
                          {"oracle": "qlog-packet-records", "kind": "packet_received"}))
        for e in evs:
            if e["name"] in ("transport:packet_sent", "transport:packet_received"):
                for f in e["data"]["frames"]:
                    if not isinstance(f, dict) or not isinstance(f.get("frame_type"), str):
                        probs.append((f"{name}: frame record without frame_type: {f!r}", {"oracle": "qlog-frame"}))
    for name, fh in run.secrets.items():
        for line in fh.getvalue().splitlines():
            if not KEYLOG_LINE.match(line):
                probs.append((f"{name}: malformed key log line {line[:60]!r}", {"oracle": "keylog-line"}))
                break
    return probs


def run_pair(ctx, name, seed, opts, mode, stats):
    from harness import paired
    scn = SCENARIOS[name]
    off, roff = paired.execute(scn, seed, "off", opts)
    on, ron = paired.execute(scn, seed, mode, opts)
    try:
        replay = {"scenario": name, "seed": seed, "opts": opts, "mode": mode}
        d = paired.first_diff(off, on)
        if d is not None:
            path, a, b = d
            sig = {"oracle": "paired-runs"}
            # an exception that only the ON run has explains the divergence
            extra = [x for k in sorted(on) if k.startswith("raise.") for x in on[k] if x not in off.get(k, [])]
            if extra:
                sig.update(exception=extra[0][1], where=extra[0][3])
            else:
                sig["channel"] = path.split("[")[0].lstrip(".").split(".")[0]
            ctx.witness(f"logging mode {mode!r} changes behaviour: first difference at {path}: off={str(a)[:200]} on={str(b)[:200]}",
                        dict(replay, diff_path=path, off=str(a)[:2000], on=str(b)[:2000]), sig)
            stats["diff"] += 1
        for what, sig in qlog_oracle(ron):
            ctx.witness(what, replay, sig)
            stats["qlog"] += 1
        nontrivial = sum(len(v) for k, v in off.items() if k.startswith(("built.", "event."))) > 6
        ctx.count((name, seed, mode, json.dumps(opts, sort_keys=True, default=str)), nontrivial)
        stats["packets"] += ron.rec.n_built["client"] + ron.rec.n_built["server"]
        stats["raises_both"] += sum(len(v) for k, v in off.items() if k.startswith("raise."))
        if ron.loggers:
            for lg in ron.loggers.values():
                for t in lg._traces:
                    stats["log_events"] += len(t._events)
    finally:
        if ron.tmpdir:
            shutil.rmtree(ron.tmpdir, ignore_errors=True)
    return off


def calibrate(ctx, name, seed, opts):
    """off/off control: the observation must be a function of the inputs"""
    from harness import paired
    a, _ = paired.execute(SCENARIOS[name], seed, "off", opts)
    b, _ = paired.execute(SCENARIOS[name], seed, "off", opts)
    d = paired.first_diff(a, b)
    if d is not None:
        ctx.broken.append({"kind": "broken-correspondence", "correspondence": "off/off control",
                           "error": f"scenario {name} seed {seed} is not deterministic at {d[0]}"})
    return d is None


def main(tier):
    ctx = core.Ctx("C20", tier)
    tree.activate()
    import subprocess
    import sys
    gen = subprocess.run([sys.executable, os.path.join(core.VERIF, "tools", "extract_log.py")],
                         capture_output=True, text=True)
    if gen.returncode != 0:
        ctx.broken.append({"kind": "broken-correspondence", "correspondence": "extract_log",
                           "error": (gen.stdout + gen.stderr)[-3000:]})
    else:
        ctx.notes["extract_log"] = gen.stdout.strip().splitlines()[-12:]
    ctx.prove(["AQ.Props.C20", "AQ.Props.C20Gen"], [])
    ctx.cov["trusted_base"] = [
        "Lean 4.33.0 kernel (+ leanchecker in thorough tier)",
        "axioms: subset of {propext, Classical.choice, Quot.sound} (audited by #print axioms)",
        "tools/extract_log.py: Python-ast -> log IR translation (fails loudly on unknown statement shapes; "
        "the classification it emits is re-checked in Lean by `decide`, the translation itself is trusted)",
        "harness/sim.py taps + harness/frames.py parser + harness/paired.py canonicalisation",
    ]
    ctx.assumptions = [
        "the log sinks do not fail: secrets_log_file.write/flush and QuicFileLogger's directory are writable",
        "QuicStream set-iteration order (address dependent in _write_application) is pinned by the harness; "
        "the IR semantics is deterministic",
        "CRYPTO frame contents (OpenSSL-RNG key shares, RSA-PSS salt) are compared by offset/length only",
        "calls to non-logging methods inside guarded blocks are pure reads as classified by extract_log.py's "
        "PURE_CALLS table (hexlify/dump_cid/len/packet_type/encode_*), each listed in AQ.Gen.LogProgram",
    ]
    r = rng.make("c20")
    jobs = plan(r, tier)
    stats = {"diff": 0, "qlog": 0, "packets": 0, "log_events": 0, "raises_both": 0}
    modes = ["both", "qlog", "secrets", "file"]

    def search():
        # a theorem about the extracted program broke: hunt for a concrete input
        rs = rng.make("c20-search")
        for i in range(60):
            run_pair(ctx, "hostile", rs.randrange(1 << 30), {"phase": "connected", "reserved": i % 2 == 0}, "both", stats)
            if ctx.witnesses:
                return
        for name, seed, opts in plan(rs, "quick"):
            run_pair(ctx, name, seed, opts, opts.get("mode", "both"), stats)
            if ctx.witnesses:
                return
    ctx.search = search
    ok_cal = 0
    for i, (name, seed, opts) in enumerate(jobs):
        mode = opts.get("mode") or (modes[0] if i % 3 else modes[(i // 3) % 4])
        run_pair(ctx, name, seed, opts, mode, stats)
        if i % 10 == 0:
            ok_cal += calibrate(ctx, name, seed, opts)
    ctx.cov["traces_validated_against_impl"] = len(jobs)
    ctx.notes["stats"] = stats
    ctx.notes["offoff_controls_ok"] = ok_cal
    ctx.sample({"scenario": jobs[0][0], "seed": jobs[0][1], "opts": jobs[0][2]})
    ctx.cov["rule"] = (
        "paired runs (logging off vs qlog / secrets log / both / QuicFileLogger, same PRNG seed) of: two real connections over "
        "benign, lossy, duplicating and rebinding networks with a PRNG script of send_stream_data/reset_stream/stop_sending/"
        "send_datagram_frame/send_ping/request_key_update/change_connection_id and an odd close reason; Retry / Version "
        "Negotiation (valid, invalid, repeated, no common version, late); crafted peer transport parameters (every optional parameter "
        "present incl. preferred_address, long version_information, server-only parameters sent by a client, unknown / reserved ids, "
        "maximal values, malformed values; in-memory QuicLogger and QuicFileLogger); QPACK-blocked streams (genuine bytes of a real "
        "H3Connection peer with repeated header fields; HEADERS, trailers, PUSH_PROMISE, push-stream HEADERS; encoder stream "
        "delivered in natural order / after everything / after the next chunk / randomly interleaved, chunks optionally cut); "
        "hostile frames injected with live keys (every frame "
        "type with boundary values, truncated, unknown types, reserved header bits) in handshake and connected states; garbage "
        "datagrams in every connection state; HTTP/3 on both ends with odd header bytes (non-UTF-8 names/values), push, "
        "trailers, H3 datagrams, WebTransport streams, malformed H3 frames.  Non-trivial = more than 6 packets/events "
        "observed; distinct by (scenario, seed, mode, options)."
    )
    return ctx.finish()


def replay(path):
    from harness import paired
    tree.activate()
    w = json.load(open(path))
    rp = w["replay"]
    scn = SCENARIOS[rp["scenario"]]
    off, _ = paired.execute(scn, rp["seed"], "off", rp["opts"])
    on, ron = paired.execute(scn, rp["seed"], rp["mode"], rp["opts"])
    d = paired.first_diff(off, on)
    print("first difference:", d)
    for k in sorted(on):
        if k.startswith("raise."):
            for x in on[k]:
                if x not in off.get(k, []):
                    print("exception only with logging on:", k, x)
    probs = qlog_oracle(ron)
    for what, sig in probs:
        print("qlog oracle:", what)
    if ron.tmpdir:
        shutil.rmtree(ron.tmpdir, ignore_errors=True)
    return 1 if d or probs else 0
