"""C14 — HTTP/3 events are independent of chunking and survive a round trip.

proof:   AQ.Props.C14 built and audited (chunk independence of the request /
         push stream parser for the quirk-free model, counterexamples for every
         quirk of the unchanged tree, frame round trip)
tie:     T2 correspondence of AQ.Model.H3Parser (compiled driver) against the
         real H3Connection: same op lines, pylsqpack / validator answers
         recorded on the implementation and replayed to the model
oracle:  written from the property text: per-stream normal form of the events
         (header blocks in order, body bytes, push promises, WebTransport bytes,
         ended flag) must be identical for every chunking / interleaving of the
         same stream bytes; what send_headers/send_data submitted must come out.
"""
import itertools
import json

from harness import core, rng, tree
from harness import h3gen as g


def outcome_of(impl, outs, all_events):
    for o in outs:
        if o.startswith("err "):
            return ("exception", o[4:])
    if impl.h._is_done:
        return ("closed", impl.q.closed[0] if impl.q.closed else None)
    return ("ok", g.show_norm(g.norm_events(all_events)))


def run_deliveries(H3Impl, new_line, deliveries, pre=()):
    """deliveries: [(stream_id, bytes, fin)] -> (outcome, ops, outs, model_lines);
    `pre`: op lines run before the deliveries (local sends: `h3.sendheaders <sid> <end>`)"""
    impl = H3Impl()
    ops = [new_line] + list(pre) + [f"h3.data {sid} {g.hx(d)} {1 if fin else 0}" for sid, d, fin in deliveries]
    outs, mlines, evs = [], [], []
    for line in ops:
        o, m = impl.step(line)
        outs.append(o)
        mlines.append(m)
        if o.startswith("err "):
            break
        if line.startswith("h3.data"):
            evs += impl.last_events
    impl.all_events = evs
    return outcome_of(impl, outs, evs), ops[: len(outs)], outs, mlines, impl


def chunkings(r, b, exhaustive_max, n_random):
    """(chunks, lone_fin) pairs; the first one is 'whole, FIN on it'"""
    yield [b], False
    yield [b], True
    if len(b) <= exhaustive_max:
        for sp in g.splittings(b):
            if len(sp) > 1:
                yield sp, False
                yield sp, True
    else:
        for _ in range(n_random):
            sp = g.random_split(r, b, max_parts=r.choice([2, 3, 4, 8]), allow_empty=r.random() < 0.3)
            yield sp, r.random() < 0.5
        # one byte at a time
        yield [b[i:i + 1] for i in range(len(b))], False


def to_deliveries(sid, chunks, lone_fin):
    d = [(sid, c, (i == len(chunks) - 1) and not lone_fin) for i, c in enumerate(chunks)]
    if lone_fin:
        d.append((sid, b"", True))
    return d


# --------------------------------------------------------------------- streams
def header_blocks():
    import pylsqpack
    enc = pylsqpack.Encoder()

    def blk(hs):
        e, b = enc.encode(0, hs)
        assert e == b""
        return b
    return {
        "resp": blk([(b":status", b"200")]),
        "resp_cl2": blk([(b":status", b"200"), (b"content-length", b"2")]),
        "req": blk([(b":method", b"GET"), (b":authority", b"a")]),
        "req_cl1": blk([(b":method", b"POST"), (b":authority", b"a"), (b"content-length", b"1")]),
        "trailer": blk([(b"x", b"y")]),
        "pp": blk([(b":method", b"GET"), (b":scheme", b"https"), (b":authority", b"a"), (b":path", b"/")]),
        "bad": blk([(b"Upper", b"x")]),
    }


def request_streams(hb, role):
    """named byte strings for a request (bidirectional) stream"""
    H = g.frame(1, hb["resp"] if role == 1 else hb["req"])
    Hcl = g.frame(1, hb["resp_cl2"] if role == 1 else hb["req_cl1"])
    T = g.frame(1, hb["trailer"])
    pieces = {
        "D0": g.frame(0, b""), "D1": g.frame(0, b"a"), "D2": g.frame(0, b"ab"),
        "Dtrunc": g.frame(0, b"abc")[:-1], "Dhdr": b"\x00\x03",
        "G0": g.frame(0x21, b""), "G1": g.frame(0x21, b"x"), "Ghdr": b"\x21\x02", "Gtrunc": b"\x21\x02x",
        "Hhdr": b"\x01\x05", "Htrunc": b"\x01\x05ab", "V2": b"\x40", "Ty": b"\x01",
    }
    out = {"empty": b"", "H": H, "H+T": H + T, "Hcl": Hcl}
    for n, p in pieces.items():
        out["H+" + n] = H + p
        out[n] = p
    for a, b in itertools.product(["D1", "D2", "G0", "G1", "D0"], ["D1", "Dtrunc", "Dhdr", "G0", "G1", "Ghdr", "Hhdr", "V2"]):
        out[f"H+{a}+{b}"] = H + pieces[a] + pieces[b]
    out["H+D2+T"] = H + pieces["D2"] + T
    out["H+D2+T+G0"] = H + pieces["D2"] + T + pieces["G0"]
    out["H+T+T"] = H + T + T
    out["H+T+D1"] = H + T + pieces["D1"]
    out["Hcl+D2"] = Hcl + pieces["D2"]
    out["Hcl+D1+D1"] = Hcl + pieces["D1"] + pieces["D1"]
    out["Hcl+D1"] = Hcl + pieces["D1"]
    out["Hcl+Dtrunc"] = Hcl + pieces["Dtrunc"]
    out["Hcl+D1+G1"] = Hcl + pieces["D1"] + pieces["G1"]
    out["H+SETTINGS"] = H + g.frame(4, b"")
    out["H+GOAWAY"] = H + g.frame(7, b"\x00")
    out["Hbad"] = g.frame(1, hb["bad"])
    out["Hqpackerr"] = g.frame(1, b"\xff\xff\xff")
    out["G1+H"] = pieces["G1"] + H
    out["WT"] = b"\x40\x41\x05abc"
    out["WThdr"] = b"\x40\x41\x05"
    out["WTpart"] = b"\x40\x41"
    out["WTlong"] = b"\x40\x41\x05" + bytes(range(40))
    out["H+WT"] = H + b"\x40\x41\x05abc"
    out["big-len"] = H + b"\x00" + g.varint(1 << 40) + b"abcdef"
    out["H+bigD"] = H + g.frame(0, bytes(range(200)) * 3) + T
    if role == 1:
        PP = g.frame(5, b"\x03" + hb["pp"])
        out["H+PP"] = H + PP
        out["PP+H+D1"] = PP + H + pieces["D1"]
        out["H+PPtrunc"] = H + PP[:-2]
        out["H+PP0"] = H + g.frame(5, b"")
    else:
        out["H+PP"] = H + g.frame(5, b"\x03" + hb["pp"])
    return out


def push_streams(hb):
    H = g.frame(1, hb["resp"])
    pre = b"\x01\x05"
    return {
        "push:H": pre + H, "push:H+D2": pre + H + g.frame(0, b"ab"), "push:H+G0": pre + H + g.frame(0x21, b""),
        "push:H+Dtrunc": pre + H + g.frame(0, b"abc")[:-1], "push:type-only": b"\x01", "push:H+PP": pre + H + g.frame(5, b"\x00"),
        "push:id2": b"\x01\x40\x05" + H,
    }


def uni_streams():
    return {
        "wtuni": b"\x40\x54\x07hello", "wtuni-empty": b"\x40\x54\x07", "wtuni-part": b"\x40\x54",
        "unknown": b"\x21abcdef", "unknown-only": b"\x21",
    }


# ------------------------------------------------------------------ round trip
HEADER_SETS = [
    [(b":method", b"GET"), (b":scheme", b"https"), (b":authority", b"example.org"), (b":path", b"/")],
    [(b":method", b"POST"), (b":scheme", b"https"), (b":authority", b"example.org"), (b":path", b"/upload"),
     (b"x-custom", b"value-1"), (b"content-length", b"%d")],
    [(b":method", b"GET"), (b":scheme", b"https"), (b":authority", b"example.org"), (b":path", b"/a/b/c?d=e"),
     (b"x-custom", b"value-1"), (b"user-agent", b"verif/1.0"), (b"accept", b"*/*")],
    [(b":method", b"CONNECT"), (b":authority", b"example.org:443"), (b"x-long", b"v" * 300)],
]
RESP_SETS = [
    [(b":status", b"200")],
    [(b":status", b"404"), (b"server", b"verif"), (b"x-custom", b"value-1"), (b"content-length", b"%d")],
    [(b":status", b"200"), (b"x-bin", bytes([0x80, 0xfe, 0xff])), (b"server", b"verif")],
]
TRAILERS = [[(b"x-trailer", b"1")], [(b"x-custom", b"value-1"), (b"grpc-status", b"0")]]


def roundtrip_case(r, H3Impl, quirks, thorough):
    """drive a real sender H3Connection, carry its stream bytes to a receiver
    under random chunking / interleaving (encoder stream possibly late)"""
    from aioquic.h3.connection import H3Connection
    from harness.impl_h3parser import FakeQuic
    client_sends = r.random() < 0.6
    recv_role = 0 if client_sends else 1
    sq = FakeQuic(is_client=client_sends)
    sender = H3Connection(sq)
    # the receiver's own unidirectional streams (SETTINGS) reach the sender first so
    # that its QPACK encoder may use the dynamic table
    tmpq = FakeQuic(is_client=not client_sends)
    H3Connection(tmpq)
    from aioquic.quic.events import StreamDataReceived
    for sid, d, fin in tmpq.sent:
        sender.handle_event(StreamDataReceived(stream_id=sid, data=d, end_stream=fin))
    expected = {}
    n_req = r.randrange(1, 5)
    for i in range(n_req):
        sid = i * 4
        exp = {"headers": [], "body": b"", "ended": False}
        body_parts = [bytes(r.randrange(256) for _ in range(r.choice([0, 1, 2, 5, 63, 64, 300, 20000 if thorough else 700])))
                      for _ in range(r.randrange(0, 4))]
        total = sum(len(p) for p in body_parts)
        hs = r.choice(HEADER_SETS if client_sends else RESP_SETS)
        hs = [(k, (v % total) if b"%d" in v else v) for k, v in hs]
        with_trailers = r.random() < 0.3
        end_on_headers = not body_parts and not with_trailers and r.random() < 0.5
        sender.send_headers(sid, hs, end_stream=end_on_headers)
        exp["headers"].append(hs)
        if end_on_headers:
            exp["ended"] = True
        for j, p in enumerate(body_parts):
            last = j == len(body_parts) - 1 and not with_trailers
            sender.send_data(sid, p, end_stream=last)
            exp["body"] += p
            if last:
                exp["ended"] = True
        if with_trailers:
            tr = r.choice(TRAILERS)
            sender.send_headers(sid, tr, end_stream=True)
            exp["headers"].append(tr)
            exp["ended"] = True
        if not exp["ended"] and r.random() < 0.5:
            sender.send_data(sid, b"", end_stream=True)
            exp["ended"] = True
        expected[sid] = exp
    # per-stream byte strings in sending order
    streams = {}
    for sid, d, fin in sq.sent:
        s = streams.setdefault(sid, [b"", False])
        s[0] += d
        s[1] = s[1] or fin
    # chunk every stream, then interleave preserving per-stream order
    queues = {}
    for sid, (b, fin) in streams.items():
        parts = g.random_split(r, b, max_parts=r.choice([1, 2, 3, 6, 12]), allow_empty=r.random() < 0.2)
        lone = fin and r.random() < 0.3
        queues[sid] = g_deliveries(sid, parts, fin, lone)
    enc_sid = sender._local_encoder_stream_id
    late_encoder = r.random() < 0.5
    order = []
    live = [s for s in queues if queues[s]]
    held = []
    if late_encoder and enc_sid in live:
        live.remove(enc_sid)
        held = [enc_sid]
    while live or held:
        if not live:
            live, held = held, []
        sid = r.choice(live)
        order.append(queues[sid].pop(0))
        if not queues[sid]:
            live.remove(sid)
        if held and r.random() < 0.05:
            live += held
            held = []
    new_line = f"h3.new {recv_role} {1 if r.random() < 0.2 else 0} 0 {quirks}"
    # the receiver may already have finished ITS sending side of a stream (a client that
    # sent its request with end_stream=True, a server that answered early)
    pre = [f"h3.sendheaders {sid} 1" for sid in sorted(expected) if r.random() < 0.5]
    return new_line, order, expected, late_encoder, pre


# --------------------------------------------------- identifier / length boundaries
BOUNDARY_IDS = [0, 1, 62, 63, 64, 65, 16382, 16383, 16384, 16385, (1 << 30) - 1, 1 << 30, (1 << 30) + 1]
BOUNDARY_LENS = [0, 1, 62, 63, 64, 65, 16382, 16383, 16384, 16385]


def _sender(is_client, peer_control=b""):
    """a real sending H3Connection that has seen the peer's SETTINGS (+ extra control frames)"""
    from aioquic.h3.connection import H3Connection
    from aioquic.quic.events import StreamDataReceived
    from harness.impl_h3parser import FakeQuic
    sq = FakeQuic(is_client=is_client)
    sender = H3Connection(sq, enable_webtransport=True)
    tmpq = FakeQuic(is_client=not is_client)
    H3Connection(tmpq)
    for sid, d, fin in tmpq.sent:
        sender.handle_event(StreamDataReceived(stream_id=sid, data=d, end_stream=fin))
    if peer_control:
        sender.handle_event(StreamDataReceived(stream_id=3 if is_client else 2, data=peer_control, end_stream=False))
    assert sq.closed is None, sq.closed
    return sq, sender     # sq.sent keeps the sender's own control / QPACK stream preambles


def _padded_headers(base, target_block_len):
    """header list whose QPACK block is exactly `target_block_len` bytes long (or None)"""
    import pylsqpack
    big = [(b"x-pad-%d" % i, bytes([0x80 + i]) * 4000) for i in range(target_block_len // 4100)]

    def blk_len(n):
        try:
            return len(pylsqpack.Encoder().encode(0, base + big + [(b"x-fill", b"\xfe" * n)])[1])
        except (RuntimeError, ValueError):     # pylsqpack's encoder buffers hold < 4096 bytes
            return 1 << 40
    if blk_len(0) > target_block_len:
        return None
    for n in range(0, 4050):
        L = blk_len(n)
        if L == target_block_len:
            return base + big + [(b"x-fill", b"\xfe" * n)]
        if L > target_block_len:
            return None
    return None


def boundary_cases(r):
    """(name, receiver_role, sent list [(sid|'dgram', bytes, fin)], expected per stream) for every
    identifier / length the sending API writes as a varint"""
    REQ = [(b":method", b"GET"), (b":scheme", b"https"), (b":authority", b"example.org"), (b":path", b"/")]
    RESP = [(b":status", b"200")]
    # WebTransport streams: session ids, unidirectional and bidirectional
    for sess in BOUNDARY_IDS + [(1 << 62) - 1]:
        for uni in (True, False):
            for is_client in (True, False):
                sq, sender = _sender(is_client)
                sid = sender.create_webtransport_stream(sess, is_unidirectional=uni)
                payload = bytes((sess + i) % 251 for i in range(r.choice([1, 5, 64, 300])))
                sq.send_stream_data(sid, payload, True)
                yield (f"wt-{'uni' if uni else 'bidi'}-session-{sess}", 0 if is_client else 1, list(sq.sent),
                       {sid: {"wt": payload, "sess": sess, "ended": True}})
    # datagrams: quarter stream ids
    for qid in BOUNDARY_IDS:
        sq, sender = _sender(True)
        payload = bytes((qid + i) % 253 for i in range(r.choice([0, 1, 40])))
        sender.send_datagram(qid * 4, payload)
        yield (f"datagram-quarter-{qid}", 0, list(sq.sent), {qid * 4: {"dgram": [payload]}})
    # push ids (server sends, client receives); MAX_PUSH_ID raised by the client
    for pid in BOUNDARY_IDS:
        sq, sender = _sender(False, peer_control=g.frame(0xD, g.varint(pid + 10)))
        sender._next_push_id = pid                # the ids below were used by earlier pushes
        psid = sender.send_push_promise(0, REQ)
        sender.send_headers(psid, RESP)
        body = b"pushed-%d" % pid
        sender.send_data(psid, body, True)
        sender.send_headers(0, RESP, end_stream=True)
        yield (f"push-id-{pid}", 1, list(sq.sent),
               {0: {"push": [(pid, REQ)], "headers": [RESP], "ended": True},
                psid: {"headers": [RESP], "body": body, "push_id": pid, "ended": True}})
    # 66 pushes one after the other through the API only (push ids 0..65)
    sq, sender = _sender(False, peer_control=g.frame(0xD, g.varint(100)))
    psids = [sender.send_push_promise(0, REQ) for _ in range(66)]
    sender.send_headers(0, RESP, end_stream=True)
    exp = {0: {"push": [(i, REQ) for i in range(66)], "headers": [RESP], "ended": True}}
    for i in (63, 64, 65):
        sender.send_headers(psids[i], RESP, end_stream=True)
        exp[psids[i]] = {"headers": [RESP], "push_id": i, "ended": True}
    yield ("push-ids-0..65", 1, list(sq.sent), exp)
    # DATA frame lengths
    for n in BOUNDARY_LENS:
        for is_client in (True, False):
            sq, sender = _sender(is_client)
            sid = 0
            body = bytes((n + i) % 256 for i in range(n))
            hs = REQ if is_client else RESP
            sender.send_headers(sid, hs)
            sender.send_data(sid, body, False)
            sender.send_data(sid, b"tail", True)
            yield (f"data-length-{n}", 0 if is_client else 1, list(sq.sent),
                   {sid: {"headers": [hs], "body": body + b"tail", "ended": True}})
    # header block lengths
    # (blocks of 16383/16384 bytes are not reachable: pylsqpack's encoder output buffer is 4096 bytes)
    for n in (62, 63, 64, 65, 4000, 16383, 16384):
        for is_client in (True, False):
            hs = _padded_headers(REQ if is_client else RESP, n)
            if hs is None:
                continue
            sq, sender = _sender(is_client)
            sender.send_headers(0, hs)
            sender.send_data(0, b"x", True)
            blk = [d for s_, d, f in sq.sent if s_ == 0][0]
            yield (f"header-block-length-{n}", 0 if is_client else 1, list(sq.sent),
                   {0: {"headers": [hs], "body": b"x", "ended": True}})


def boundary_deliveries(r, sent, mode):
    """per-stream bytes in sending order, chunked; datagrams as they are"""
    streams, order_sids = {}, []
    out = []
    for sid, d, fin in sent:
        if sid == "dgram":
            out.append(("dgram", d, False))
            continue
        if sid not in streams:
            streams[sid] = [b"", False]
            order_sids.append(sid)
        streams[sid][0] += d
        streams[sid][1] = streams[sid][1] or fin
    for sid in order_sids:
        b, fin = streams[sid]
        if mode == "whole":
            parts = [b]
        elif mode == "bytes":
            parts = [b[i:i + 1] for i in range(min(len(b), 12))] + ([b[12:]] if len(b) > 12 else [])
        else:
            parts = g.random_split(r, b, max_parts=r.choice([2, 3, 5]), allow_empty=False)
        out += [(sid, c, fin and i == len(parts) - 1) for i, c in enumerate(parts)]
    return out


def ser_expected(expected):
    """JSON form of what was submitted through the sending API (per stream)"""
    def hl(h):
        return [[a.hex(), b.hex()] for a, b in h]
    out = {}
    for sid, e in expected.items():
        d = {}
        for k, v in e.items():
            if k == "headers":
                d[k] = [hl(h) for h in v]
            elif k == "push":
                d[k] = [[p, hl(h)] for p, h in v]
            elif k == "dgram":
                d[k] = [x.hex() for x in v]
            elif isinstance(v, (bytes, bytearray)):
                d[k] = bytes(v).hex()
            else:
                d[k] = v
        out[str(sid)] = d
    return out


def deser_expected(ser):
    def hl(h):
        return [(bytes.fromhex(a), bytes.fromhex(b)) for a, b in h]
    out = {}
    for sid, e in ser.items():
        d = {}
        for k, v in e.items():
            if k == "headers":
                d[k] = [hl(h) for h in v]
            elif k == "push":
                d[k] = [(p, hl(h)) for p, h in v]
            elif k == "dgram":
                d[k] = [bytes.fromhex(x) for x in v]
            elif k in ("body", "wt"):
                d[k] = bytes.fromhex(v)
            else:
                d[k] = v
        out[int(sid)] = d
    return out


def check_expected(got, expected):
    for sid, exp in expected.items():
        n = got.get(sid)
        if n is None:
            return f"stream {sid}: nothing received (submitted {sorted(exp)})"
        for key, want in exp.items():
            have = n.get(key)
            if key == "headers":
                want = [list(h) for h in want]
            if key == "push":
                want = [(p, list(h)) for p, h in want]
            if have != want:
                sw = want if not isinstance(want, (bytes, bytearray)) else f"{len(want)} bytes {want[:8].hex()}…"
                sh = have if not isinstance(have, (bytes, bytearray)) else f"{len(have)} bytes {have[:8].hex()}…"
                return f"stream {sid}: {key} submitted {sw!r:.200} but received {sh!r:.200}"
    return None


# --------------------------------------------------------------------------- QPACK laws
# The Lean model takes the QPACK decoder as a parameter `Q : Qpack` (AQ.Model.Qpack):
# `Q.dec E blk` = answer for header block `blk` once the encoder-stream bytes `E` have been
# fed, and builds the stateful decoder `qpackOracle Q` from it.  This section evaluates
# `Q.dec` on FRESH pylsqpack decoders and checks, on genuine pylsqpack.Encoder output,
# that a LIVE decoder used the way h3/connection.py uses it behaves like `qpackOracle Q`,
# plus the three `QpackLaws` (stable / encErr / decErr).

QP_BASE = [(b":method", b"GET"), (b":scheme", b"https"), (b":authority", b"a"), (b":path", b"/")]


def _qp_outcome(fn):
    import pylsqpack
    try:
        return ("h", tuple(fn()[1]))
    except pylsqpack.StreamBlocked:
        return ("b",)
    except pylsqpack.DecompressionFailed:
        return ("f",)


def qp_timeline(r, cap, n, acks):
    """genuine encoder output: (settings bytes, [(encoder bytes, block, headers)]).
    `acks=False`: the encoder never hears from the decoder, so a conformant encoder
    cannot evict an entry that one of its blocks still needs."""
    import pylsqpack
    enc = pylsqpack.Encoder()
    setb = enc.apply_settings(cap, 16)
    shadow = pylsqpack.Decoder(cap, 16)
    shadow.feed_encoder(setb)
    pool = [(b"x-h%d" % i, b"v%d-" % i + b"z" * r.choice([3, 20, 40])) for i in range(7)]
    out = []
    for k in range(n):
        hs = QP_BASE + r.sample(pool, r.choice([1, 1, 2, 3]))
        e, b = enc.encode(4 * k, hs)
        out.append((e, b, hs))
        if acks:
            shadow.feed_encoder(e)
            ctl, got = shadow.feed_header(4 * k, b)
            assert got == hs
            enc.feed_decoder(ctl)
    return setb, out


def qp_dec(cap, E, blk, sid=0, chunks=None):
    """`Q.dec E blk`: a FRESH decoder fed E (in one piece, or in the given chunks)"""
    import pylsqpack
    d = pylsqpack.Decoder(cap, 16)
    for c in (chunks if chunks is not None else [E]):
        d.feed_encoder(c)
    return _qp_outcome(lambda: d.feed_header(sid, blk))


class QpModel:
    """`qpackOracle Q` of AQ.Model.Qpack, with `Q.dec` = qp_dec"""
    def __init__(self, cap):
        self.cap, self.enc, self.pending = cap, b"", []

    def decode(self, sid, blk):
        o = qp_dec(self.cap, self.enc, blk)
        if o == ("b",):
            self.pending.append((sid, blk))
        return o

    def feed_encoder(self, x):
        self.enc += x
        return [sid for sid, blk in self.pending if qp_dec(self.cap, self.enc, blk) != ("b",)]

    def resume(self, sid):
        blk = next(b for s, b in self.pending if s == sid)
        self.pending = [(s, b) for s, b in self.pending if s != sid]
        return qp_dec(self.cap, self.enc, blk)


def qp_law_failure(ctx, law, detail):
    ctx.broken.append({"kind": "broken-correspondence", "correspondence": "qpack-laws", "law": law, **detail})


def qpack_laws(ctx, r, thorough):
    import pylsqpack
    stats = {"live_vs_model_ops": 0, "blocked": 0, "unblocked_reports": 0, "multi_unblock": 0,
             "report_order_is_arrival_order": True, "stable_checks": 0, "dec_function_checks": 0}
    for case in range(1500 if thorough else 120):
        cap = r.choice([4096, 4096, 512, 220])
        setb, tl = qp_timeline(r, cap, r.randrange(3, 9), acks=False)
        ES = setb + b"".join(e for e, _, _ in tl)
        # (1) Q.dec is a function of (concatenation of the encoder bytes, block): chunking of the
        #     encoder stream, the stream id and blocks pending on other streams do not matter
        for _ in range(3):
            E = ES[:r.randrange(len(ES) + 1)]
            _, blk, hs = r.choice(tl)
            ref = qp_dec(cap, E, blk)
            parts = g.random_split(r, E, max_parts=5, allow_empty=True) if E else []
            o2 = qp_dec(cap, E, blk, sid=r.choice([0, 4, 400, 2 ** 40]), chunks=parts)
            d = pylsqpack.Decoder(cap, 16)
            d.feed_encoder(E)
            for j, (_, ob, _) in enumerate(tl[:3]):
                _qp_outcome(lambda: d.feed_header(1000 + 4 * j, ob))      # other streams, maybe pending
            o3 = _qp_outcome(lambda: d.feed_header(8, blk))
            stats["dec_function_checks"] += 1
            ctx.count(("qp-dec", cap, E, blk), len(parts) > 1)
            if ref[0] == "h" and list(ref[1]) != hs:
                qp_law_failure(ctx, "dec-correct", {"cap": cap, "enc": E.hex(), "block": blk.hex(), "got": str(ref)})
            if not (ref == o2 == o3):
                qp_law_failure(ctx, "dec-function", {"cap": cap, "enc": E.hex(), "block": blk.hex(),
                                                     "chunks": [c.hex() for c in parts],
                                                     "one_piece": str(ref), "chunked_other_sid": str(o2),
                                                     "with_other_streams_pending": str(o3)})
            # (2) stable: an answer other than "blocked" survives more (genuine, ack-free) encoder bytes
            if ref != ("b",):
                E2 = ES[:r.randrange(len(E), len(ES) + 1)]
                stats["stable_checks"] += 1
                o4 = qp_dec(cap, E2, blk)
                if o4 != ref:
                    qp_law_failure(ctx, "stable", {"cap": cap, "enc": E.hex(), "more": E2[len(E):].hex(),
                                                   "block": blk.hex(), "before": str(ref), "after": str(o4)})
        # (3)+(4) a LIVE decoder used like h3/connection.py = qpackOracle Q: blocks arrive on fresh
        #     streams, every feed_encoder is followed by resume_header of the ids it returned
        live, model = pylsqpack.Decoder(cap, 16), QpModel(cap)
        todo = list(range(len(tl)))
        r.shuffle(todo)
        cuts = g.random_split(r, ES, max_parts=r.choice([1, 2, 4, 7]), allow_empty=False)
        script = [("E", c) for c in cuts] + [("H", k) for k in todo]
        # keep the encoder chunks in order, interleave the header blocks anywhere
        pos = sorted(r.sample(range(len(script)), len(cuts)))
        order, ci, hi = [None] * len(script), 0, 0
        for i in range(len(script)):
            if i in pos:
                order[i] = ("E", cuts[ci]); ci += 1
            else:
                order[i] = ("H", todo[hi]); hi += 1
        trace = []
        for op, a in order:
            stats["live_vs_model_ops"] += 1
            if op == "H":
                _, blk, hs = tl[a]
                ol = _qp_outcome(lambda: live.feed_header(4 * a, blk))
                om = model.decode(4 * a, blk)
                stats["blocked"] += ol == ("b",)
                trace.append(("feed_header", 4 * a, blk.hex(), str(ol)))
                if ol != om or (ol[0] == "h" and list(ol[1]) != hs):
                    qp_law_failure(ctx, "feed-header", {"cap": cap, "trace": trace, "live": str(ol), "model": str(om)})
                    break
            else:
                try:
                    il = list(live.feed_encoder(a))
                except pylsqpack.EncoderStreamError as e:
                    il = ["error " + repr(e)]
                im = model.feed_encoder(a)
                trace.append(("feed_encoder", a.hex(), str(il)))
                stats["unblocked_reports"] += len(il)
                stats["multi_unblock"] += len(il) > 1
                if il != im:
                    stats["report_order_is_arrival_order"] = False
                if sorted(map(str, il)) != sorted(map(str, im)):
                    qp_law_failure(ctx, "feed-encoder-unblocked", {"cap": cap, "trace": trace, "live": str(il),
                                                                   "model": str(im)})
                    break
                bad = False
                for sid in il:
                    ol = _qp_outcome(lambda: live.resume_header(sid))
                    om = model.resume(sid)
                    trace.append(("resume_header", sid, str(ol)))
                    if ol != om or ol[0] != "h" or list(ol[1]) != tl[sid // 4][2]:
                        qp_law_failure(ctx, "resume-header", {"cap": cap, "trace": trace, "live": str(ol),
                                                              "model": str(om)})
                        bad = True
                        break
                if bad:
                    break
        ctx.count(("qp-live", cap, tuple(map(str, order))), True)
    # (5) encErr / decErr: a rejected encoder (decoder) stream stays rejected with more bytes —
    #     one delivery of a ++ b closes the connection like the delivery of a alone
    n_err = 0
    for case in range(400 if thorough else 60):
        setb, tl = qp_timeline(r, 4096, 3, acks=False)
        ES = setb + b"".join(e for e, _, _ in tl)
        bad = ES[:r.randrange(len(ES) + 1)] + bytes(r.randrange(256) for _ in range(r.randrange(1, 6)))
        more = bytes(r.randrange(256) for _ in range(r.randrange(0, 9)))

        def rejects(data, parts):
            d = pylsqpack.Decoder(4096, 16)
            try:
                for c in parts:
                    d.feed_encoder(c)
                return False
            except pylsqpack.EncoderStreamError:
                return True
        if rejects(bad, [bad]):
            n_err += 1
            if not rejects(bad + more, [bad + more]) or not rejects(bad + more, [bad, more]):
                qp_law_failure(ctx, "encErr", {"rejected": bad.hex(), "more": more.hex()})
        junk = bytes(r.randrange(256) for _ in range(r.randrange(1, 6)))

        def enc_rejects(data):
            e = pylsqpack.Encoder()
            e.apply_settings(4096, 16)
            try:
                e.feed_decoder(data)
                return False
            except pylsqpack.DecoderStreamError:
                return True
        if enc_rejects(junk):
            n_err += 1
            if not enc_rejects(junk + more):
                qp_law_failure(ctx, "decErr", {"rejected": junk.hex(), "more": more.hex()})
        ctx.count(("qp-err", bad, junk, more), True)
    stats["rejected_stream_cases"] = n_err
    ctx.notes["qpack_laws"] = stats


def qp_nonconformant_note(ctx, H3Impl):
    """`QpackLaws.stable` is a promise of the PEER's encoder (RFC 9204 2.1.1: no eviction of an
    entry a not-yet-acknowledged block references), not of pylsqpack: replaying a genuine
    encoder stream that evicted after an acknowledgement, the events DO depend on whether the
    request arrives before or after the evicting instructions.  Recorded, not a violation."""
    r = rng.make("c14-qp-note")
    for _ in range(40):
        setb, tl = qp_timeline(r, 150, 12, acks=True)
        cum = [setb]
        for e, _, _ in tl:
            cum.append(cum[-1] + e)
        for k, (_, blk, hs) in enumerate(tl):
            ok_at = next((i for i in range(k + 1, len(cum)) if qp_dec(150, cum[i], blk)[0] == "h"), None)
            if ok_at is None:
                continue
            fail_at = next((j for j in range(ok_at + 1, len(cum)) if qp_dec(150, cum[j], blk) == ("f",)), None)
            if fail_at is None:
                continue
            e1, e2 = b"\x02" + cum[ok_at], cum[fail_at][len(cum[ok_at]):]
            req = g.frame(1, blk)
            a = [(2, e1, False), (0, req, True), (2, e2, False)]
            b = [(2, e1, False), (2, e2, False), (0, req, True)]
            oa = run_deliveries(H3Impl, "h3.new 0 0 0 00000000", a)[0]
            ob = run_deliveries(H3Impl, "h3.new 0 0 0 00000000", b)[0]
            ctx.notes["qpack_stable_is_a_peer_obligation"] = {
                "what": "encoder stream that evicts an entry a header block references (non-conformant peer): "
                        "request before the evicting instructions = HeadersReceived, after = connection closed "
                        "(QPACK_DECOMPRESSION_FAILED); inherent to QPACK, excluded by QpackLaws.stable",
                "encoder_stream_part1": e1.hex(), "request_stream_0": req.hex(), "encoder_stream_part2": e2.hex(),
                "schedule_a": "enc part1, request+FIN, enc part2", "outcome_a": str(oa)[:300],
                "schedule_b": "enc part1, enc part2, request+FIN", "outcome_b": str(ob)[:300],
            }
            return


def g_deliveries(sid, parts, fin, lone):
    d = [(sid, c, fin and (i == len(parts) - 1) and not lone) for i, c in enumerate(parts)]
    if fin and lone:
        d.append((sid, b"", True))
    return d


# ----------------------------------------------------------------- the check
def main(tier):
    ctx = core.Ctx("C14", tier)
    tree.activate()
    from harness.impl_h3parser import H3Impl

    ctx.prove(["AQ.Props.C14"], [])
    quirks, on = g.quirk_flags()
    ctx.notes["model_quirks"] = sorted(on)
    ctx.cov["trusted_base"] = [
        "Lean 4.33.0 kernel (+ leanchecker in thorough tier)",
        "axioms: subset of {propext, Classical.choice, Quot.sound} (audited by #print axioms)",
        "hand-written model AQ.Model.H3Parser tied by differential correspondence (this run) to h3/connection.py",
        "pylsqpack, validate_* and the qlog header encoder are oracles of the model: their answers are recorded on "
        "the implementation and replayed to the model",
        "harness/impl_h3parser.py canonicalisation; CPython semantics between compared observations",
        "schedule theorems: abstract decoder AQ.Model.Qpack (`qpackOracle Q`), tied to pylsqpack by the qpack-laws "
        "section of this check (live decoder vs. model under random chunking/interleaving, laws stable/encErr/decErr)",
    ]
    ctx.assumptions = [
        "schedule_independent_stream / _streams_partial: QpackLaws — Q.dec is a function of (block, concatenation of "
        "the encoder-stream bytes) [tested on pylsqpack, section qpack-laws]; an answer other than StreamBlocked is not "
        "changed by later encoder-stream bytes [holds for a conformant peer encoder, RFC 9204 2.1.1; tested on genuine "
        "ack-free pylsqpack.Encoder output; a peer that evicts a referenced entry breaks it — see note "
        "qpack_stable_is_a_peer_obligation]; a rejected encoder/decoder stream stays rejected",
        "schedule theorems: the encoder-stream bytes are accepted (otherwise the connection closes with 0x201 at a "
        "schedule-dependent point); the link handle_event -> runM (stream table, uni-stream demultiplexer) is covered "
        "by the differential interleaving runs, not by a theorem",
        "FIN is delivered with or after the last byte of a stream (guaranteed by QuicStreamReceiver, C10)",
        "Decoder.resume_header does not raise StreamBlocked for an id feed_encoder reported unblocked",
    ]
    r = rng.make("c14")
    thorough = tier == "thorough"
    hb = header_blocks()
    ex_max = 14 if thorough else 11
    n_rand = 600 if thorough else 40
    seen_defects = {}

    # 1. single stream: every chunking must give the same normal form
    batch = g.Batch(ctx, "chunking")
    n_streams = 0
    for role in (1, 0):
        families = [(0, request_streams(hb, role))]
        if role == 1:
            families.append((3, push_streams(hb)))
            families.append((7, uni_streams()))
        else:
            families.append((2, uni_streams()))
        for sid, fam in families:
            for name, b in fam.items():
                n_streams += 1
                new_line = f"h3.new {role} 0 0 {quirks}"
                ref = None
                by_outcome = {}
                for chunks, lone in chunkings(r, b, ex_max, n_rand):
                    dl = to_deliveries(sid, chunks, lone)
                    oc, ops, outs, mlines, impl = run_deliveries(H3Impl, new_line, dl)
                    batch.add(ops, outs, mlines)
                    ctx.count((role, sid, b, tuple(chunks), lone), len(chunks) > 1 or lone)
                    if ref is None:
                        ref = (oc, dl)
                    by_outcome.setdefault(oc, dl)
                if len(by_outcome) > 1:
                    shape = g.stream_shape(b[2:] if sid == 3 and len(b) >= 2 else b) if sid in (0, 3) else "uni"
                    other = next(o for o in by_outcome if o != ref[0])
                    ctx.witness(
                        f"stream {name} ({b.hex()}) as {'client' if role else 'server'} gives different events for two "
                        f"chunkings: {ref[0]} vs {other}",
                        {"is_client": role, "stream_id": sid, "stream_bytes": b.hex(),
                         "chunking_a": [(s, d.hex(), f) for s, d, f in ref[1]], "outcome_a": ref[0],
                         "chunking_b": [(s, d.hex(), f) for s, d, f in by_outcome[other]], "outcome_b": other,
                         "distinct_outcomes": len(by_outcome)},
                        {"defect": shape})
                    seen_defects.setdefault(shape, name)
    batch.finish()
    ctx.sample({"chunking": {"stream": "H+G0", "bytes": request_streams(hb, 1)["H+G0"].hex()}})

    # 2. interleaving of several streams incl. a late encoder stream
    CTRL = bytes.fromhex("0004170150000680020000074064091040bcc0000000faceb00c")
    ENC = bytes.fromhex("023fe11f" "c0882f91d35d055cf64d66f2b12d424f4f85ee3a2d2ac1")
    BLK = bytes.fromhex("0381d1d710c111")   # needs the two inserts of ENC
    batch = g.Batch(ctx, "interleaving")
    scen = {
        "two-requests": (0, {0: g.frame(1, hb["req"]) + g.frame(0, b"abc"), 4: g.frame(1, hb["req_cl1"]) + g.frame(0, b"z"),
                             2: b"\x00" + g.frame(4, b"")}),
        "blocked-request": (0, {2: b"\x00" + g.frame(4, b""), 6: ENC, 0: g.frame(1, BLK) + g.frame(0, b"hello"),
                                4: g.frame(1, BLK)}),
        "blocked-trailers": (0, {6: ENC, 0: g.frame(1, hb["req"]) + g.frame(0, b"hello") + g.frame(1, BLK)}),
        "blocked-push-promise": (1, {3: CTRL, 7: ENC, 0: g.frame(1, hb["resp"]) + g.frame(5, b"\x02" + BLK) + g.frame(0, b"ab")}),
        "blocked-then-fin-only": (0, {6: ENC, 0: g.frame(1, BLK)}),
    }
    # the local sending side of the stream has ENDED (request sent with end_stream=True /
    # response already finished) before the peer's blocked HEADERS arrive: the stream is
    # then "done in both directions" while still waiting for the encoder stream
    ENC_R = bytes.fromhex("02" "3fe101c696d07abe941094cb6d0a08017d403971966e32ca98b46f")
    BLK_R = bytes.fromhex("0280d910")       # :status 200 + date, needs the insert of ENC_R
    scen_sent = {
        "sent-end:blocked-response": (1, ["h3.sendheaders 0 1"],
                                      {3: CTRL, 7: ENC_R, 0: g.frame(1, BLK_R) + g.frame(0, b"hello")}),
        "sent-end:blocked-response-no-body": (1, ["h3.sendheaders 0 1"], {3: CTRL, 7: ENC_R, 0: g.frame(1, BLK_R)}),
        "sent-end:blocked-trailers": (1, ["h3.sendheaders 0 0", "h3.senddata 0 1"],
                                      {3: CTRL, 7: ENC_R, 0: g.frame(1, hb["resp"]) + g.frame(0, b"ab") + g.frame(1, BLK_R)}),
        "sent-end:two-responses": (1, ["h3.sendheaders 0 1", "h3.sendheaders 4 1"],
                                   {3: CTRL, 7: ENC_R, 0: g.frame(1, BLK_R) + g.frame(0, b"x"), 4: g.frame(1, BLK_R)}),
        "sent-end:blocked-request": (0, ["h3.sendheaders 0 1"],
                                     {2: b"\x00" + g.frame(4, b""), 6: ENC, 0: g.frame(1, BLK) + g.frame(0, b"hello")}),
        "sent-end:unblocked-response": (1, ["h3.sendheaders 0 1"], {3: CTRL, 0: g.frame(1, hb["resp"]) + g.frame(0, b"ab")}),
    }
    for name, (role, pre, streams) in scen_sent.items():
        scen[name] = (role, streams, pre)
    for name, sc in scen.items():
        role, streams = sc[0], sc[1]
        pre = sc[2] if len(sc) > 2 else []
        new_line = f"h3.new {role} 0 0 {quirks}"
        ref = None
        diff = None
        n_orders = 3000 if thorough else 200
        for k in range(n_orders):
            queues = {}
            for sid, b in streams.items():
                fin = sid % 4 < 2
                if k == 0:
                    parts, lone = [b], False
                else:
                    parts = g.random_split(r, b, max_parts=r.choice([1, 2, 3, 5]), allow_empty=False)
                    lone = fin and r.random() < 0.3
                queues[sid] = g_deliveries(sid, parts, fin, lone)
            order = []
            live = sorted(queues)
            if k in (1, 2):
                # request/response streams completely (incl. FIN) BEFORE the control and
                # QPACK encoder streams: whole (k=1) / in random pieces (k=2)
                if k == 1:
                    for sid, b in streams.items():
                        queues[sid] = g_deliveries(sid, [b], sid % 4 < 2, False)
                for sid in sorted(queues, key=lambda s: (s % 4 >= 2, s)):
                    order += queues[sid]
            elif k == 0:
                # reference: unidirectional streams (encoder stream) first, then each request whole
                for sid in sorted(queues, key=lambda s: (s % 4 < 2, s)):
                    order += queues[sid]
            else:
                while live:
                    sid = r.choice(live)
                    order.append(queues[sid].pop(0))
                    if not queues[sid]:
                        live.remove(sid)
            oc, ops, outs, mlines, impl = run_deliveries(H3Impl, new_line, order, pre)
            batch.add(ops, outs, mlines)
            ctx.count((name, tuple(order)), k > 0)
            if ref is None:
                ref = (oc, order)
            elif oc != ref[0] and diff is None:
                diff = (oc, order)
        if diff is not None:
            ctx.witness(
                f"scenario {name}: events depend on how deliveries of different streams are interleaved: "
                f"{ref[0]} vs {diff[0]}",
                {"is_client": role, "local_sends_before": pre,
                 "order_a": [(s, d.hex(), f) for s, d, f in ref[1]], "outcome_a": ref[0],
                 "order_b": [(s, d.hex(), f) for s, d, f in diff[1]], "outcome_b": diff[0]},
                {"defect": name if name == "blocked-push-promise" else "interleaving:" + name})
    batch.finish()
    ctx.sample({"interleaving": {k: {str(s): b.hex() for s, b in v[1].items()} for k, v in list(scen.items())[1:2]}})

    # 3. round trip through the real sending API
    batch = g.Batch(ctx, "roundtrip")
    blocked_seen = 0
    sent_end_blocked = 0
    for k in range(6000 if thorough else 400):
        new_line, order, expected, late, pre = roundtrip_case(r, H3Impl, quirks, thorough)
        oc, ops, outs, mlines, impl = run_deliveries(H3Impl, new_line, order, pre)
        batch.add(ops, outs, mlines)
        blocked = any(" D:b" in m for m in mlines)
        blocked_seen += blocked
        sent_end_blocked += bool(blocked and pre)
        ctx.count(tuple(ops), blocked or len(order) > 6)
        problem = None
        if oc[0] != "ok":
            problem = f"receiver did not accept what the sending API produced: {oc}"
        else:
            got = g.norm_events(impl.all_events)
            for sid, exp in expected.items():
                n = got.get(sid)
                if n is None:
                    problem = f"stream {sid}: no events"
                    break
                if n["headers"] != [list(h) for h in exp["headers"]]:
                    problem = f"stream {sid}: header blocks differ: sent {exp['headers']} got {n['headers']}"
                elif n["body"] != exp["body"]:
                    problem = f"stream {sid}: body differs ({len(exp['body'])} bytes sent, {len(n['body'])} received)"
                elif n["ended"] != exp["ended"]:
                    problem = f"stream {sid}: end of stream sent={exp['ended']} received={n['ended']}"
                if problem:
                    break
        if problem:
            defect = "roundtrip"
            if oc == ("exception", "UnicodeDecodeError") and new_line.split()[2] == "1":
                defect = "qlog-header-decode"
            exp_ser = ser_expected(expected)
            ctx.witness("round trip: " + problem,
                        {"ops": ops, "impl_output": outs, "late_encoder_stream": late, "expected": exp_ser},
                        {"defect": defect})
    batch.finish()
    ctx.notes["roundtrip_cases_with_blocked_stream"] = blocked_seen
    ctx.notes["roundtrip_cases_blocked_after_local_send_ended"] = sent_end_blocked
    ctx.notes["streams_enumerated"] = n_streams

    # 3b. every identifier / length the sending API writes as a varint, at its size boundaries
    batch = g.Batch(ctx, "roundtrip-boundaries")
    nb = 0
    for name, recv_role, sent, expected in boundary_cases(r):
        for mode in (("whole", "bytes", "random") if not thorough else ("whole", "bytes", "random", "random", "random")):
            dl = boundary_deliveries(r, sent, mode)
            impl = H3Impl()
            ops = [f"h3.new {recv_role} 0 1 {quirks}"]
            ops += [f"h3.datagram {g.hx(d)}" if sid == "dgram" else f"h3.data {sid} {g.hx(d)} {1 if fin else 0}"
                    for sid, d, fin in dl]
            outs, mlines, evs, exc = [], [], [], None
            for line in ops:
                o, m = impl.step(line)
                outs.append(o)
                mlines.append(m)
                if o.startswith("err "):
                    exc = o
                    break
                if not line.startswith("h3.new"):
                    evs += impl.last_events
            batch.add(ops[: len(outs)], outs, mlines)
            ctx.count((name, mode, tuple(ops)), True)
            nb += 1
            problem = exc or (f"receiver closed the connection: {impl.q.closed}" if impl.h._is_done else None)
            if problem is None:
                problem = check_expected(g.norm_events(evs), expected)
            if problem:
                exp_ser = ser_expected(expected)
                ctx.witness(f"round trip at a varint boundary ({name}, {mode}): {problem}",
                            {"ops": ops, "impl_output": outs, "boundary_case": name, "expected": exp_ser},
                            {"defect": "roundtrip-boundary", "api": name.rsplit("-", 1)[0]})
                break
    batch.finish()
    ctx.notes["boundary_roundtrips"] = nb

    # 4. frame codec
    # 5. the QPACK decoder as the abstract parameter of the schedule theorems
    qpack_laws(ctx, rng.make("c14-qpack"), thorough)
    qp_nonconformant_note(ctx, H3Impl)

    batch = g.Batch(ctx, "frame-codec")
    case = []
    for t in [0, 1, 5, 0x21, 0x3f, 0x40, 0x41, 0x3fff, 0x4000, (1 << 30) - 1, 1 << 30, (1 << 62) - 1, 1 << 62]:
        for n in (0, 1, 63, 64, 300):
            case.append(f"h3.encframe {t} {g.hx(bytes(i % 251 for i in range(n)))}")
    for _ in range(400 if thorough else 100):
        b = bytes(r.randrange(256) for _ in range(r.randrange(0, 14)))
        case.append(f"h3.parseframe {g.hx(b)}")
        b = g.frame(r.choice([0, 1, 0x21, 0x4000, 1 << 31]), bytes(r.randrange(256) for _ in range(r.randrange(0, 70)))) + b
        case.append(f"h3.parseframe {g.hx(b)}")
    outs, mlines, impl, done = g.run_case(H3Impl, case, stop_on_err=False)
    batch.add(done, outs, mlines)
    batch.finish()

    ctx.cov["rule"] = (
        "request/push/unidirectional stream byte strings built from frames (HEADERS, DATA incl. empty/truncated, "
        "unknown/grease, PUSH_PROMISE, SETTINGS on a request stream, truncated frame headers and varints, "
        f"WEBTRANSPORT_STREAM, content-length mismatches) as client and server; ALL 2^(n-1) splittings x (FIN on last "
        f"delivery | FIN alone) for streams of <= {ex_max} bytes, {n_rand} random splittings + byte-at-a-time for "
        "longer ones; random interleavings of several streams incl. late QPACK encoder stream (blocked HEADERS, "
        "trailers, PUSH_PROMISE — also on streams whose LOCAL sending side ended first, with the whole response incl. "
        "FIN delivered before the control/encoder streams as forced orders 1 and 2; reference = encoder stream first; "
        "trailers, PUSH_PROMISE); round trips of the real send_headers/send_data output with static / literal / "
        "dynamic-table header lists under random chunking and interleaving; QPACK laws: genuine pylsqpack.Encoder "
        "timelines (capacities 220/512/4096, 3-8 header lists, repeated headers to force inserts), Q.dec evaluated on "
        "fresh decoders at random byte prefixes of the encoder stream (any chunking, any stream id, other streams "
        "pending), a live decoder driven like h3/connection.py against the qpackOracle model under random chunking "
        "and interleaving, random corrupted encoder/decoder streams. Non-trivial = more than one delivery "
        "or a lone FIN (chunking), a non-reference order (interleaving), a blocked stream or > 6 deliveries (round "
        "trip); distinct by op-sequence hash."
    )
    ctx.cov["exhaustive"] = True
    return ctx.finish()


def replay(path):
    """./check C14 --replay <file>: re-execute a recorded witness on the current tree;
    exit 1 = still failing, 0 = no longer failing"""
    import json
    tree.activate()
    from harness.impl_h3parser import H3Impl
    d = json.load(open(path))
    if d.get("kind") != "impl-witness" and any(b.get("correspondence") == "qpack-laws" for b in d.get("broken", [])):
        class _C:
            broken, notes = [], {}

            def count(self, *a):
                pass
        c = _C()
        qpack_laws(c, rng.make("c14-qpack"), False)
        for b in c.broken[:3]:
            print("VIOLATION-DETAIL pylsqpack does not satisfy the QPACK law", b.get("law"), str(b)[:400])
        print("still failing" if c.broken else "no longer failing")
        return 1 if c.broken else 0
    if d.get("kind") != "impl-witness":
        n = g.replay_broken(H3Impl, d.get("broken", []))
        print("still failing" if n else "no longer failing")
        return 1 if n else 0
    rp = d["replay"]

    def dl(lst):
        return [(s, bytes.fromhex(h), bool(f)) for s, h, f in lst]
    if "boundary_case" in rp:   # sender AND receiver are re-executed: the defect may be on either side
        rr = rng.make("c14-replay")
        problem = None
        for name, recv_role, sent, expected in boundary_cases(rr):
            if name != rp["boundary_case"]:
                continue
            for mode in ("whole", "bytes", "random"):
                impl = H3Impl()
                impl.step(f"h3.new {recv_role} 0 1 00000000")
                evs = []
                for sid, d, fin in boundary_deliveries(rr, sent, mode):
                    o, _ = impl.step(f"h3.datagram {g.hx(d)}" if sid == "dgram" else
                                     f"h3.data {sid} {g.hx(d)} {1 if fin else 0}")
                    if o.startswith("err "):
                        problem = problem or o
                        break
                    evs += impl.last_events
                if problem is None and impl.h._is_done:
                    problem = f"receiver closed the connection: {impl.q.closed}"
                problem = problem or check_expected(g.norm_events(evs), expected)
        if problem:
            print(f"VIOLATION-DETAIL round trip at a varint boundary ({rp['boundary_case']}):", problem)
        print("still failing" if problem else "no longer failing")
        return 1 if problem else 0
    if "ops" in rp:   # round trip
        impl = H3Impl()
        evs, exc = [], None
        for line in rp["ops"]:
            o, _ = impl.step(line)
            if o.startswith("err "):
                exc = o
                break
            if line.startswith("h3.data"):
                evs += impl.last_events
        got = g.norm_events(evs)
        problem = exc or (f"closed {impl.q.closed}" if impl.h._is_done else None)
        if problem is None and rp.get("expected"):
            problem = check_expected(got, deser_expected(rp["expected"]))
        if problem:
            print("VIOLATION-DETAIL round trip:", problem)
        print("still failing" if problem else "no longer failing")
        return 1 if problem else 0
    role = 1 if rp.get("is_client") else 0
    new_line = f"h3.new {role} 0 0 00000000"
    pre = rp.get("local_sends_before", [])
    a = dl(rp.get("chunking_a") or rp.get("order_a"))
    b = dl(rp.get("chunking_b") or rp.get("order_b"))
    oa = run_deliveries(H3Impl, new_line, a, pre)[0]
    ob = run_deliveries(H3Impl, new_line, b, pre)[0]
    if oa != ob:
        print("VIOLATION-DETAIL the two deliveries of the same stream bytes still give different events:")
        print("   a:", oa)
        print("   b:", ob)
        print("still failing")
        return 1
    print("no longer failing")
    return 0
