"""C03 — Handshake completes only with the authentic peer and both sides agree.

proof:   AQ.Props.C03 — negotiate / QUIC version selection laws, no common option
         => nothing selected, negotiation before any progress, transcript coverage
         of the REGENERATED handlers against the RFC 8446 order, completion =>
         VerifySig + VerifyCert + VerifyFinished (or offered PSK) for all message
         sequences; agreement / byte-flip in a symbolic model with explicit
         hypotheses (`..._partial`)
tie:     T1 regeneration (tools/extract_tls.py) + T2: negotiate / version models
         against the real functions and real connections
oracle:  real client/server QuicConnection pairs over the configuration lattice
         (both complete => same version / cipher suite / ALPN / resumption /
         secrets; no common option or bad certificate => no completion), and a
         byte-flipping man in the middle between two real tls.Context objects
"""
import itertools

from harness import core, lean, rng, tree
from checks import c11 as C11

REQUIRED = ["CLIENT_HANDSHAKE_TRAFFIC_SECRET", "SERVER_HANDSHAKE_TRAFFIC_SECRET", "CLIENT_TRAFFIC_SECRET_0",
            "SERVER_TRAFFIC_SECRET_0"]


def csv(l):
    return ",".join(str(int(x)) for x in l) if l else "-"


# ---------------------------------------------------------------- negotiation models vs code
def negotiation_corr(ctx, r, n, use_driver=True):
    from aioquic import tls
    from aioquic.quic.connection import is_version_compatible
    ops, impl = [], []
    pool = [1, 2, 3, 0x1301, 0x1302, 0x1303]
    for i in range(n):
        sup = [r.choice(pool) for _ in range(r.randrange(0, 5))]
        off = None if r.random() < 0.15 else [r.choice(pool) for _ in range(r.randrange(0, 5))]
        got = tls.negotiate(sup, off)
        raised = False
        try:
            got2 = tls.negotiate(sup, off, tls.AlertHandshakeFailure("x"))
        except tls.AlertHandshakeFailure:
            got2, raised = None, True
        if got != got2:
            ctx.witness("negotiate() with and without exc disagree", {"supported": sup, "offered": off}, {"oracle": "negotiate"})
        # "no common option" must be an error whenever the caller supplies one — also when the peer
        # did not send the list at all (offered is None)
        if raised != (got is None):
            ctx.witness(f"negotiate({sup}, {off}, exc) {'raised' if raised else 'returned ' + repr(got2)} although "
                        f"{'a common option exists' if got is not None else 'there is no common option'}",
                        {"kind": "negotiate", "supported": sup, "offered": off},
                        {"oracle": "negotiate-no-common-not-an-error", "offered_none": off is None})
        ops.append(f"tls.negotiate {csv(sup)} {'none' if off is None else csv(off)}")
        impl.append("ok " + ("none" if got is None else str(got)))
        # independent oracle: first element of supported that is offered
        want = next((c for c in sup if off is not None and c in off), None)
        if got != want:
            ctx.witness(f"negotiate({sup}, {off}) = {got}, expected the first common element {want}",
                        {"supported": sup, "offered": off}, {"oracle": "negotiate"})
        ctx.count(("neg", i), got is not None)
    vs = [0, 1, 2, 0x6B3343CF, 0xFF00001D, 0x1A2A3A4A]
    for a in vs:
        for b in vs:
            ops.append(f"tls.compat {a} {b}")
            impl.append("ok " + ("1" if is_version_compatible(a, b) else "0"))
    if not use_driver:
        return 0
    out = lean.run_driver(ops)
    bad = [(o, i, m) for o, i, m in zip(ops, impl, out) if i != m]
    for o, i, m in bad[:3]:
        ctx.disagreement("tls-negotiate", [o], m, i, 0)
    ctx.cov["traces_validated_against_impl"] += len(ops)
    return len(bad)


def version_lattice(ctx, r, thorough):
    """all ordered version lists over {v1, v2} (and an unknown version) on both sides"""
    from harness import quicpair as Q
    V1, V2, VX = Q.V1, Q.V2, 0x1A2A3A4A
    lists = [[V1], [V2], [V1, V2], [V2, V1]]
    clists = lists + ([[VX, V1], [V2, VX]] if thorough else [[VX, V1]])
    ops, impl, descs = [], [], []
    seed = 100
    for cs in clists:
        for ss in lists:
            for orig in ([None] + ([cs[-1]] if len(cs) > 1 else [])):
                seed += 1
                co = {"supported_versions": cs}
                if orig is not None:
                    co["original_version"] = orig
                res = Q.run(seed, co, {"supported_versions": ss})
                both = res.client["completed"] and res.server["completed"]
                fv = res.client["version"] if both else None
                ops.append(f"tls.final {'none' if orig is None else orig} {csv(cs)} {csv(ss)}")
                impl.append("ok " + ("none" if fv is None else str(fv)))
                descs.append((cs, ss, orig))
                ctx.count(("ver", tuple(cs), tuple(ss), orig), both)
                judge_pair(ctx, res, f"versions client={cs} original={orig} server={ss}",
                           common=bool(set(cs) & set(ss)), expect_fail=not (set(cs) & set(ss)),
                           rerun={"seed": seed, "client_options": co, "server_options": {"supported_versions": ss}})
    out = lean.run_driver(ops)
    bad = 0
    for o, i, m, d in zip(ops, impl, out, descs):
        if i != m:
            bad += 1
            if bad <= 3:
                ctx.disagreement("quic-version", [o, str(d)], m, i, 0)
    ctx.cov["traces_validated_against_impl"] += len(ops)
    return bad


def vn_corr(ctx, r, n):
    """_receive_version_negotiation_packet on a real client against vnChoice"""
    from harness import sim as simmod
    from aioquic.quic.packet import encode_quic_version_negotiation
    pool = [1, 0x6B3343CF, 0x1A2A3A4A, 0xFF00001D]
    ops, impl = [], []
    for i in range(n):
        cs = r.sample(pool, r.randrange(1, 4))
        vn = [r.choice(pool) for _ in range(r.randrange(0, 4))]
        s = simmod.Sim(500 + i, client_options={"supported_versions": cs})
        try:
            s.connect()
            c = s.client.conn
            cur = c._version
            s.pending.clear()
            pkt = encode_quic_version_negotiation(source_cid=c._peer_cid.cid, destination_cid=c.host_cid, supported_versions=vn)
            s.api(s.client, "receive_datagram", pkt, simmod.SERVER_ADDR, now=s.now)
            s.transmit(s.client)
        finally:
            s.close_taps()
        if s.client.terminated:
            got = "fail"
        elif c._version_negotiated_incompatible:
            got = f"retry {c._version}"
        else:
            got = "ignored"
        ops.append(f"tls.vn {cur} {csv(cs)} {csv(vn)}")
        impl.append("ok " + got)
        ctx.count(("vn", i), got != "ignored")
        if s.client.raised:
            ctx.witness(f"client raised on a Version Negotiation packet: {s.client.raised}", {"client": cs, "vn": vn},
                        {"oracle": "vn-raise"})
    out = lean.run_driver(ops)
    bad = [(o, i, m) for o, i, m in zip(ops, impl, out) if i != m]
    for o, i, m in bad[:3]:
        ctx.disagreement("quic-vn", [o], m, i, 0)
    ctx.cov["traces_validated_against_impl"] += len(ops)
    return len(bad)


# ---------------------------------------------------------------- oracle on connection pairs
def judge_pair(ctx, res, desc, common=True, expect_fail=False, bad_cert=None, predicted=None, rerun=None, allowed=None):
    """`allowed` = {field: values both configurations permit}: whatever an endpoint that completed
    reports must be one of them"""
    c, s = res.client, res.server
    if rerun is not None:     # everything needed to run this pair again (checks.c03.replay)
        rerun = dict(rerun, judge={"common": common, "expect_fail": expect_fail, "bad_cert": bad_cert, "predicted": predicted})
    _w = ctx.witness

    class _Ctx:               # adds the re-run recipe to every witness of this pair
        @staticmethod
        def witness(what, replay, signature=None):
            if rerun is not None:
                replay = dict(replay, kind="pair", rerun=rerun)
            _w(what, replay, signature)
    ctx = _Ctx
    if allowed:
        for side, info in (("client", c), ("server", s)):
            for k, ok in allowed.items():
                if info["completed"] and ok is not None and info[k] not in ok:
                    ctx.witness(f"{desc}: the {side} completed with {k}={info[k]!r}, which is not allowed by both "
                                f"configurations (allowed: {sorted(ok, key=str)})", {"scenario": desc, "field": k, "value": info[k]},
                                {"oracle": "negotiated-value-not-configured", "field": k, "side": side})
    for side, info in (("client", c), ("server", s)):
        if info["raised"]:
            ctx.witness(f"{desc}: {side} API raised {info['raised']}", {"scenario": desc}, {"oracle": "pair-raise", "side": side})
    if expect_fail or bad_cert:
        why = bad_cert or "no common option"
        if c["completed"] and (bad_cert or expect_fail):
            ctx.witness(f"{desc}: client reported HandshakeCompleted although {why}", {"scenario": desc, "client": c["event"]},
                        {"oracle": "completes-without-authentication" if bad_cert else "completes-without-common-option"})
        if s["completed"]:
            ctx.witness(f"{desc}: server reported HandshakeCompleted although {why}", {"scenario": desc},
                        {"oracle": "completes-without-authentication" if bad_cert else "completes-without-common-option",
                         "side": "server"})
        return
    if c["completed"] and s["completed"]:
        diffs = []
        for k in ("event", "alpn", "version", "cipher_suite", "resumed"):
            if c[k] != s[k]:
                diffs.append(f"{k}: client={c[k]!r} server={s[k]!r}")
        for lab in REQUIRED:
            if lab not in c["secrets"] or lab not in s["secrets"]:
                diffs.append(f"secret {lab} missing from a key log")
        for lab in set(c["secrets"]) & set(s["secrets"]):
            # (a client that restarted after Version Negotiation logged the secrets of both attempts:
            # the connection that completed is the last one)
            if c["secrets"][lab][-1] != s["secrets"][lab][-1]:
                diffs.append(f"secret {lab} differs")
        if c["event"] and c["event"][2] and c["secrets"].get("CLIENT_EARLY_TRAFFIC_SECRET", [None])[-1] != s["secrets"].get("CLIENT_EARLY_TRAFFIC_SECRET", [None])[-1]:
            diffs.append("early data accepted but early traffic secrets differ")
        if diffs:
            ctx.witness(f"{desc}: both endpoints completed but disagree — " + "; ".join(diffs),
                        {"scenario": desc, "client": {k: c[k] for k in ("event", "alpn", "version", "cipher_suite")},
                         "server": {k: s[k] for k in ("event", "alpn", "version", "cipher_suite")}},
                        {"oracle": "disagreement"})
        if predicted:
            for k, v in predicted.items():
                if v is not None and c[k] != v:
                    ctx.witness(f"{desc}: negotiated {k} = {c[k]!r}, the negotiation law predicts {v!r}", {"scenario": desc},
                                {"oracle": "negotiation-law", "field": k})
    elif common and not (c["completed"] or s["completed"]):
        ctx.witness(f"{desc}: configurations have common options and a valid certificate but nobody completed "
                    f"(client: {c['terminated']}, server: {s['terminated']})", {"scenario": desc}, {"oracle": "no-completion"})


BAD_CERTS = [
    ("not trusted (self-signed, unknown to the client)", {"trusted": False}),
    ("valid for another name", {"name": "example.org"}),
    ("expired", {"days": [-10, -1]}),
    ("not yet valid", {"days": [1, 10]}),
    ("presented with a private key that is not the certificate's", {"wrong_key": True}),
]


def cert_kwargs(Q, D, kind, spec):
    """quicpair.run keyword arguments for a (possibly bad) self-signed server certificate"""
    if spec.get("pem"):            # recorded leaf / key / chain / trust anchor (chain matrix)
        from cryptography import x509
        from cryptography.hazmat.primitives import serialization
        q = spec["pem"]
        return {"identity": (x509.load_pem_x509_certificate(q["leaf_pem"].encode()),
                             [x509.load_pem_x509_certificate(x.encode()) for x in q["chain_pem"]],
                             serialization.load_pem_private_key(q["leaf_key_pem"].encode(), None)),
                "trust": q["trusted_ca_pem"].encode()}
    if spec.get("ca_sans"):        # end-entity certificate for these names, signed by a throw-away CA the client trusts
        ca, ca_key = Q.make_ca()
        cert, key = Q.make_leaf(ca, ca_key, spec["ca_sans"])
        return {"identity": (cert, [], key), "trust": D.pem(ca)}
    cert, key = Q.make_cert(kind, name=spec.get("name", "localhost"), days=tuple(spec.get("days", (-1, 10))))
    if spec.get("wrong_key"):
        _, key = Q.make_cert(kind)
    kw = {"identity": (cert, [], key)}
    if spec.get("trusted", True):
        kw["trust"] = D.pem(cert)
    return kw


def first_common(pref, other):
    return next((x for x in pref if other is not None and x in other), None)


def resumption_lattice(ctx, r, thorough, seed):
    """the option lattice in the RESUMPTION dimension: a ticket obtained under one configuration is
    presented under another (every pair of cipher-suite lists incl. disjoint ones; ALPN and version
    pairs), the server's ticket store knows it / forgot it / does not exist, 0-RTT offered or not.
    Oracle: completion => every negotiated value is allowed by BOTH configurations of the second
    connection, both sides agree (also on session_resumed); no completion when they share nothing."""
    import dataclasses
    from aioquic import tls
    from harness import quicpair as Q, tlsscen as S
    CS = tls.CipherSuite
    A, B, C = CS.AES_128_GCM_SHA256, CS.AES_256_GCM_SHA384, CS.CHACHA20_POLY1305_SHA256
    default = [B, A, C]
    lists = [None, [A], [C], [B, C], [C, A]]
    n = 0
    for first in (None, [A], [C]):                # configuration of the connection that earns the ticket
        seed += 1
        seed1 = seed
        store = S.TicketStore()
        o1 = {} if first is None else {"cipher_suites": first}
        r1 = Q.run(seed, dict(o1), dict(o1), tickets=store)
        if not (r1.client["completed"] and r1.tickets):
            ctx.witness(f"no session ticket from a first connection with cipher suites {first}", {}, {"oracle": "no-ticket"})
            continue
        ticket = r1.tickets[0]
        k = 0
        for cc in lists:
            for sc in lists:
                inter = [x for x in (sc or default) if x in (cc or default)]
                stores = ["knows", "forgot", "none"] if (thorough or not inter) else [["knows", "forgot", "none"][k % 3]]
                k += 1
                for st in stores:
                    for zero_rtt in ([True, False] if thorough else [k % 2 == 0]):
                        seed += 1
                        co = {} if cc is None else {"cipher_suites": cc}
                        so = {} if sc is None else {"cipher_suites": sc}
                        tk = ticket if zero_rtt else dataclasses.replace(ticket, max_early_data_size=None)
                        tickets = store if st == "knows" else (S.TicketStore() if st == "forgot" else None)
                        res = Q.run(seed, co, so, tickets=tickets, offer_ticket=tk)
                        desc = (f"resumption lattice: ticket from cipher suites {first} (suite {int(ticket.cipher_suite)}) offered "
                                f"with client={cc} server={sc}, server ticket store {st}, 0-RTT {'on' if zero_rtt else 'off'}")
                        judge_pair(ctx, res, desc, common=bool(inter), expect_fail=not inter,
                                   predicted={"cipher_suite": int(inter[0])} if inter else None,
                                   allowed={"cipher_suite": {int(x) for x in inter}},
                                   rerun={"seed": seed, "client_options": co, "server_options": so,
                                          "resume": {"first": first, "seed1": seed1, "store": st, "zero_rtt": zero_rtt},
                                          "allowed": {"cipher_suite": sorted(int(x) for x in inter)}})
                        if res.client["completed"] and res.server["completed"] and inter:
                            want = st == "knows" and int(inter[0]) == int(ticket.cipher_suite)
                            if res.client["resumed"] != want:
                                ctx.witness(f"{desc}: session_resumed={res.client['resumed']}, expected {want}",
                                            {"scenario": desc, "expected_resumed": want}, {"oracle": "resumption", "store": st})
                        n += 1
                        ctx.count(("resume-lattice", str(first), str(cc), str(sc), st, zero_rtt), bool(inter))
        # ALPN and QUIC versions of the second connection
        for ca, sa in [(None, None), (["h3"], ["h3"]), (["hq-interop"], ["h3"]), (None, ["h3"]), (["h3"], None)]:
            seed += 1
            co = {} if ca is None else {"alpn_protocols": ca}
            so = {} if sa is None else {"alpn_protocols": sa}
            fail = sa is not None and first_common(sa, ca) is None
            res = Q.run(seed, co, so, tickets=store, offer_ticket=ticket)
            judge_pair(ctx, res, f"resumption lattice: ticket offered with ALPN client={ca} server={sa}", common=not fail,
                       expect_fail=fail, allowed=None if sa is None else {"alpn": set(sa) & set(ca or [])})
            n += 1
        for cv, sv in [([Q.V1], [Q.V1]), ([Q.V2], [Q.V1]), ([Q.V2, Q.V1], [Q.V1]), ([Q.V2], [Q.V2])]:
            seed += 1
            res = Q.run(seed, {"supported_versions": cv}, {"supported_versions": sv}, tickets=store, offer_ticket=ticket)
            both = set(cv) & set(sv)
            judge_pair(ctx, res, f"resumption lattice: ticket offered with versions client={cv} server={sv}", common=bool(both),
                       expect_fail=not both, allowed={"version": both})
            n += 1
    ctx.notes["resumption_lattice"] = n


def option_lattice(ctx, r, thorough):
    """cipher suites x ALPN x certificate type x resumption, real connections"""
    from aioquic import tls
    from harness import quicpair as Q, tlsdrive as D, tlsscen as S
    CS = tls.CipherSuite
    A, B, C = CS.AES_128_GCM_SHA256, CS.AES_256_GCM_SHA384, CS.CHACHA20_POLY1305_SHA256
    default = [B, A, C]
    cipher_lists = [None, [A], [C], [B, C], [C, A, B]]
    # None = the option is omitted entirely (no ALPN extension / no ALPN requirement)
    alpn_lists = [None, ["h3"], ["hq-interop", "h3"], ["x"]]
    seed = 1000
    # --- exhaustive pairs of cipher lists, then of ALPN lists
    for cc, sc in itertools.product(cipher_lists, cipher_lists):
        seed += 1
        co = {} if cc is None else {"cipher_suites": cc}
        so = {} if sc is None else {"cipher_suites": sc}
        want = first_common(sc or default, cc or default)
        res = Q.run(seed, co, so)
        judge_pair(ctx, res, f"cipher suites client={cc} server={sc}", common=want is not None,
                   expect_fail=want is None, predicted={"cipher_suite": None if want is None else int(want)},
                   rerun={"seed": seed, "client_options": co, "server_options": so})
        ctx.count(("cipher", str(cc), str(sc)), want is not None)
    for ca, sa in itertools.product(alpn_lists, alpn_lists):
        seed += 1
        co = {} if ca is None else {"alpn_protocols": ca}
        so = {} if sa is None else {"alpn_protocols": sa}
        if sa is None:
            want, fail = None, False          # server not configured: no ALPN is negotiated
        else:
            want = first_common(sa, ca)
            fail = want is None
        res = Q.run(seed, co, so)
        judge_pair(ctx, res, f"ALPN client={ca} server={sa}", common=not fail, expect_fail=fail,
                   predicted=None if fail or sa is None else {"alpn": want},
                   rerun={"seed": seed, "client_options": co, "server_options": so})
        if not fail and res.client["completed"] and res.client["alpn"] != want:
            ctx.witness(f"ALPN client={ca} server={sa}: negotiated {res.client['alpn']!r}, expected {want!r}",
                        {"client": ca, "server": sa}, {"oracle": "negotiation-law", "field": "alpn"})
        ctx.count(("alpn", str(ca), str(sa)), not fail)
    # --- certificate types (self-signed, trusted by the client) and bad certificates
    kinds = ["rsa", "ec256", "ec384", "ed25519", "ed448"]
    for kind in kinds:
        seed += 1
        cert, key = Q.make_cert(kind)
        res = Q.run(seed, identity=(cert, [], key), trust=D.pem(cert), lossy=thorough)
        judge_pair(ctx, res, f"{kind} certificate",
                   rerun={"seed": seed, "client_options": {}, "server_options": {}, "cert": {"kind": kind}})
        ctx.count(("cert", kind), True)
        for why, spec in BAD_CERTS:
            seed += 1
            res = Q.run(seed, **cert_kwargs(Q, D, kind, spec))
            judge_pair(ctx, res, f"{kind} certificate {why}", bad_cert=f"the certificate is {why}",
                       rerun={"seed": seed, "client_options": {}, "server_options": {}, "cert": dict(spec, kind=kind)})
            ctx.count(("badcert", kind, why), True)
    # chain certificate from the repository's test material
    seed += 1
    res = Q.run(seed, identity=D.server_identity("rsa-chain"))
    judge_pair(ctx, res, "rsa certificate with chain")
    # --- resumption / 0-RTT
    for variant in ["resume", "resume-lossy", "ticket-unknown-to-server", "ticket-other-suite"]:
        seed += 1
        st = S.TicketStore()
        r1 = Q.run(seed, tickets=st)
        judge_pair(ctx, r1, f"{variant}: first connection")
        if not r1.tickets:
            ctx.witness(f"{variant}: no session ticket was delivered", {}, {"oracle": "no-ticket"})
            continue
        seed += 1
        if variant == "ticket-unknown-to-server":
            r2 = Q.run(seed, tickets=S.TicketStore(), offer_ticket=r1.tickets[0])
            expect_resumed = False
        elif variant == "ticket-other-suite":
            r2 = Q.run(seed, server_options={"cipher_suites": [A]}, tickets=st, offer_ticket=r1.tickets[0])
            expect_resumed = False
        else:
            r2 = Q.run(seed, tickets=st, offer_ticket=r1.tickets[0], lossy=variant.endswith("lossy"))
            expect_resumed = True
        judge_pair(ctx, r2, f"{variant}: second connection")
        if r2.client["completed"] and r2.client["resumed"] != expect_resumed:
            ctx.witness(f"{variant}: session_resumed={r2.client['resumed']}, expected {expect_resumed}", {"variant": variant},
                        {"oracle": "resumption", "variant": variant})
        ctx.count(("resume", variant), True)
    resumption_lattice(ctx, r, thorough, seed + 5000)
    # --- random combinations under loss / reordering
    n = 120 if thorough else 14
    for i in range(n):
        seed += 1
        cc, sc = r.choice(cipher_lists), r.choice(cipher_lists)
        ca, sa = r.choice(alpn_lists), r.choice(alpn_lists)
        cv, sv = r.choice([[Q.V1], [Q.V2], [Q.V1, Q.V2], [Q.V2, Q.V1]]), r.choice([[Q.V1], [Q.V2], [Q.V1, Q.V2], [Q.V2, Q.V1]])
        co, so = {"supported_versions": cv}, {"supported_versions": sv}
        if cc:
            co["cipher_suites"] = cc
        if sc:
            so["cipher_suites"] = sc
        if ca:
            co["alpn_protocols"] = ca
        if sa:
            so["alpn_protocols"] = sa
        cs = first_common(sc or default, cc or default)
        al_fail = sa is not None and first_common(sa, ca) is None
        common = cs is not None and not al_fail and bool(set(cv) & set(sv))
        kind = r.choice(kinds)
        cert, key = Q.make_cert(kind)
        res = Q.run(seed, co, so, identity=(cert, [], key), trust=D.pem(cert), lossy=True)
        judge_pair(ctx, res, f"random combination #{i} ciphers={cc}/{sc} alpn={ca}/{sa} versions={cv}/{sv} cert={kind}",
                   common=common, expect_fail=not common)
        ctx.count(("combo", i), common)


# ---------------------------------------------------------------- requested name x certificate name
def same_identity(requested, san):
    """RFC 9525 / RFC 6125 reference identity match for the forms used here (no
    wildcards): an IP literal matches only an equal iPAddress SAN, a DNS name only
    an equal (case-insensitive) dNSName SAN"""
    import ipaddress

    def ip(x):
        try:
            return ipaddress.ip_address(x)
        except ValueError:
            return None
    a, b = ip(requested), ip(san)
    if a is not None or b is not None:
        return a is not None and a == b
    return requested.lower() == san.lower()


def name_matrix(ctx, thorough):
    """requested server name (IPv4 literal, IPv6 literal, DNS name) x CA-signed
    certificate for (other DNS name, other IP, matching IP, matching DNS name):
    the client completes iff the certificate is valid for the REQUESTED name"""
    from aioquic import tls
    from harness import quicpair as Q, tlsdrive as D
    ca, ca_key = Q.make_ca()
    trust = D.pem(ca)
    requested = ["192.0.2.1", "2001:db8::1", "2001:0db8:0:0:0:0:0:1", "server.example", "SERVER.example"]
    sans = ["evil.example", "192.0.2.99", "2001:db8::99", "192.0.2.1", "2001:db8::1", "server.example"]
    leaves = {n: Q.make_leaf(ca, ca_key, [n]) for n in sans}
    leaves["evil.example+192.0.2.99"] = Q.make_leaf(ca, ca_key, ["evil.example", "192.0.2.99"])
    n = 0
    for req in requested:
        for label, (cert, key) in leaves.items():
            want = any(same_identity(req, x) for x in label.split("+"))
            # ---- TLS level
            c = D.client(server_name=req, cadata=trust)
            s = D.server(ident=(cert, [], key))
            p = D.Pair(c, s)
            ce, se = p.run()
            done = c.state == tls.State.CLIENT_POST_HANDSHAKE
            n += 1
            ctx.count(("name", req, label), want)
            describe = f"requested server_name={req!r}, CA-signed certificate valid for {label.split('+')}"
            if done and not want:
                ctx.witness(f"{describe}: the client completed the handshake although the certificate is not valid for the "
                            f"requested name", {"kind": "name", "server_name": req, "certificate_sans": label.split("+"),
                                                "certificate_pem": D.pem(cert).decode(), "ca_pem": trust.decode()},
                            {"oracle": "completes-without-authentication", "level": "tls",
                             "requested": "ip-literal" if ":" in req or req[0].isdigit() else "dns-name",
                             "certificate_for": "other-ip" if (":" in label or label[0].isdigit()) else "other-dns"})
            if want and not done:
                ctx.witness(f"{describe}: the client refused a certificate that is valid for the requested name: {ce!r}",
                            {"kind": "name", "server_name": req, "certificate_sans": label.split("+")},
                            {"oracle": "valid-certificate-refused", "requested": req, "san": label})
    # ---- the same through real QUIC connections (HandshakeCompleted event)
    seed = 7000
    picks = [("192.0.2.1", "evil.example"), ("2001:db8::1", "evil.example"), ("192.0.2.1", "192.0.2.1"),
             ("2001:db8::1", "2001:db8::1"), ("server.example", "server.example"), ("server.example", "192.0.2.1"),
             ("192.0.2.1", "192.0.2.99")]
    for req, label in (picks if thorough else picks[:5]):
        seed += 1
        cert, key = leaves[label]
        res = Q.run(seed, {"server_name": req}, identity=(cert, [], key), trust=trust)
        want = same_identity(req, label)
        n += 1
        ctx.count(("name-quic", req, label), want)
        rr = {"seed": seed, "client_options": {"server_name": req}, "server_options": {},
              "cert": {"kind": "ec256", "ca_sans": [label]}}
        if want:
            judge_pair(ctx, res, f"server_name={req!r}, certificate for {label!r}", rerun=rr)
        else:
            judge_pair(ctx, res, f"server_name={req!r}, certificate for {label!r}", rerun=rr,
                       bad_cert=f"the certificate is valid for {label!r}, not for the requested name {req!r}")
    ctx.notes["name_matrix"] = n


# ---------------------------------------------------------------- who issued the presented chain
def chain_matrix(ctx, thorough):
    """certificates the SERVER puts into its Certificate message must never become
    trust anchors: the client (which trusts one CA only) completes iff the presented
    leaf chains to THAT CA and is valid for the requested name"""
    from aioquic import tls
    from harness import quicpair as Q, tlsdrive as D
    good_ca = Q.make_ca("aq trusted CA")
    good_int = Q.make_ca("aq trusted intermediate", issuer=good_ca)
    rogue_ca = Q.make_ca("aq rogue CA")
    rogue_int = Q.make_ca("aq rogue intermediate", issuer=rogue_ca)
    twin_ca = Q.make_ca("aq trusted CA")              # same subject name as the trusted CA, other key
    trust = D.pem(good_ca[0])
    L = lambda issuer, name="localhost": Q.make_leaf(issuer[0], issuer[1], [name])
    cases = [
        # (description, leaf (cert, key), chain sent, expected to complete)
        ("leaf of the trusted CA, no chain", L(good_ca), [], True),
        ("leaf of a trusted intermediate, intermediate in the chain", L(good_int), [good_int[0]], True),
        ("leaf of a trusted intermediate, intermediate and root in the chain", L(good_int), [good_int[0], good_ca[0]], True),
        ("leaf of a trusted intermediate, intermediate NOT sent", L(good_int), [], False),
        ("leaf of an untrusted CA, that CA in the chain", L(rogue_ca), [rogue_ca[0]], False),
        ("leaf of an untrusted CA, no chain", L(rogue_ca), [], False),
        ("leaf of an untrusted intermediate, intermediate and its root in the chain", L(rogue_int),
         [rogue_int[0], rogue_ca[0]], False),
        ("leaf of an untrusted intermediate, only the intermediate in the chain", L(rogue_int), [rogue_int[0]], False),
        ("leaf of an untrusted CA that carries the trusted CA's subject name, that CA in the chain", L(twin_ca),
         [twin_ca[0]], False),
        ("leaf of an untrusted CA, untrusted CA and the trusted CA in the chain", L(rogue_ca), [rogue_ca[0], good_ca[0]], False),
        ("leaf of the trusted CA for another name, untrusted CA in the chain", L(good_ca, "evil.example"), [rogue_ca[0]], False),
        ("leaf of an untrusted CA for another name, that CA in the chain", L(rogue_ca, "evil.example"), [rogue_ca[0]], False),
    ]
    n = 0
    seed = 7500
    for desc, (leaf, key), chain, want in cases:
        c = D.client(server_name="localhost", cadata=trust)
        p = D.Pair(c, D.server(ident=(leaf, list(chain), key)))
        ce, _ = p.run()
        done = c.state == tls.State.CLIENT_POST_HANDSHAKE
        n += 1
        ctx.count(("chain", desc), want)
        from cryptography.hazmat.primitives import serialization as _ser
        rec = {"kind": "chain", "case": desc, "expect_complete": want, "leaf_pem": D.pem(leaf).decode(),
               "leaf_key_pem": key.private_bytes(_ser.Encoding.PEM, _ser.PrivateFormat.PKCS8, _ser.NoEncryption()).decode(),
               "chain_pem": [D.pem(x).decode() for x in chain], "trusted_ca_pem": trust.decode(), "server_name": "localhost"}
        if done and not want:
            ctx.witness(f"client trusting only its own CA completed the handshake with a server presenting: {desc}", rec,
                        {"oracle": "completes-without-authentication", "level": "tls", "presented": "untrusted-chain"})
        if want and not done:
            ctx.witness(f"client refused a valid chain ({desc}): {ce!r}", rec, {"oracle": "valid-certificate-refused", "chain": desc})
        if thorough or not want and chain:
            # the same through real QUIC connections
            seed += 1
            res = Q.run(seed, {"server_name": "localhost"}, identity=(leaf, list(chain), key), trust=trust)
            n += 1
            rr = {"seed": seed, "client_options": {"server_name": "localhost"}, "server_options": {},
                  "cert": {"kind": "ec256", "pem": rec}}
            if want:
                judge_pair(ctx, res, f"QUIC, {desc}", rerun=rr)
            else:
                judge_pair(ctx, res, f"QUIC, {desc}", bad_cert=f"presented as: {desc}", rerun=rr)
    ctx.notes["chain_matrix"] = n


# ---------------------------------------------------------------- byte-flipping man in the middle (message level)
def exchange(D, tls, c, s, tamper, refusals=None):
    """message-by-message handshake between two real contexts; `tamper(direction,
    index, message)` may alter a message in flight.  Returns the per-direction
    message lists as SENT.  `refusals` (a list) collects every refused message that nevertheless
    changed the receiver's handshake state or traffic secrets (tlsdrive.digest, weak form)."""
    sent = {"c2s": [], "s2c": []}
    dead = {"c": False, "s": False}
    exc0, out = D.feed(c, b"")
    assert exc0 is None, exc0
    queue = [("c2s", m) for m in D.split(out)]
    steps = 0
    while queue and steps < 64:
        steps += 1
        direction, m = queue.pop(0)
        idx = len(sent[direction])
        sent[direction].append(m)
        m2 = tamper(direction, idx, m)
        dst, key, back = (s, "s", "s2c") if direction == "c2s" else (c, "c", "c2s")
        if dead[key]:
            continue
        before = D.digest(dst, strict=False) if refusals is not None else None
        exc, out = D.feed(dst, m2)
        if exc is not None:
            dead[key] = True
            if refusals is not None:
                changed = D.digest_diff(before, D.digest(dst, strict=False))
                if changed:
                    refusals.append((direction, idx, m2, repr(exc), changed))
            continue
        try:
            queue += [(back, x) for x in D.split(out)]
        except AssertionError:
            pass
    return sent


def flip_variants(tls, D, S):
    """(name, factory of a fresh (client, server) pair)"""
    store = S.ticket_store()

    def plain():
        return D.client(alpn=["h3"]), D.server(alpn=["h3"])

    def ec():
        idt = S.ident("ec256")
        return D.client(ident=idt), D.server(ident=idt)

    def client_cert():
        p = S.full_pair(tickets=False)
        return p.c, p.s

    def resumed():
        p = S.resumed_pair(store)
        return p.c, p.s

    return [("rsa+alpn", plain), ("ec256", ec), ("certificate-request", client_cert), ("resumed", resumed)]


def apply_alteration(tls, alt, m):
    """one in-flight alteration of handshake message `m`:
      ("xor", off, mask)        flip bits of one byte (offsets 0..3 are the message header)
      ("set", off, value)       overwrite one byte (value "len-1" = the byte minus one)
      ("truncate-mac", n)       Finished with verify_data cut to n bytes, header consistent
      ("truncate-binder", n)    ClientHello whose PSK binder is cut to n bytes, every length consistent"""
    kind = alt[0]
    b = bytearray(m)
    if kind == "xor":
        b[alt[1] % len(b)] ^= alt[2]
        return bytes(b)
    if kind == "set":
        off = alt[1] % len(b)
        b[off] = (b[off] - 1) % 256 if alt[2] == "len-1" else alt[2]
        return bytes(b)
    if kind == "truncate-mac":
        body = m[4:4 + alt[1]]
        return bytes([m[0]]) + len(body).to_bytes(3, "big") + body
    if kind == "truncate-binder":
        from aioquic.buffer import Buffer
        hello = tls.pull_client_hello(Buffer(data=m))
        hello.pre_shared_key.binders[0] = hello.pre_shared_key.binders[0][:alt[1]]
        out = Buffer(capacity=len(m) + 16)
        tls.push_client_hello(out, hello)
        return out.data
    raise ValueError(alt)


def flip_plan(tls, ref, r, thorough, vname):
    """alterations for one handshake variant: [(direction, message index, alteration)]"""
    FIN, CH = int(tls.HandshakeType.FINISHED), int(tls.HandshakeType.CLIENT_HELLO)
    msgs = [(d, i, m) for d in ("c2s", "s2c") for i, m in enumerate(ref[d])
            if m[0] != tls.HandshakeType.NEW_SESSION_TICKET]     # post-handshake, not one of the property's messages
    plan = []
    bits = [1 << k for k in range(8)]
    for d, i, m in msgs:
        # ---- the 4-byte message header (type, 24-bit length): every single-bit flip, all bits, and
        # overwritten values, so the declared length is both raised and lowered
        for off in range(4):
            plan += [(d, i, ("xor", off, k)) for k in bits + [0xFF]]
            plan += [(d, i, ("set", off, v)) for v in (0x00, 0x10, "len-1")]
        # ---- truncated authentication values with a consistent header: every shorter length
        if m[0] == FIN:
            plan += [(d, i, ("truncate-mac", k)) for k in range(len(m) - 4)]
        if m[0] == CH and vname == "resumed":
            plan += [(d, i, ("truncate-binder", k)) for k in range(48)]
    # ---- body bytes
    body = [(d, i, off) for d, i, m in msgs for off in range(4, len(m))]
    masks = [0x01, 0x80, 0xFF]
    if thorough:
        cand = [(d, i, ("xor", off, k)) for d, i, off in body for k in masks]
        if len(cand) > 20000:
            cand = [cand[j] for j in sorted(r.sample(range(len(cand)), 20000))]
        plan += cand
    else:
        plan += [(d, i, ("xor", off, r.choice(masks + bits))) for d, i, off in (r.choice(body) for _ in range(300))]
        for d, i, m in msgs:       # first and last body byte of every message
            if len(m) > 4:
                plan += [(d, i, ("xor", 4, 0xFF)), (d, i, ("xor", len(m) - 1, 0x80))]
    return plan


def run_alteration(tls, D, mk, d, i, alt):
    """one handshake with message (d, i) altered in flight; returns (receiver completed, message as sent, as delivered)"""
    POST = {tls.State.CLIENT_POST_HANDSHAKE, tls.State.SERVER_POST_HANDSHAKE}
    c, s = mk()
    seen = {}

    def tamper(direction, idx, m):
        if direction == d and idx == i:
            try:
                m2 = apply_alteration(tls, alt, m)
            except Exception:      # the alteration does not apply to this run's message (e.g. no PSK)
                m2 = m
            seen["sent"], seen["delivered"] = m, m2
            return m2
        return m

    refusals = []
    exchange(D, tls, c, s, tamper, refusals)
    receiver = s if d == "c2s" else c
    altered = "sent" in seen and seen["sent"] != seen["delivered"]
    run_alteration.refusals = refusals
    return (receiver.state in POST) and altered, seen.get("sent"), seen.get("delivered")


def byte_flips(ctx, r, thorough):
    """man in the middle at message level: every handshake message of four handshake shapes, in both
    directions, altered in flight — bit flips and overwritten bytes everywhere INCLUDING the 4-byte
    header (values raised and lowered), and truncated Finished verify_data / PSK binders with every
    length field consistent.  Oracle (property text): the endpoint that received an altered message
    never completes."""
    from aioquic import tls
    from harness import tlsdrive as D, tlsscen as S
    D.tap_extract()
    POST = {tls.State.CLIENT_POST_HANDSHAKE, tls.State.SERVER_POST_HANDSHAKE}
    total = blocked = 0
    for vname, mk in flip_variants(tls, D, S):
        c, s = mk()
        ref = exchange(D, tls, c, s, lambda d, i, m: m)
        if c.state not in POST or s.state not in POST:
            ctx.witness(f"byte-flip baseline ({vname}) did not complete: {c.state} {s.state}", {}, {"oracle": "baseline"})
            continue
        for d, i, alt in flip_plan(tls, ref, r, thorough, vname):
            done, sent, delivered = run_alteration(tls, D, mk, d, i, alt)
            total += 1
            ctx.count(("flip", vname, d, i, alt), True)
            for rd, ri, rm, rexc, changed in run_alteration.refusals:
                ctx.witness(f"{vname}: the receiver refused a message of type {rm[0]} ({rd}, altered by {alt}) with {rexc} but "
                            f"its {changed} changed: traffic secrets were installed / the state moved for a message that "
                            f"was not accepted",
                            {"kind": "flip", "variant": vname, "direction": d, "message_index": i, "alteration": list(alt),
                             "refused": rm.hex(), "changed": changed},
                            {"oracle": "refused-message-changes-state", "variant": vname, "type": int(rm[0])})
            if done:
                mt = sent[0]
                ctx.witness(f"{vname}: handshake message type {mt} ({d}) was altered in flight ({alt}) and the receiving "
                            f"endpoint still completed the handshake",
                            {"kind": "flip", "variant": vname, "direction": d, "message_index": i, "alteration": list(alt),
                             "message": sent.hex(), "delivered": delivered.hex()},
                            {"oracle": "byte-flip-completes", "variant": vname, "type": int(mt), "alteration": alt[0]})
            else:
                blocked += 1
    ctx.notes["byte_flips"] = {"cases": total, "blocked": blocked}


def main(tier):
    ctx = core.Ctx("C03", tier)
    ok = C11.regenerate(ctx)
    tree.activate()
    ctx.prove(["AQ.Props.C03"], [])
    ctx.cov["trusted_base"] = [
        "Lean 4.33.0 kernel (+ leanchecker in thorough tier); axioms subset of {propext, Classical.choice, Quot.sound}",
        "tools/extract_tls.py (handler action lists; cross-checked by checks/c11.py T2)",
        "AQ.Model.TlsSpec.orderSpec: hashing / authentication / key derivation order written from RFC 8446 §4.4, §7.1",
        "AQ.Model.TlsNegotiate: transcription of negotiate / is_version_compatible / version choices (T2 below)",
        "X.509 validation (OpenSSL, service_identity), signature / HMAC / HKDF primitives (cryptography): external",
        "harness/sim.py, harness/quicpair.py (virtual network, listening-socket Version Negotiation), harness/tlsdrive.py",
    ]
    ctx.assumptions = [
        "symbolic model of Finished: hash and MAC collision freedom, unforgeability, same input keying material from the "
        "same transcript, reported parameters are functions of the transcript — hypotheses of agreement_partial / "
        "byte_flip_blocks_partial (statement PARTIAL relative to the computational claim)",
        "client verifies certificates (verify_mode != CERT_NONE) for client_complete_authentic",
        "EnvOK (see C11): attribute-reading tests evaluated on handler-entry values",
    ]
    # failing-input search used when an obligation / the tie no longer checks (e.g. the extractor
    # refuses a changed negotiate()): every oracle that needs neither the generated machine nor the
    # driver — negotiate() against its law, the configuration lattice on real connections, the
    # name and chain matrices, rogue servers
    def search():
        from harness import tlsrogue
        sr = rng.make("c03-search")
        negotiation_corr(ctx, sr, 400, use_driver=False)
        option_lattice(ctx, sr, False)
        name_matrix(ctx, False)
        chain_matrix(ctx, False)
        tlsrogue.run(ctx, full=True, label="rogue-server-search")
        byte_flips(ctx, sr, False)
    ctx.search = search
    if not ok:
        return ctx.finish()
    okb, log, _ = lean.lake_build(["aqdriver"])
    if not okb:
        ctx.broken.append({"kind": "broken-tie", "tool": "lake build aqdriver", "log": log[-1500:]})
        return ctx.finish()
    thorough = tier == "thorough"
    r = rng.make("c03")
    bad = negotiation_corr(ctx, r, 4000 if thorough else 400)
    bad += vn_corr(ctx, r, 200 if thorough else 30)
    bad += version_lattice(ctx, r, thorough)
    option_lattice(ctx, r, thorough)
    name_matrix(ctx, thorough)
    chain_matrix(ctx, thorough)
    from harness import tlsrogue
    tlsrogue.run(ctx, full=True)
    byte_flips(ctx, r, thorough)
    ctx.notes["correspondence_mismatches"] = bad
    ctx.cov["rule"] = (
        "negotiate(): random lists incl. None / duplicates; is_version_compatible on a 6x6 grid; Version Negotiation on a real "
        "client with random lists; all ordered version lists over {v1,v2} (+unknown) x original_version on real connection "
        "pairs against finalVersion; all pairs of 5 cipher-suite lists and of 4 ALPN lists; 5 certificate key types each "
        "good + {untrusted, wrong name, expired, not yet valid, wrong private key}; requested name {IPv4 literal, IPv6 literal "
        "(two spellings), DNS name (two cases)} x CA-signed certificate for {other DNS, other IPv4, other IPv6, matching IPv4, "
        "matching IPv6, matching DNS, two wrong names} at TLS level + through QUIC connections; rogue server (no trusted key, "
        "no PSK) x all permutations of sub-multisets of the flight x ServerHello pre_shared_key in {absent, 0, 1} x own / "
        "victim certificate, for clients offering and not offering a PSK; chain; resumption/0-RTT accepted, ticket "
        "unknown, suite changed; random combinations under loss/reordering; byte flips (quick: PRNG sample + first/last "
        "byte of every message; thorough: every position x masks 01/80/ff, capped at 5000 per variant) of every "
        "handshake message in both directions for RSA+ALPN, EC, certificate-request and PSK handshakes")
    return ctx.finish()


def replay(path):
    """re-execute the recorded scenario of a replay file against the current tree"""
    import json
    d = json.load(open(path))
    if d.get("kind") != "impl-witness":
        print("the replay names a broken obligation / tie, nothing to execute:", json.dumps(d.get("broken", []))[:600])
        return 1
    tree.activate()
    from aioquic import tls
    from harness import quicpair as Q, tlsdrive as D, tlsrogue, tlsscen as S
    rep = d.get("replay", {})
    kind = rep.get("kind")
    ctx = core.Ctx("replay", "quick")
    if kind in ("rogue", "genuine", "rogue-content", "key-release", "refusal", "bad-cert-refusal", "binder-refusal", "quic-bad-cert-split", "quic-binder-refusal"):
        ws = tlsrogue.replay(rep)
    elif kind == "name":
        ca, ca_key = Q.make_ca()
        cert, key = Q.make_leaf(ca, ca_key, rep["certificate_sans"])
        c = D.client(server_name=rep["server_name"], cadata=D.pem(ca))
        p = D.Pair(c, D.server(ident=(cert, [], key)))
        p.run()
        done = c.state == tls.State.CLIENT_POST_HANDSHAKE
        want = any(same_identity(rep["server_name"], x) for x in rep["certificate_sans"])
        ws = [] if done == want else [{"what": f"server_name={rep['server_name']!r} certificate for {rep['certificate_sans']}: "
                                               f"client completed={done}, expected {want}"}]
    elif kind == "negotiate":
        try:
            got = tls.negotiate(rep["supported"], rep["offered"], tls.AlertHandshakeFailure("x"))
            ws = [{"what": f"negotiate({rep['supported']}, {rep['offered']}, exc) returned {got!r} instead of raising"}] \
                if got is None else []
        except tls.AlertHandshakeFailure:
            common = rep["offered"] is not None and any(x in rep["offered"] for x in rep["supported"])
            ws = [{"what": "negotiate raised although a common option exists"}] if common else []
    elif kind == "chain":
        from cryptography import x509
        from cryptography.hazmat.primitives import serialization
        leaf = x509.load_pem_x509_certificate(rep["leaf_pem"].encode())
        key = serialization.load_pem_private_key(rep["leaf_key_pem"].encode(), None)
        chain = [x509.load_pem_x509_certificate(x.encode()) for x in rep["chain_pem"]]
        c = D.client(server_name=rep["server_name"], cadata=rep["trusted_ca_pem"].encode())
        D.Pair(c, D.server(ident=(leaf, chain, key))).run()
        done = c.state == tls.State.CLIENT_POST_HANDSHAKE
        ws = [] if done == rep["expect_complete"] else [{"what": f"{rep['case']}: client completed={done}, "
                                                                 f"expected {rep['expect_complete']}"}]
    elif kind == "flip":
        D.tap_extract()
        mk = dict(flip_variants(tls, D, S))[rep["variant"]]
        alt = tuple(rep["alteration"]) if "alteration" in rep else ("xor", rep["offset"], rep["mask"])
        done, sent, delivered = run_alteration(tls, D, mk, rep["direction"], rep["message_index"], alt)
        ws = [{"what": f"{rep['variant']}: message {rep['message_index']} ({rep['direction']}) altered by {alt}; "
                       f"the receiver still completed"}] if done else []
        ws += [{"what": f"{rep['variant']}: refused message of type {rm[0]} changed {ch}"}
               for _, _, rm, _, ch in run_alteration.refusals]
    elif kind == "pair":
        rr = rep["rerun"]
        co, so = dict(rr["client_options"]), dict(rr["server_options"])
        for o in (co, so):
            if "cipher_suites" in o:
                o["cipher_suites"] = [tls.CipherSuite(x) for x in o["cipher_suites"]]
        kw = cert_kwargs(Q, D, rr["cert"]["kind"], rr["cert"]) if rr.get("cert") else {}
        if rr.get("resume"):      # first earn the ticket under the recorded configuration
            import dataclasses
            rs = rr["resume"]
            store = S.TicketStore()
            o1 = {} if rs["first"] is None else {"cipher_suites": [tls.CipherSuite(x) for x in rs["first"]]}
            r1 = Q.run(rs["seed1"], dict(o1), dict(o1), tickets=store)
            tk = r1.tickets[0] if rs["zero_rtt"] else dataclasses.replace(r1.tickets[0], max_early_data_size=None)
            kw.update(offer_ticket=tk, tickets=store if rs["store"] == "knows" else
                      (S.TicketStore() if rs["store"] == "forgot" else None))
        res = Q.run(rr["seed"], co, so, **kw)
        j = rr["judge"]
        allowed = {k: set(v) for k, v in rr.get("allowed", {}).items()} or None
        judge_pair(ctx, res, rep.get("scenario", "replay"), common=j["common"], expect_fail=j["expect_fail"],
                   bad_cert=j["bad_cert"], predicted=j["predicted"], allowed=allowed)
        ws = ctx.witnesses
    else:
        print("this witness is not re-executable on its own; re-run ./check C03 with VERIF_SEED set to the seed in the file name")
        return 2
    for w in ws:
        print("still failing:", w["what"][:400])
    if not ws:
        print("no longer failing")
    return 1 if ws else 0
