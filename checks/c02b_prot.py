"""C02b sections 1-4: tables/KDF, header protection, packet protection, Retry."""
from harness import lean

SUITES = [4865, 4866, 4867]
P62 = 1 << 62
_cache = {}


def hx(b):
    return bytes(b).hex() if len(b) else "-"


def unhx(s):
    return b"" if s == "-" else bytes.fromhex(s)


def env():
    if "rfc" not in _cache:
        from harness import rfc_prot
        from harness.impl_prot import ProtImpl
        t = rfc_prot.Tables()
        _cache["rfc"] = rfc_prot.Rfc(t)
        _cache["impl"] = ProtImpl()
    return _cache["rfc"], _cache["impl"]


def okval(line):
    return line[3:] if line.startswith("ok ") else None


def diff(ctx, name, lines, impl_out, model_out):
    from checks.c02b import diff as d
    return d(ctx, name, lines, impl_out, model_out)


# ------------------------------------------------------------ 1. tables / KDF
RFC9001_A1 = {   # client initial keys for DCID 0x8394c8f03e515708
    1: ("1f369613dd76d5467730efcbe3b1a22d", "fa044b2f42a3fd3b46fb255c", "9f50449e04a0e810283a1e9933adedd2"),
    0x6B3343CF: ("8b1a0bc121284290a29e0971b5cd045d", "91f73e2351d8fa91660e909f", "45b95e15235d6f45a6b19cbcb0294ba9"),
}
RFC_SERVER = {   # server initial keys, same DCID (RFC 9001 A.1, RFC 9369 A.1)
    1: ("cf3a5331653c364c88f0f379b6067e37", "0ac1493ca1905853b0bba03e", "c206b8d9b9f0f37644430b490eeaa314"),
    0x6B3343CF: ("82db637861d55e1d011f19ea71d5d2a7", "dd13c276499c0249d3310652", "edf6d05c83121201b436e16877593c3a"),
}
RFC_RETRY = {    # RFC 9001 A.4, RFC 9369 A.4 (ODCID 0x8394c8f03e515708)
    1: "ff000000010008f067a5502a4262b5746f6b656e04a265ba2eff4d829058fb3f0f2496ba",
    0x6B3343CF: "cf6b3343cf0008f067a5502a4262b5746f6b656ec8646ce8bfe33952d955543665dcc7b6",
}
DCID = bytes.fromhex("8394c8f03e515708")


def section_tables_and_kdf(ctx, tier, r):
    rfc, impl = env()
    from aioquic.quic import crypto as qc
    from aioquic.tls import CipherSuite
    thorough = tier == "thorough"
    # RFC appendix vectors against the independent implementation (validates the
    # hand-written Lean spec tables + harness KDF) and against aioquic
    for v in (rfc.t.v1, rfc.t.v2):
        cs, ss = rfc.initial_secrets(v, DCID)
        for who, secret, want in (("client", cs, RFC9001_A1[v]), ("server", ss, RFC_SERVER[v])):
            got = tuple(x.hex() for x in rfc.keys(rfc.t.initial_suite, v, secret))
            ctx.count(("kdf-vector", v, who), True)
            if got != want:
                ctx.broken.append({"kind": "broken-correspondence", "correspondence": "rfc-vectors",
                                   "error": f"independent KDF/spec tables disagree with the RFC appendix vector v={v:#x} {who}: {got}"})
            pair = qc.CryptoPair()
            pair.setup_initial(cid=DCID, is_client=(who == "client"), version=v)
            k, i, h = qc.derive_key_iv_hp(cipher_suite=qc.INITIAL_CIPHER_SUITE, secret=pair.send.secret, version=v)
            if (k.hex(), i.hex(), h.hex()) != want:
                ctx.witness(f"setup_initial/derive_key_iv_hp disagree with the RFC appendix vector (v={v:#x}, {who})",
                            {"version": v, "who": who, "got": [k.hex(), i.hex(), h.hex()], "want": want},
                            {"oracle": "kdf-vector", "version": v})
    # random secrets: derive_key_iv_hp and next_key_phase against the independent KDF
    n = 300 if not thorough else 5000
    for j in range(n):
        suite = SUITES[j % 3]
        v = (rfc.t.v1, rfc.t.v2)[(j // 3) % 2]
        hlen = 48 if suite == 4866 else 32
        secret = bytes(r.randrange(256) for _ in range(hlen))
        got = qc.derive_key_iv_hp(cipher_suite=CipherSuite(suite), secret=secret, version=v)
        want = rfc.keys(suite, v, secret)
        ctx.count(("kdf", suite, v, secret), True)
        if tuple(got) != tuple(want):
            ctx.witness("derive_key_iv_hp differs from RFC 9001 §5.1 / RFC 9369 §3.3.1 key derivation",
                        {"suite": suite, "version": v, "secret": secret.hex(), "got": [x.hex() for x in got],
                         "want": [x.hex() for x in want]}, {"oracle": "kdf", "version": v})
        c = qc.CryptoContext()
        c.setup(cipher_suite=CipherSuite(suite), secret=secret, version=v)
        nxt = qc.next_key_phase(c)
        want_secret = rfc.next_secret(suite, v, secret)
        if nxt.secret != want_secret or nxt.key_phase != 1:
            ctx.witness("next_key_phase derives the updated secret with a label other than RFC 9001 §6.1 "
                        "\"quic ku\" / RFC 9369 §3.3.1 \"quicv2 ku\"",
                        {"suite": suite, "version": v, "secret": secret.hex(), "got": nxt.secret.hex(),
                         "want": want_secret.hex()}, {"oracle": "key-update-label", "version": v})
    ctx.sample({"kdf": "derive_key_iv_hp/next_key_phase vs RFC 8446 §7.1 HKDF-Expand-Label, labels from Lean spec"})


# ------------------------------------------------------- 2. header protection
def hp_key(r, suite, rfc):
    return bytes(r.randrange(256) for _ in range(rfc.t.suites[suite][2]))


def gen_header(r, pn_len, long_hdr, length):
    fb = (r.randrange(256) & 0x7C) | (0x80 if long_hdr else 0) | (pn_len - 1)
    return bytes([fb]) + bytes(r.randrange(256) for _ in range(length - 1))


def section_header_protection(ctx, tier, r):
    rfc, impl = env()
    thorough = tier == "thorough"
    cases = []   # (suite, hpkey, hdr, payload)
    for suite in SUITES:
        for pn_len in (1, 2, 3, 4):
            for long_hdr in (False, True):
                hl_set = {pn_len, pn_len + 1, 9 + pn_len, 64} if not thorough else set(range(pn_len, 66))
                for hl in sorted(hl_set):
                    for pl in (0, 15, 19 - pn_len, 20 - pn_len, 21, 1200, 1500 - hl, 1501 - hl):
                        hdr = gen_header(r, pn_len, long_hdr, hl)
                        cases.append((suite, hp_key(r, suite, rfc), hdr, bytes(r.randrange(256) for _ in range(pl))))
    for _ in range(300 if not thorough else 6000):
        suite = r.choice(SUITES)
        pn_len = r.randrange(1, 5)
        hl = r.randrange(0, 70)
        hdr = gen_header(r, pn_len, r.random() < 0.5, hl) if hl else b""
        pl = r.choice([r.randrange(0, 60), r.randrange(0, 1600)])
        cases.append((suite, hp_key(r, suite, rfc), hdr, bytes(r.randrange(256) for _ in range(pl))))
    cases.append((4865, bytes(16), bytes(1501), bytes(20)))
    # apply
    samples = [unhx(okval(o)) for o in lean.run_driver([f"prot.q.sample {hx(h)} {hx(p)}" for _, _, h, p in cases])]
    lines = []
    for (suite, key, hdr, pl), s in zip(cases, samples):
        m = rfc.mask(suite, key, s)
        lines.append(f"prot.apply {rfc.t.suites[suite][0]} {hx(key)} {hx(hdr)} {hx(pl)} | {hx(s)} {hx(m)}")
    io = [impl.step(l) for l in lines]
    mo = lean.run_driver(lines)
    diff(ctx, "hp-apply", lines, io, mo)
    # remove: genuine packets at the genuine offset, at neighbouring / extreme offsets, and random bytes
    rcases = []
    for (suite, key, hdr, pl), o in zip(cases, io):
        if not o.startswith("ok "):
            ctx.count(("hp-apply-err", len(hdr), len(pl)), False)
            continue
        pkt = unhx(okval(o))
        pn_len = (hdr[0] & 3) + 1
        off = len(hdr) - pn_len
        rcases.append((suite, key, pkt, off, hdr))
        x = r.random()
        if x < 0.25:
            rcases.append((suite, key, pkt, r.choice([0, off + 1, max(0, off - 1), len(pkt) - 20, max(0, len(pkt) - 19), 1496, 1497, 5000]), None))
        elif x < 0.35:
            rcases.append((suite, key, bytes(r.randrange(256) for _ in range(r.randrange(0, 80))), r.randrange(0, 70), None))
    samples = [unhx(okval(o)) for o in lean.run_driver([f"prot.q.rsample {hx(p)} {off}" for _, _, p, off, _ in rcases])]
    lines = []
    for (suite, key, pkt, off, _), s in zip(rcases, samples):
        m = rfc.mask(suite, key, s)
        lines.append(f"prot.remove {rfc.t.suites[suite][0]} {hx(key)} {hx(pkt)} {off} | {hx(s)} {hx(m)}")
    io = [impl.step(l) for l in lines]
    mo = lean.run_driver(lines)
    diff(ctx, "hp-remove", lines, io, mo)
    # oracle from the property text: the peer recovers the header bit-exactly
    for (suite, key, pkt, off, hdr), o, l in zip(rcases, io, lines):
        if hdr is None:
            ctx.count(("hp-remove-other", l), o.startswith("err"))
            continue
        pn_len = (hdr[0] & 3) + 1
        want = f"ok {hx(hdr)} {int.from_bytes(hdr[-pn_len:], 'big')}"
        degenerate = len(hdr) == pn_len     # first byte is itself a packet-number byte: not a QUIC header
        ctx.count(("hp-roundtrip", l), not degenerate)
        if o != want and not degenerate:
            ctx.witness(f"HeaderProtection.remove(apply(header, payload)) != (header, truncated pn): got {o[:80]!r}",
                        {"op": l, "impl_output": o, "expected": want},
                        {"oracle": "hp-roundtrip", "pn_len": pn_len, "signed": o.split()[-1].startswith("-")})
    ctx.sample({"hp-apply": lines[0][:160]})


# ------------------------------------------------------- 3. packet protection
PN_EDGES = [0, 1, 127, 128, 255, 256, 32767, 32768, 65535, 65536, (1 << 24) - 1, 1 << 24, (1 << 31) - 1, 1 << 31,
            (1 << 32) - 1, 1 << 32, (1 << 32) + (1 << 31) + 1, (1 << 40) + 0x80000000, P62 - 1]


def gen_prot_cases(r, rfc, n_random, thorough):
    """a receiving context (suite, version, secret, key phase) and a packet its
    peer sends: with the same keys, or — short header only — after a key update"""
    cases = []

    def add(suite, v, pn_len, long_hdr, update, pn, plen, hlen=None):
        hlen = hlen or (r.choice([pn_len + 1, pn_len + 8, pn_len + 20]) if not long_hdr else r.randrange(pn_len + 7, 50))
        hash_len = 48 if suite == 4866 else 32
        secret = bytes(r.randrange(256) for _ in range(hash_len))
        kp = r.randrange(2)
        hdr = bytearray(gen_header(r, pn_len, long_hdr, hlen))
        send_secret = secret
        if not long_hdr:
            bit = kp ^ (1 if update else 0)
            hdr[0] = (hdr[0] & ~4 & 0xFF) | (bit << 2)
            if update:
                send_secret = rfc.next_secret(suite, v, secret)
        hdr[-pn_len:] = (pn % (1 << (8 * pn_len))).to_bytes(pn_len, "big")
        key, iv, hp = rfc.keys(suite, v, send_secret)
        if update and not long_hdr:
            hp = rfc.keys(suite, v, secret)[2]       # the header-protection key is not updated (RFC 9001 §6)
        plain = bytes(r.randrange(256) for _ in range(plen))
        cases.append(dict(suite=suite, v=v, secret=secret, kp=kp, update=update and not long_hdr, hdr=bytes(hdr),
                          plain=plain, pn=pn, key=key, iv=iv, hp=hp, pn_len=pn_len))

    for suite in SUITES:
        for v in (rfc.t.v1, rfc.t.v2):
            for pn_len in (1, 2, 3, 4):
                for long_hdr, update in ((True, False), (False, False), (False, True)):
                    for pn in (PN_EDGES if (thorough or pn_len == 4) else r.sample(PN_EDGES, 5)):
                        add(suite, v, pn_len, long_hdr, update, pn, r.choice([4 - pn_len, 5, 30, 1200]))
                    hl = 30
                    for plen in (0, 3 - pn_len if pn_len < 4 else 0, 4 - pn_len, 1484 - hl, 1485 - hl, 1484, 1485):
                        add(suite, v, pn_len, long_hdr, update, r.randrange(1 << 20), plen, hlen=hl)
    for _ in range(n_random):
        pn_len = r.randrange(1, 5)
        long_hdr = r.random() < 0.4
        pn = r.choice([r.randrange(1 << 16), r.randrange(1 << 32), r.randrange(P62)])
        add(r.choice(SUITES), r.choice([rfc.t.v1, rfc.t.v2]), pn_len, long_hdr, r.random() < 0.4, pn,
            r.choice([r.randrange(0, 40), r.randrange(0, 1500)]))
    return cases


def section_packet_protection(ctx, tier, r):
    rfc, impl = env()
    thorough = tier == "thorough"
    cases = gen_prot_cases(r, rfc, 300 if not thorough else 5000, thorough)
    # --- send side: the Lean pipeline (+ independent primitives) against encrypt_packet
    nonces = [unhx(okval(o)) for o in lean.run_driver([f"prot.q.nonce {hx(c['iv'])} {c['pn']}" for c in cases])]
    for c, n in zip(cases, nonces):
        c["nonce"] = n
        c["sealed"] = rfc.seal(c["suite"], c["key"], n, c["hdr"], c["plain"])
    samples = [unhx(okval(o)) for o in lean.run_driver([f"prot.q.sample {hx(c['hdr'])} {hx(c['sealed'])}" for c in cases])]
    lines = []
    for c, s in zip(cases, samples):
        m = rfc.mask(c["suite"], c["hp"], s)
        lines.append(f"prot.encrypt {c['suite']} {hx(c['key'])} {hx(c['iv'])} {hx(c['hp'])} {hx(c['hdr'])} {hx(c['plain'])} "
                     f"{c['pn']} | {hx(n := c['nonce'])} {hx(c['sealed'])} {hx(s)} {hx(m)}")
    io = [impl.step(l) for l in lines]
    mo = lean.run_driver(lines)
    diff(ctx, "encrypt-packet", lines, io, mo)
    ctx.sample({"encrypt": lines[3][:200]})
    # --- receive side: genuine packet (built by the Lean pipeline), then one altered bit
    dcases = []
    for c, o in zip(cases, mo):
        if not o.startswith("ok "):
            ctx.count(("encrypt-err", c["pn_len"], len(c["hdr"]), len(c["plain"])), False)
            continue
        pkt = unhx(okval(o))
        half = 1 << (8 * c["pn_len"] - 1)
        # expected packet number inside the window (expected - half, expected + half]
        lo = max(0, c["pn"] - half)
        hi = min(P62 - 1, c["pn"] + half - 1)
        exp = r.choice([c["pn"], lo, hi, r.randrange(lo, hi + 1)])
        dcases.append(dict(c, pkt=pkt, off=len(c["hdr"]) - c["pn_len"], exp=exp, genuine=True))
        bit = r.randrange(len(pkt) * 8)
        alt = bytearray(pkt)
        alt[bit // 8] ^= 1 << (bit % 8)
        dcases.append(dict(c, pkt=bytes(alt), off=len(c["hdr"]) - c["pn_len"], exp=exp, genuine=False, bit=bit))
        if r.random() < 0.1 and c["pn"] + 2 * half + 5 < P62:   # outside the window: must not be recovered as this packet
            dcases.append(dict(c, pkt=pkt, off=len(c["hdr"]) - c["pn_len"],
                               exp=min(P62 - 1, c["pn"] + 2 * half + 5), genuine=None))
    samples = [unhx(okval(o)) for o in lean.run_driver([f"prot.q.rsample {hx(d['pkt'])} {d['off']}" for d in dcases])]
    qlines = []
    for d, s in zip(dcases, samples):
        d["sample"] = s
        d["rk"] = rfc.keys(d["suite"], d["v"], d["secret"])
        d["nk"] = rfc.keys(d["suite"], d["v"], rfc.next_secret(d["suite"], d["v"], d["secret"]))
        d["mask"] = rfc.mask(d["suite"], d["rk"][2], s)
        qlines.append(f"prot.q.remove {hx(d['pkt'])} {d['off']} {hx(s)} {hx(d['mask'])} {d['exp']} {hx(d['rk'][1])} {hx(d['nk'][1])} {d['kp']}")
    qo = lean.run_driver(qlines)
    lines = []
    for d, o in zip(dcases, qo):
        use_key, nonce, ans = d["rk"][0], b"", None
        if o.startswith("ok "):
            kv = dict(t.split("=", 1) for t in o[3:].split())
            use_key = d["nk"][0] if kv["next"] == "1" else d["rk"][0]
            nonce = unhx(kv["nonce"])
            ct = unhx(kv["ct"])
            ans = rfc.open(d["suite"], use_key, nonce, unhx(kv["hdr"]), ct) if len(ct) >= 16 else None
        lines.append(f"prot.decrypt {d['suite']} {d['v']} {hx(d['secret'])} {d['kp']} {hx(d['pkt'])} {d['off']} {d['exp']} | "
                     f"{hx(d['rk'][0])} {hx(d['rk'][1])} {hx(d['rk'][2])} {hx(d['nk'][0])} {hx(d['nk'][1])} "
                     f"{hx(d['sample'])} {hx(d['mask'])} {hx(use_key)} {hx(nonce)} {'none' if ans is None else hx(ans)}")
    io = [impl.step(l) for l in lines]
    mo = lean.run_driver(lines)
    diff(ctx, "decrypt-packet", lines, io, mo)
    ctx.sample({"decrypt": lines[0][:200]})
    # oracle from the property text
    for d, o, l in zip(dcases, io, lines):
        if d["pn_len"] == 4 and d["pn"] & 0x80000000:
            cls = "pn4-bit31"          # HeaderProtection.remove returned a negative truncated pn
        elif d["update"] and d["v"] == rfc.t.v2:
            cls = "v2-key-update"      # next_key_phase label
        else:
            cls = "other"
        sig = {"oracle": "protect-roundtrip", "class": cls}
        if d["genuine"] is True:
            want = f"ok hdr={hx(d['hdr'])} payload={hx(d['plain'])} pn={d['pn']} upd={1 if d['update'] else 0}"
            ctx.count(("roundtrip", l), True)
            if o != want:
                ctx.witness("a genuine packet protected per RFC 9001/9369 (independent implementation) is not "
                            f"recovered bit-exactly by CryptoContext.decrypt_packet: got {o[:60]!r}",
                            {"op": l.split(" | ")[0], "impl_output": o, "expected": want, "case": {k: (v.hex() if isinstance(v, bytes) else v) for k, v in d.items() if k in ("suite", "v", "pn", "exp", "kp", "update", "pn_len")}},
                            sig)
        elif d["genuine"] is False:
            ctx.count(("altered", l), True)
            if not o.startswith("err CryptoError"):
                ctx.witness(f"a packet with bit {d['bit']} altered after protection is accepted: {o[:80]!r}",
                            {"op": l.split(" | ")[0], "impl_output": o}, {"oracle": "altered-accepted"})
        else:
            ctx.count(("out-of-window", l), False)
            if o.startswith("ok ") and f"pn={d['pn']} " in o:
                ctx.witness("packet number recovered although expected is outside the window", {"op": l.split(" | ")[0]},
                            {"oracle": "window", "class": "pn4-bit31" if d["pn_len"] == 4 and d["pn"] & 0x80000000 else "other"})
    no = impl.step("prot.decrypt.nokey 00 1 0")
    mo1 = lean.run_driver(["prot.decrypt.nokey 00 1 0"])
    diff(ctx, "decrypt-nokey", ["prot.decrypt.nokey 00 1 0"], [no], mo1)


# ------------------------------------------------------------------- 4. Retry
def section_retry(ctx, tier, r):
    rfc, impl = env()
    from aioquic.quic.packet import encode_quic_retry
    thorough = tier == "thorough"
    cases = []   # (odcid, packet, genuine)
    for v in (rfc.t.v1, rfc.t.v2):
        cases.append((DCID, bytes.fromhex(RFC_RETRY[v]), True))
    for _ in range(60 if not thorough else 1500):
        v = r.choice([rfc.t.v1, rfc.t.v2])
        odcid = bytes(r.randrange(256) for _ in range(r.randrange(0, 21)))
        pkt = encode_quic_retry(version=v, source_cid=bytes(r.randrange(256) for _ in range(r.randrange(0, 21))),
                                destination_cid=bytes(r.randrange(256) for _ in range(8)),
                                original_destination_cid=odcid,
                                retry_token=bytes(r.randrange(256) for _ in range(r.randrange(0, 60))),
                                unused=r.randrange(16))
        cases.append((odcid, pkt, True))
        for _ in range(4):
            alt = bytearray(pkt)
            # keep the version and type bits: other values are not Retry packets of a supported version
            pos = r.choice([i for i in range(len(pkt)) if not 1 <= i <= 4 and i != 5 and i != 6 + pkt[5]])
            mask = r.choice([1 << r.randrange(8), 0xFF])
            if pos == 0:
                mask &= 0x0F
                mask = mask or 1
            alt[pos] ^= mask
            cases.append((odcid, bytes(alt), False))
        cases.append((odcid[:-1] if odcid else b"\x00", pkt, False))
    ps = [unhx(okval(o)) for o in lean.run_driver([f"prot.q.pseudo {hx(o)} {hx(p)}" for o, p, _ in cases])]
    lines = []
    for (odcid, pkt, _), pseudo in zip(cases, ps):
        v = int.from_bytes(pkt[1:5], "big")
        lines.append(f"prot.retry {v} {hx(odcid)} {hx(pkt)} | {hx(rfc.retry_tag(v, pseudo))}")
    io = [impl.step(l) for l in lines]
    mo = lean.run_driver(lines)
    diff(ctx, "retry-tag", lines, io, mo)
    for (odcid, pkt, genuine), o, l in zip(cases, io, lines):
        ctx.count(("retry", l), True)
        if o != ("ok 1" if genuine else "ok 0"):
            ctx.witness(("genuine Retry rejected" if genuine else "altered Retry accepted") + f": {o}",
                        {"op": l.split(" | ")[0], "impl_output": o}, {"oracle": "retry-tag", "genuine": genuine})
    ctx.sample({"retry": lines[0][:160]})


# ------------------------------------- 5. sequences on ONE live object per key
def _flip(b, i, m=0x5A):
    b = bytearray(b)
    b[i] ^= m
    return bytes(b)


def _hp_lines(rfc, kind, suite, key, items):
    """items: (hdr, payload) for apply, (packet, off) for remove -> op lines with the independent mask"""
    if kind == "apply":
        qs = [f"prot.q.sample {hx(h)} {hx(p)}" for h, p in items]
    else:
        qs = [f"prot.q.rsample {hx(p)} {o}" for p, o in items]
    samples = [unhx(okval(o)) for o in lean.run_driver(qs)]
    name = rfc.t.suites[suite][0]
    out = []
    for (a, b), s in zip(items, samples):
        m = rfc.mask(suite, key, s)
        out.append(f"prot.{kind} {name} {hx(key)} {hx(a)} {b if kind == 'remove' else hx(b)} | {hx(s)} {hx(m)}")
    return out


def section_live_sequences(ctx, tier, r):
    """State carried inside a HeaderProtection / CryptoContext object between calls
    must not matter: consecutive calls on ONE object whose 16-byte samples are
    equal, differ in one byte (each of the 16 positions), in bytes 0..3 only, in
    bytes 4..15 only, are each compared with the independent implementation, and
    a genuine packet must be recovered right after an altered copy of it."""
    rfc, impl = env()
    thorough = tier == "thorough"
    for suite in SUITES:
        key = hp_key(r, suite, rfc)
        pn_len = 2
        hdr = gen_header(r, pn_len, False, 11)
        off = len(hdr) - pn_len
        base = bytes(r.randrange(256) for _ in range(40))
        s0 = 4 - pn_len                                   # sample = payload[s0 : s0 + 16]
        variants = [base] + [_flip(base, s0 + j) for j in range(16)]
        variants.append(bytes(b ^ (0xFF if s0 <= i < s0 + 4 else 0) for i, b in enumerate(base)))     # bytes 0..3 only
        variants.append(bytes(b ^ (0xFF if s0 + 4 <= i < s0 + 16 else 0) for i, b in enumerate(base)))  # bytes 4..15 only
        seq = []
        for v in variants[1:]:
            seq += [base, v, base, v, v]
        for _ in range(100 if not thorough else 3000):
            seq.append(r.choice(variants))
        lines = _hp_lines(rfc, "apply", suite, key, [(hdr, p) for p in seq])
        io = [impl.step(l) for l in lines]
        mo = lean.run_driver(lines)
        diff(ctx, f"hp-apply-live-{suite}", lines, io, mo)
        for l, a, b in zip(lines, io, mo):
            ctx.count(("hp-live", l), True)
            if a != b:
                ctx.witness("HeaderProtection.apply on a live object differs from an independent RFC 9001 §5.4 computation "
                            "(result depends on an earlier call)", {"ops_on_one_object": lines[:lines.index(l) + 1][-6:],
                            "impl_output": a, "expected": b}, {"oracle": "hp-live-sequence", "suite": suite, "op": "apply"})
                break
        # remove: genuine packet, a copy altered in one sample byte, the genuine packet again …
        pk = {p: unhx(okval(o)) for p, o in zip(seq, mo) if o.startswith("ok ")}
        x = pk[base]
        rseq = []
        for j in range(16):
            rseq += [pk[variants[1 + (j + 5) % 16]], _flip(x, off + 4 + j, 1 << (j % 8)), x]
        for _ in range(100 if not thorough else 3000):
            y = r.choice(list(pk.values()))
            rseq.append(r.choice([y, _flip(y, off + 4 + r.randrange(16), 1 << r.randrange(8)), _flip(y, r.randrange(len(y)))]))
        lines = _hp_lines(rfc, "remove", suite, key, [(p, off) for p in rseq])
        io = [impl.step(l) for l in lines]
        mo = lean.run_driver(lines)
        diff(ctx, f"hp-remove-live-{suite}", lines, io, mo)
        want = f"ok {hx(hdr)} {int.from_bytes(hdr[-pn_len:], 'big')}"
        for k, (p, l, a, b) in enumerate(zip(rseq, lines, io, mo)):
            ctx.count(("hp-live", l), True)
            if a != b or (p == x and a != want):
                ctx.witness("HeaderProtection.remove on a live object: the genuine packet is not unmasked correctly right after "
                            "another packet / an altered copy (result depends on an earlier call)",
                            {"ops_on_one_object": lines[max(0, k - 3):k + 1], "impl_output": a, "expected": b},
                            {"oracle": "hp-live-sequence", "suite": suite, "op": "remove"})
                break
    ctx.sample({"hp-live": "per suite: apply/remove sequences on one HeaderProtection object, samples equal / one byte / 0..3 / 4..15 apart"})
    # one live receiving CryptoContext per (suite, version): other packet, altered copy, genuine packet
    cases = []
    for suite in SUITES:
        for v in (rfc.t.v1, rfc.t.v2):
            secret = bytes(r.randrange(256) for _ in range(48 if suite == 4866 else 32))
            key, iv, hp = rfc.keys(suite, v, secret)
            for pn in range(4):
                hdr = bytearray(gen_header(r, 2, False, 11))
                hdr[0] &= ~4 & 0xFF
                hdr[-2:] = pn.to_bytes(2, "big")
                cases.append(dict(suite=suite, v=v, secret=secret, kp=0, hdr=bytes(hdr), pn=pn, key=key, iv=iv, hp=hp,
                                  plain=bytes(r.randrange(256) for _ in range(30))))
    nonces = [unhx(okval(o)) for o in lean.run_driver([f"prot.q.nonce {hx(c['iv'])} {c['pn']}" for c in cases])]
    for c, n in zip(cases, nonces):
        c["nonce"], c["sealed"] = n, rfc.seal(c["suite"], c["key"], n, c["hdr"], c["plain"])
    samples = [unhx(okval(o)) for o in lean.run_driver([f"prot.q.sample {hx(c['hdr'])} {hx(c['sealed'])}" for c in cases])]
    lines = [f"prot.encrypt {c['suite']} {hx(c['key'])} {hx(c['iv'])} {hx(c['hp'])} {hx(c['hdr'])} {hx(c['plain'])} {c['pn']} | "
             f"{hx(c['nonce'])} {hx(c['sealed'])} {hx(s)} {hx(rfc.mask(c['suite'], c['hp'], s))}" for c, s in zip(cases, samples)]
    io = [impl.step(l) for l in lines]
    mo = lean.run_driver(lines)
    diff(ctx, "encrypt-live", lines, io, mo)
    dseq = []
    for g in range(0, len(cases), 4):
        grp = [dict(c, pkt=unhx(okval(o))) for c, o in zip(cases[g:g + 4], mo[g:g + 4])]
        for j in range(16):
            a, b = grp[j % 4], grp[(j + 1) % 4]
            dseq += [dict(b, genuine=True), dict(a, pkt=_flip(a["pkt"], 9 + 4 + j, 1 << (j % 8)), genuine=False), dict(a, genuine=True)]
    lines = _decrypt_lines(rfc, dseq)
    io = [impl.step(l) for l in lines]
    mo = lean.run_driver(lines)
    diff(ctx, "decrypt-live", lines, io, mo)
    for k, (d, l, a) in enumerate(zip(dseq, lines, io)):
        ctx.count(("decrypt-live", l), True)
        want = f"ok hdr={hx(d['hdr'])} payload={hx(d['plain'])} pn={d['pn']} upd=0"
        if (d["genuine"] and a != want) or (not d["genuine"] and not a.startswith("err CryptoError")):
            ctx.witness(("the genuine packet is not recovered by a live CryptoContext right after an altered copy was rejected"
                         if d["genuine"] else "altered packet accepted") + f": {a[:60]!r}",
                        {"ops_on_one_context": [x.split(" | ")[0] for x in lines[max(0, k - 2):k + 1]], "impl_output": a,
                         "expected": want if d["genuine"] else "err CryptoError"},
                        {"oracle": "decrypt-live-sequence", "suite": d["suite"]})
            break


def _decrypt_lines(rfc, dcases):
    """`prot.decrypt` lines (same key phase, pn length 2, offset 9) with the independent answers"""
    samples = [unhx(okval(o)) for o in lean.run_driver([f"prot.q.rsample {hx(d['pkt'])} 9" for d in dcases])]
    ql = []
    for d, s in zip(dcases, samples):
        d["sample"], d["rk"] = s, rfc.keys(d["suite"], d["v"], d["secret"])
        d["nk"] = rfc.keys(d["suite"], d["v"], rfc.next_secret(d["suite"], d["v"], d["secret"]))
        d["mask"] = rfc.mask(d["suite"], d["rk"][2], s)
        ql.append(f"prot.q.remove {hx(d['pkt'])} 9 {hx(s)} {hx(d['mask'])} {d['pn']} {hx(d['rk'][1])} {hx(d['nk'][1])} {d['kp']}")
    lines = []
    for d, o in zip(dcases, lean.run_driver(ql)):
        use_key, nonce, ans = d["rk"][0], b"", None
        if o.startswith("ok "):
            kv = dict(t.split("=", 1) for t in o[3:].split())
            use_key = d["nk"][0] if kv["next"] == "1" else d["rk"][0]
            nonce, ct = unhx(kv["nonce"]), unhx(kv["ct"])
            ans = rfc.open(d["suite"], use_key, nonce, unhx(kv["hdr"]), ct) if len(ct) >= 16 else None
        lines.append(f"prot.decrypt {d['suite']} {d['v']} {hx(d['secret'])} {d['kp']} {hx(d['pkt'])} 9 {d['pn']} | "
                     f"{hx(d['rk'][0])} {hx(d['rk'][1])} {hx(d['rk'][2])} {hx(d['nk'][0])} {hx(d['nk'][1])} "
                     f"{hx(d['sample'])} {hx(d['mask'])} {hx(use_key)} {hx(nonce)} {'none' if ans is None else hx(ans)}")
    return lines
