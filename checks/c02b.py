"""C02 (packet protection clauses) — only authentic packets are accepted;
altered packets change nothing.

  "Every protected packet an endpoint emits is recovered bit-exactly by its peer
   and by an independent RFC 9001/9369 implementation, for every cipher suite,
   QUIC version, key phase, packet-number length and payload size …  A packet
   (including a Retry) in which any bit was altered after protection is
   discarded without emitting events, advancing the handshake, delivering data
   or closing the connection, and the genuine packet is still accepted
   afterwards."

proof:   AQ.Props.C02b about AQ.Model.PacketProt / AQ.Model.RecvGate
         (nonce_spec, hp_roundtrip, hp_apply_injective, protect_roundtrip,
         accepted_is_genuine, retry_accepted_is_genuine, drop_changes_nothing,
         expected_tracks_largest, genuine_in_window_expands (AQ.Model.PnSpace),
         tables_match_rfc); cipher primitives are hypotheses.
tie:     * TRANSLATOR: tools/extract_crypto.py regenerates AQ.Gen.CryptoTables
           by evaluating crypto.py / packet.py / tls.py of the tree on every run; `tables_match_rfc`
           is re-proved against it.
         * T2 correspondence, `prot.*`: the real _crypto C helpers /
           CryptoContext / get_retry_integrity_tag against the compiled Lean
           pipeline (nonce, sample position, header-protection arithmetic,
           first byte / pn handling, key-phase selection from the model; the
           AEAD / mask primitive evaluated by `cryptography`, keys by an
           RFC 8446 §7.1 HKDF written on hmac/hashlib with the labels of the
           Lean spec) = the "independent RFC 9001/9369 implementation".
oracle:  (a) round trip / mutual decryption / RFC appendix vectors;
         (b) bit-flip oracle on recorded handshake and data flights of real
             connections (harness/sim.py): altered datagram first, then the
             genuine one, compared with an unaltered control run.

`run(ctx, tier)` is the section entry point used by checks/c02.py;
`main(tier)` runs it stand-alone.
"""
import os
import subprocess
import sys

from harness import core, lean, rng, tree

PROP_MODULES = ["AQ.Props.C02b"]
HERE = os.path.dirname(os.path.dirname(os.path.abspath(__file__)))


def hx(b):
    return bytes(b).hex() if len(b) else "-"


def unhx(s):
    return b"" if s == "-" else bytes.fromhex(s)


def regenerate_tables(ctx):
    """TRANSLATOR step: crypto.py / packet.py / tls.py -> AQ/Gen/CryptoTables.lean, by evaluating the
    functions of the built tree (behaviour-preserving rewrites give byte-identical output)"""
    r = subprocess.run([sys.executable, os.path.join(HERE, "tools", "extract_crypto.py"),
                        "--repo", tree.REPO, "--tree", tree.activate(),
                        "--out", os.path.join(lean.LEAN, "AQ", "Gen", "CryptoTables.lean")],
                       capture_output=True, text=True)
    if r.returncode != 0:
        ctx.broken.append({"kind": "broken-correspondence", "correspondence": "extract_crypto",
                           "error": (r.stdout + r.stderr)[-2000:]})
    ctx.notes["extract_crypto"] = r.stdout.strip()[-300:]


def q(lines):
    """model-only queries"""
    out = lean.run_driver(lines) if lines else []
    return out


def diff(ctx, name, lines, impl_out, model_out, describe=None):
    """compare per-line outputs of implementation and model"""
    n = 0
    for i, (l, a, b) in enumerate(zip(lines, impl_out, model_out)):
        if a != b:
            n += 1
            if n <= 3:
                ctx.disagreement(name, [l], b, a, 0)
    if len(impl_out) != len(model_out):
        ctx.broken.append({"kind": "broken-correspondence", "correspondence": name,
                           "error": f"line count differs impl={len(impl_out)} model={len(model_out)}"})
    ctx.cov["traces_validated_against_impl"] += len(lines)
    return n


from checks import c02b_flip, c02b_ku, c02b_pn, c02b_prot  # noqa: E402


def run(ctx, tier, r=None):
    r = r or rng.make("c02b")
    c02b_prot.section_tables_and_kdf(ctx, tier, r)
    c02b_prot.section_header_protection(ctx, tier, r)
    c02b_prot.section_packet_protection(ctx, tier, r)
    c02b_prot.section_retry(ctx, tier, r)
    c02b_prot.section_live_sequences(ctx, tier, r)
    c02b_ku.section_key_update(ctx, tier, r)
    c02b_pn.section_pn_state(ctx, tier, r)
    c02b_flip.section_bitflip(ctx, tier, r)


def replay(path):
    import json
    rec = json.load(open(path))
    for rp in [rec.get("replay") or {}] + [b for b in rec.get("broken", []) if isinstance(b, dict)]:
        if rp.get("kind") == "ku-pair" or rp.get("correspondence") == "c02-keyupdate-pair":
            return c02b_ku.replay(rp)
    return c02b_pn.replay(path)


TRUSTED = [
    "Lean 4.33.0 kernel (+ leanchecker in thorough tier)",
    "axioms: subset of {propext, Classical.choice, Quot.sound} (audited by #print axioms)",
    "hand-written model AQ.Model.PacketProt tied by differential correspondence (this run) to _crypto.c / "
    "crypto.py / packet.py; AQ.Gen.CryptoTables regenerated by tools/extract_crypto.py, which EVALUATES the tree under test (recording stubs for hkdf_expand_label / hkdf_extract / AESGCM, module attributes)",
    "cipher primitives (OpenSSL EVP AES-GCM / ChaCha20-Poly1305 / AES-ECB / ChaCha20, `cryptography` AESGCM for "
    "Retry) are hypotheses of the theorems: AEAD correctness, ciphertext integrity (INT-CTXT, idealised: a "
    "ciphertext that opens was sealed), mask length >= 5",
    "`cryptography` + hashlib/hmac as the independent primitive/KDF implementation in harness/rfc_prot.py",
    "harness/sim.py observation of the public API for the bit-flip oracle; AQ.Model.RecvGate (receive_datagram "
    "up to the decrypt decision) is tied to connection.py by that oracle only (observational)",
]
ASSUMPTIONS = [
    "iv length 12 (derive_key_iv_hp always asks HKDF for 12 bytes)",
    "packet numbers < 2^62; header + protected payload <= 1500 (the C helpers' PACKET_LENGTH_MAX) on the send side",
    "the packet-number window hypothesis of protect_roundtrip is discharged by AQ.Props.C02.pn_roundtrip",
    "altered packets: rejection holds up to the AEAD forgery probability (2^-128) — stated as the INT-CTXT hypothesis",
]


def main(tier):
    ctx = core.Ctx("C02", tier)
    tree.activate()
    regenerate_tables(ctx)
    ctx.prove(PROP_MODULES, [])
    ctx.cov["trusted_base"] = TRUSTED
    ctx.assumptions = ASSUMPTIONS
    run(ctx, tier)
    ctx.cov["rule"] = RULE
    return ctx.finish()


RULE = (
    "header protection: every pn length 1..4 x long/short header x 3 hp ciphers with header lengths pnLen..64 and "
    "payload lengths at every bound of the C checks (0, 15, 19-pnLen, 20-pnLen, 1500-hdr, 1501-hdr) plus random; "
    "remove on genuine, random and out-of-bounds offsets.  packet protection: 3 suites x 2 versions x key phase "
    "{same, updated} x pn length 1..4 x boundary packet numbers (0, 2^8k edges, 2^31, 2^32+2^31+1, 2^62-1) x "
    "payload sizes 0..max, every case decrypted by the peer context and by the Lean/independent pipeline, plus a "
    "single-bit alteration of each.  bit-flip oracle: every datagram of recorded handshakes (3 suites x 2 "
    "versions, with Retry) and post-handshake flights before/after a key update; quick = every header byte "
    "^0x01/^0x80/^0xff + PRNG sample of bit positions, thorough = every bit; plus, with FRESH endpoints per alteration (one altered packet first, then the genuine datagram, then the handshake must complete as in the control run): every header byte (first byte, version, DCID, SCID, token, length, pn) ^0x01/^0x80 of the first client datagram at a fresh server (v1, v2), of the first server datagram at the client and of a Retry; and every decrypt attempt of a first-flight server must use Initial keys derived from that packet's own DCID (tie of RecvGate.serverInit).  LIVE objects: per suite, apply/remove/encrypt/decrypt SEQUENCES on one HeaderProtection / CryptoContext per key (samples equal, one byte apart at each of the 16 positions, bytes 0..3 only, bytes 4..15 only; genuine right after an altered copy), each call compared with the independent implementation.  LEAD alterations: in every scenario, before every datagram exactly ONE altered copy of each packet (the altered byte rotating over the 16 sample bytes and 4 pn bytes so that every position hits 1-RTT packets of every suite), immediately followed by the genuine datagram, in which the same packets must authenticate as in the control run.  PACKET-NUMBER STATE: space.expected_packet_number read after every receive_datagram and compared with the compiled AQ.PnSpace model and with largest+1 (adversarial sim runs with reordering/duplication/loss; an independent RFC 9001 sender keyed with the live 1-RTT secret: forward jump, 200 late packets, then 1-byte in-order numbers, both edges of the 1- and 2-byte windows, 3-/4-byte numbers, altered copy, duplicate; thorough adds 33000 late packets then 2-byte in-order numbers) — every genuine packet inside the window must be accepted.  KEY UPDATES: per suite x version two live CryptoPairs driven breadth-first through every interleaving (depth 8 quick / 9 thorough) of request / send / deliver-any-packet (reorder, duplicate, loss), requests enabled per RFC 9001 §6.1, one path per (reference state, observed state); every step compared with the compiled AQ.KeyUpdate model (ku.*) and with an RFC §6 reference, every packet opened by the independent implementation at the predicted generation.  Non-trivial = a case whose packet "
    "is accepted by the peer (round trip) or an altered packet that reached the decrypt decision."
)
