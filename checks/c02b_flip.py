"""C02b section 5: the bit-flip oracle (second sentence of the property).

Real connections run over harness/sim.py.  Before every datagram is delivered,
altered copies of it are delivered to the same live receiver first; each must
leave no trace (no event, no handshake progress, no stream data, not closed, no
exception, same expected packet numbers / ack queues); then the genuine datagram
is delivered and the run continues.  At the end the events of both endpoints
must equal those of an unaltered control run of the same scenario.

That amortised scheme meets a truly fresh receiver only with its very first
alteration, so state that the FIRST packet latches (Initial keys, version,
connection IDs) is covered separately by `test_first_datagrams`: fresh
endpoints for every single alteration of the first datagram each endpoint
receives (and of a Retry), altered first, then genuine, then the rest of the
handshake as in the control run; and by `first_flight_keys_problem`, the direct
tie of AQ.RecvGate.serverInit (every decrypt attempt of a first-flight server
uses keys derived from that packet's own Destination Connection ID)."""
import random

from harness import sim as simmod

CID_LEN = 8


# ------------------------------------------------- independent packet splitter
def varint(data, pos):
    if pos >= len(data):
        raise ValueError
    n = 1 << (data[pos] >> 6)
    if pos + n > len(data):
        raise ValueError
    v = int.from_bytes(data[pos:pos + n], "big") & ((1 << (8 * n - 2)) - 1)
    return v, pos + n


def split_packets(data, long_types):
    """RFC 9000 §17 packet boundaries and header field spans of a datagram.
    long_types: {version: [initial, 0rtt, handshake, retry] type bits}.
    Returns (packets, end_of_last_packet); each packet has `start`, `end`,
    `fields` = list of (name, a, b) byte spans; `pn` = offset of the pn field."""
    pkts = []
    pos = 0
    while pos < len(data):
        fb = data[pos]
        if fb == 0 and not any(data[pos:]):
            break                                  # datagram padding after the last packet
        start = pos
        fields = [("first-byte", pos, pos + 1)]
        try:
            if fb & 0x80:
                version = int.from_bytes(data[pos + 1:pos + 5], "big")
                fields.append(("version", pos + 1, pos + 5))
                p = pos + 5
                dl = data[p]
                fields.append(("dcid", p, p + 1 + dl))
                p += 1 + dl
                sl = data[p]
                fields.append(("scid", p, p + 1 + sl))
                p += 1 + sl
                types = long_types.get(version)
                if types is None:
                    break
                kind = types.index((fb & 0x30) >> 4)
                if kind == 3:                       # Retry: token ‖ 16-byte tag to the end
                    fields.append(("token", p, len(data) - 16))
                    fields.append(("tag", len(data) - 16, len(data)))
                    pkts.append(dict(start=start, end=len(data), fields=fields, kind="retry", pn=None))
                    pos = len(data)
                    continue
                if kind == 0:
                    tl, q = varint(data, p)
                    fields.append(("token", p, q + tl))
                    p = q + tl
                ln, q = varint(data, p)
                fields.append(("length", p, q))
                end = q + ln
                if end > len(data):
                    break
                fields.append(("pn+sample", q, min(end, q + 20)))
                fields.append(("payload", min(end, q + 20), end - 16))
                fields.append(("tag", end - 16, end))
                pkts.append(dict(start=start, end=end, fields=fields, kind=["initial", "0rtt", "handshake"][kind], pn=q))
                pos = end
            else:
                p = pos + 1
                fields.append(("dcid", p, p + CID_LEN))
                p += CID_LEN
                end = len(data)
                fields.append(("pn+sample", p, min(end, p + 20)))
                fields.append(("payload", min(end, p + 20), end - 16))
                fields.append(("tag", end - 16, end))
                pkts.append(dict(start=start, end=end, fields=fields, kind="1rtt", pn=p))
                pos = end
        except (ValueError, IndexError):
            break
    return pkts, (pkts[-1]["end"] if pkts else 0)


def classify(pkts, end, pos):
    if pos >= end:
        return "padding", None
    for i, p in enumerate(pkts):
        if p["start"] <= pos < p["end"]:
            for name, a, b in p["fields"]:
                if a <= pos < b:
                    return name, i
            return "payload", i
    return "padding", None


def alterations(data, pkts, end, thorough, r):
    """yield (pos, xor_mask).  quick: every header byte (first byte … pn+sample)
    and every tag byte ^0x01 ^0x80 ^0xff, plus a PRNG sample of single bits
    anywhere; thorough: every bit, plus every header byte ^0xff"""
    seen = set()

    def emit(pos, m):
        if (pos, m) not in seen and 0 <= pos < len(data):
            seen.add((pos, m))
            return True
        return False
    for p in pkts:
        hdr_end = (p["pn"] + 4) if p["pn"] is not None else p["end"]
        for pos in list(range(p["start"], min(hdr_end, p["end"]))) + list(range(max(p["start"], p["end"] - 16), p["end"])):
            for m in ((0x01, 0x80, 0xFF) if not thorough else (0xFF,)):
                if emit(pos, m):
                    yield pos, m
    if thorough:
        for pos in range(len(data)):
            for b in range(8):
                if emit(pos, 1 << b):
                    yield pos, 1 << b
    else:
        for _ in range(40):
            pos, m = r.randrange(len(data)), 1 << r.randrange(8)
            if emit(pos, m):
                yield pos, m


# ------------------------------------------------------------- observation
def snapshot(ep):
    c = ep.conn
    spaces = {}
    for epoch, sp in getattr(c, "_spaces", {}).items():
        spaces[epoch.name] = (sp.expected_packet_number, repr(sp.ack_queue), sp.ack_queue_start if hasattr(sp, "ack_queue_start") else None)
    tls = getattr(c, "tls", None)
    tls_state = getattr(getattr(tls, "state", None), "name", None)
    version = c._version
    key_phase = (c._cryptos[max(c._cryptos.keys(), key=lambda e: e.value)].key_phase if getattr(c, "_cryptos", None) else None)
    if not c._is_client and c._state.name == "FIRSTFLIGHT":
        # A server that has not accepted any packet yet (re)creates its TLS context,
        # Initial keys and packet spaces from the header of every Initial it sees,
        # BEFORE authenticating it (`_initialize`); the genuine Initial does the same
        # again.  Only the content that outlives a re-initialisation is compared:
        # fresh spaces / TLS start state / no version are one and the same state.
        fresh = all(v[0] == 0 and v[1] == "RangeSet([])" for v in spaces.values())
        assert tls_state in (None, "SERVER_EXPECT_CLIENT_HELLO"), tls_state
        spaces = "fresh" if fresh else spaces
        tls_state, version, key_phase = "start", None, 0
    return {
        "events": len(ep.events), "raised": len(ep.raised), "state": c._state.name,
        "handshake_complete": c._handshake_complete, "handshake_confirmed": c._handshake_confirmed,
        "tls_state": tls_state,
        "close_event": repr(c._close_event), "close_pending": c._close_pending,
        "streams": sorted(c._streams.keys()),
        "stream_recv": sorted((k, s.receiver.highest_offset, s.receiver.is_finished) for k, s in c._streams.items()),
        "spaces": spaces, "retry_count": c._retry_count, "version": version,
        "key_phase": key_phase,
        "peer_cid": (c._peer_cid.cid.hex(), c._peer_cid.sequence_number),
    }


def event_sig(ev):
    n = type(ev).__name__
    if n == "StreamDataReceived":
        return (n, ev.stream_id, len(ev.data), ev.end_stream)
    if n == "ConnectionTerminated":
        return (n, ev.error_code, ev.reason_phrase)
    if n == "ProtocolNegotiated":
        return (n, ev.alpn_protocol)
    if n in ("ConnectionIdIssued", "ConnectionIdRetired"):
        return (n,)
    return (n,)


def merged(sigs):
    """StreamDataReceived chunks merged per stream (chunking depends on packet
    scheduling, the delivered bytes do not)"""
    out = []
    for s in sigs:
        if s[0] == "StreamDataReceived" and out and out[-1][0] == s[0] and out[-1][1] == s[1] and not out[-1][3]:
            out[-1] = (s[0], s[1], out[-1][2] + s[2], s[3])
        else:
            out.append(s)
    return out


# ---------------------------------------------------------------- scenarios
class Violation(Exception):
    pass


class Scenario:
    """one deterministic schedule: handshake (optionally behind a Retry), data
    both ways, key update, more data"""

    def __init__(self, suite, version, retry, seed, token=b"retry-token-" + bytes(range(20))):
        self.suite, self.version, self.retry, self.seed, self.token = suite, version, retry, seed, token

    def name(self):
        return f"suite={self.suite} version={self.version:#x} retry={int(self.retry)} seed={self.seed}"

    def make(self, monitors=()):
        return simmod.Sim(self.seed, client_options=self._opts(True), server_options=self._opts(False),
                          monitors=monitors)

    def _opts(self, client):
        from aioquic.tls import CipherSuite
        o = {"cipher_suites": [CipherSuite(self.suite)], "supported_versions": [self.version]}
        if client:
            o["original_version"] = self.version
        return o

    def received(self, ep, sid):
        return sum(len(ev.data) for _, ev in ep.events if type(ev).__name__ == "StreamDataReceived" and ev.stream_id == sid)

    def fin(self, ep, sid):
        return any(type(ev).__name__ == "StreamDataReceived" and ev.stream_id == sid and ev.end_stream for _, ev in ep.events)

    def run(self, sim, handshake_only=False):
        c, s = sim.client, sim.server
        if self.retry:
            from aioquic.quic.connection import QuicConnection
            from aioquic.quic.packet import encode_quic_retry
            sim.connect()
            first = sim.pending.pop(0)            # consumed by the stateless Retry service
            odcid = c.conn.original_destination_connection_id
            new_scid = bytes(sim.r.getrandbits(8) for _ in range(8))
            retry = encode_quic_retry(version=self.version, source_cid=new_scid, destination_cid=c.conn.host_cid,
                                      original_destination_cid=odcid, retry_token=self.token)
            s.conn = QuicConnection(configuration=s.conn.configuration, original_destination_connection_id=odcid,
                                    retry_source_connection_id=new_scid)
            d = {"id": -2, "src": s, "dst": c, "data": retry, "to": c.addr, "from": s.addr, "t": sim.now}
            sim.deliver(d)
            ok = sim.fair_phase(max_steps=200, done=lambda: c.conn._handshake_confirmed and s.conn._handshake_confirmed and not sim.pending)
        else:
            ok = sim.handshake()
        if not ok or handshake_only:
            return ok
        sid = c.conn.get_next_available_stream_id()
        sim.api(c, "send_stream_data", sid, bytes(3000), False)
        sim.transmit(c)
        sim.fair_phase(max_steps=200, done=lambda: self.received(s, sid) >= 3000 and not sim.pending)
        sim.api(s, "send_stream_data", sid, bytes(2000), False)
        sim.transmit(s)
        sim.fair_phase(max_steps=200, done=lambda: self.received(c, sid) >= 2000 and not sim.pending)
        sim.api(c, "request_key_update")
        sim.api(c, "send_stream_data", sid, bytes(1500), True)
        sim.transmit(c)
        sim.fair_phase(max_steps=200, done=lambda: self.fin(s, sid) and not sim.pending)
        sim.api(s, "send_stream_data", sid, bytes(500), True)
        sim.transmit(s)
        sim.fair_phase(max_steps=200, done=lambda: self.fin(c, sid) and not sim.pending)
        return self.fin(c, sid) and self.fin(s, sid)


_pem = {}


def memoise_key_loading():
    """Parsing the server's 3072-bit RSA key costs ~0.12 s per connection, ten
    times the simulated handshake; the parsed key object is immutable, so every
    run shares one (harness-side only, nothing of aioquic's behaviour changes)."""
    from aioquic.quic import configuration as qconf
    if getattr(qconf.load_pem_private_key, "_memo", False):
        return
    real = qconf.load_pem_private_key

    def load(data, password=None):
        k = (bytes(data), password)
        if k not in _pem:
            _pem[k] = real(data, password)
        return _pem[k]
    load._memo = True
    qconf.load_pem_private_key = load


def run_scenario(sc, long_types, alter=None, handshake_only=False):
    """alter(sim, index, d) is called before datagram number `index` is
    delivered.  Returns (completed, client event sigs, server event sigs, n datagrams)."""
    class PhaseMonitor:
        phases = set()

        def on_packet_built(self, sim, ep, epoch, pn, hdr, payload, size):
            if epoch == "ONE_RTT":
                self.phases.add((ep.name, (hdr[0] & 4) >> 2))

        def on_packet_authenticated(self, sim, ep, epoch, pn, hdr, payload):
            self.auth += 1
    memoise_key_loading()
    mon = PhaseMonitor()
    mon.phases = set()
    mon.auth = 0
    trace = []
    sim = sc.make([mon])
    counter = [0]
    orig = sim.deliver

    def deliver(d, from_addr=None):
        i = counter[0]
        counter[0] += 1
        if alter is not None:
            alter(sim, i, d)
        n0 = mon.auth
        orig(d, from_addr)
        kinds = tuple(p["kind"] for p in split_packets(d["data"], long_types)[0])
        trace.append((d["dst"].name, len(d["data"]), kinds, mon.auth - n0))
    sim.deliver = deliver
    # observation: every decrypt ATTEMPT (the sim's own tap only reports successes)
    from aioquic.quic import crypto as qcrypto
    sim.decrypt_attempts = []
    inner = qcrypto.CryptoPair.decrypt_packet

    def attempt(pair, packet, encrypted_offset, expected_packet_number):
        sim.decrypt_attempts.append((pair, bytes(packet)))
        return inner(pair, packet, encrypted_offset, expected_packet_number)
    qcrypto.CryptoPair.decrypt_packet = attempt
    try:
        done = sc.run(sim, handshake_only)
        res = (done, merged([event_sig(e) for _, e in sim.client.events]),
               merged([event_sig(e) for _, e in sim.server.events]), counter[0],
               [(n, repr(e)) for ep in sim.endpoints for n, e in ep.raised], sorted(mon.phases), trace)
    finally:
        qcrypto.CryptoPair.decrypt_packet = inner
        sim.close_taps()
    return res


def first_auth_mismatch(control_trace, trace):
    """index of the first genuine datagram in which fewer / other packets
    authenticated than in the control run, as long as both runs deliver the same
    sequence of datagrams (receiver, size, packet kinds); None otherwise"""
    for i, (a, b) in enumerate(zip(control_trace, trace)):
        if a[:3] != b[:3]:
            return None
        if a[3] != b[3]:
            return i, a, b
    return None


# ------------------------------------------------------------------ the oracle
def long_types_from_tables():
    from harness import lean
    out = lean.run_driver(["prot.tables"])[0]
    kv = {}
    for key in ("v1=", "v2="):
        i = out.index(" " + key) + 1 + len(key)
        kv[key[:-1]] = int(out[i:out.index(" ", i)])
    lt1 = [int(x) for x in out[out.index("lt1=[") + 5:out.index("]", out.index("lt1=["))].split(",")]
    lt2 = [int(x) for x in out[out.index("lt2=[") + 5:out.index("]", out.index("lt2=["))].split(",")]
    return {kv["v1"]: lt1, kv["v2"]: lt2}


def vn_conversion(data, pkts, pos, mask, pkt_index):
    """the alteration turns the version field of a long header into 0: the
    result IS a Version Negotiation packet (unauthenticated by design, RFC 9000 §6)"""
    if pkt_index is None:
        return False
    p = pkts[pkt_index]
    if not data[p["start"]] & 0x80 or not p["start"] + 1 <= pos < p["start"] + 5:
        return False
    v = bytearray(data[p["start"] + 1:p["start"] + 5])
    v[pos - p["start"] - 1] ^= mask
    return not any(v)


_rfc = {}


def rfc():
    if "x" not in _rfc:
        from harness import rfc_prot
        _rfc["x"] = rfc_prot.Rfc(rfc_prot.Tables())
    return _rfc["x"]


def first_flight_keys_problem(ep, before, attempts):
    """tie of AQ.RecvGate.serverInit: a server that has not accepted any packet
    derives the Initial keys it tries from the Destination Connection ID of THAT
    packet (RFC 9001 §5.2), whatever it has seen before"""
    if ep.is_client or before["state"] != "FIRSTFLIGHT":
        return None
    for pair, packet in attempts:
        if not packet or not packet[0] & 0x80 or len(packet) < 7:
            continue
        version = next((v for v, p in ep.conn._cryptos_initial.items() if p is pair), None)
        if version is None:
            continue
        dcid = packet[6:6 + packet[5]]
        want = rfc().initial_secrets(int(version), dcid)[0]
        if pair.recv.secret != want:
            return (f"a server in its first flight tried Initial keys that are not derived from the packet's own "
                    f"Destination Connection ID {dcid.hex()} (keys of an earlier Initial were kept)")
    return None


def test_scenario(ctx, sc, long_types, thorough, r, stats):
    control = run_scenario(sc, long_types)
    stats.setdefault("key_phases_seen", set()).update(control[5])
    if len(control[5]) < 4:
        ctx.broken.append({"kind": "broken-correspondence", "correspondence": "bitflip-control",
                           "error": f"{sc.name()}: the key update did not happen in both directions: {control[5]}"})
    if not control[0] or control[4]:
        ctx.broken.append({"kind": "broken-correspondence", "correspondence": "bitflip-control",
                           "error": f"control run of {sc.name()} did not complete: {control[4][:2]}"})
        return
    progress = {"index": 0, "done": set()}     # survives restarts after a violation
    for attempt in range(12):
        state = {"violation": None}

        def alter(sim, i, d):
            if i < progress["index"] or state["violation"]:
                return
            progress["index"] = i
            ep = d["dst"]
            data = d["data"]
            pkts, end = split_packets(data, long_types)
            rr = random.Random(f"{sc.name()}/{i}/{r.random() if False else 0}/{ctx.seed}")
            for pos, mask in alterations(data, pkts, end, thorough, rr):
                if (i, pos, mask) in progress["done"]:
                    continue
                progress["done"].add((i, pos, mask))
                klass, pi = classify(pkts, end, pos)
                alt = bytearray(data)
                alt[pos] ^= mask
                if pi is None:
                    # bytes after the last packet: not an altered protected packet.  One such
                    # datagram is delivered INSTEAD of the genuine one (must behave the same,
                    # checked by the comparison with the control run).
                    stats["padding"] = stats.get("padding", 0) + 1
                    if "substitute" not in d and i > 0:
                        d["substitute"] = True
                        d["data"] = bytes(alt)
                    continue
                # the altered packet alone (the other packets of a coalesced datagram are
                # genuine and would rightly be accepted), zero-padded to the datagram size
                p = pkts[pi]
                alt = bytes(alt[p["start"]:p["end"]]) + bytes(len(data) - (p["end"] - p["start"]))
                before = snapshot(ep)
                n_att = len(sim.decrypt_attempts)
                sim.api(ep, "receive_datagram", bytes(alt), d["from"], now=sim.now)
                after = snapshot(ep)
                kp = first_flight_keys_problem(ep, before, sim.decrypt_attempts[n_att:])
                if kp:
                    state["violation"] = {
                        "what": f"datagram #{i} to {ep.name} with byte {pos} ^= {mask:#04x}: {kp}",
                        "replay": {"scenario": sc.name(), "datagram_index": i, "receiver": ep.name, "byte": pos,
                                   "xor": mask, "genuine_datagram": data.hex()},
                        "signature": {"oracle": "bitflip", "class": "first-flight-keys"}}
                    return
                stats[klass] = stats.get(klass, 0) + 1
                kind = pkts[pi]["kind"] if pi is not None else "none"
                ctx.count((sc.name(), i, pos, mask), klass != "padding")
                if after != before:
                    changed = sorted(k for k in before if before[k] != after[k])
                    vn = vn_conversion(data, pkts, pos, mask, pi)
                    state["violation"] = {
                        "what": (f"datagram #{i} to {ep.name} ({kind} packet, field {klass}) with byte {pos} ^= {mask:#04x} "
                                 f"was not discarded silently: changed {changed}"
                                 + (f"; events {[event_sig(e) for _, e in ep.events[before['events']:]]}" if "events" in changed else "")
                                 + (f"; raised {ep.raised[before['raised']:]}" if "raised" in changed else "")),
                        "replay": {"scenario": sc.name(), "datagram_index": i, "receiver": ep.name, "byte": pos, "xor": mask,
                                   "genuine_datagram": data.hex(), "before": before, "after": after},
                        "signature": {"oracle": "bitflip", "class": "version-to-vn" if vn else klass,
                                      "changed": ",".join(changed[:3])},
                    }
                    return
            progress["index"] = i + 1

        res = run_scenario(sc, long_types, alter)
        v = state["violation"]
        if v is not None:
            ctx.witness(v["what"], v["replay"], v["signature"])
            stats["violations"] = stats.get("violations", 0) + 1
            continue                      # restart; tested alterations are skipped
        # all alterations of every datagram were silent: the genuine packets must have been accepted as in the control run
        mm = first_auth_mismatch(control[6], res[6])
        if mm:
            ctx.witness(f"genuine datagram #{mm[0]} to {mm[1][0]} ({'+'.join(mm[1][2])}): {mm[2][3]} packet(s) authenticated right after "
                        f"its altered copies were dropped, {mm[1][3]} in the control run ({sc.name()})",
                        {"scenario": sc.name(), "datagram_index": mm[0], "control": mm[1], "run": mm[2]},
                        {"oracle": "bitflip-genuine-after", "class": "not-authenticated"})
        elif not res[0] or res[1] != control[1] or res[2] != control[2] or res[4]:
            ctx.witness(f"after silently dropped altered datagrams the run differs from the unaltered control run ({sc.name()})",
                        {"scenario": sc.name(), "completed": res[0], "client_events": res[1], "server_events": res[2],
                         "control_client": control[1], "control_server": control[2], "raised": res[4]},
                        {"oracle": "bitflip-genuine-after"})
        return


def header_positions(data, pkts):
    """every byte of every header in the datagram: first byte, version, DCID
    length + DCID, SCID length + SCID, token length + token, length field, the
    four possible packet-number bytes; for a Retry every byte of the packet"""
    out = []
    for p in pkts:
        end = p["end"] if p["pn"] is None else min(p["end"], p["pn"] + 4)
        out += list(range(p["start"], end))
    return out


def test_first_datagrams(ctx, sc, long_types, thorough, stats, receivers=("server", "client")):
    """FRESH receiver per alteration.  For the first datagram each endpoint ever
    receives (client Initial at a fresh server, server Initial+Handshake or Retry
    at the client, first Initial after a Retry at the server): ONE altered packet
    is delivered first, it must leave no trace, then the genuine datagram and the
    rest of the handshake must go exactly as in the control run.  Catches state
    that only the very first packet can latch (keys, version, connection IDs)."""
    datagrams = []
    control = run_scenario(sc, long_types, lambda sim, i, d: datagrams.append((i, d["dst"].name, d["data"])), True)
    if not control[0] or control[4]:
        ctx.broken.append({"kind": "broken-correspondence", "correspondence": "bitflip-control",
                           "error": f"handshake-only control run of {sc.name()} did not complete: {control[4][:2]}"})
        return
    targets, seen = [], set()
    for i, dst, data in datagrams:
        if dst not in seen:
            seen.add(dst)
            if dst in receivers:
                targets.append((i, data))
    masks = (0x01, 0x80) if not thorough else (0x01, 0x02, 0x04, 0x08, 0x10, 0x20, 0x40, 0x80, 0xFF)
    for ti, tdata in targets:
        pkts, end = split_packets(tdata, long_types)
        for pos in header_positions(tdata, pkts):
            klass, pi = classify(pkts, end, pos)
            for mask in masks:
                found = {}

                def alter(sim, i, d, pos=pos, mask=mask, pi=pi):
                    if i != ti:
                        return
                    ep, data = d["dst"], d["data"]
                    pk, _ = split_packets(data, long_types)
                    if len(data) != len(tdata) or pi >= len(pk):
                        found["skip"] = True       # the run is not the control run's twin (should not happen)
                        return
                    p = pk[pi]
                    alt = bytearray(data)
                    alt[pos] ^= mask
                    alt = bytes(alt[p["start"]:p["end"]]) + bytes(len(data) - (p["end"] - p["start"]))
                    before = snapshot(ep)
                    n_att = len(sim.decrypt_attempts)
                    sim.api(ep, "receive_datagram", alt, d["from"], now=sim.now)
                    after = snapshot(ep)
                    found["kind"] = p["kind"]
                    found["receiver"] = ep.name
                    found["genuine"] = data.hex()
                    if after != before:
                        found["changed"] = sorted(k for k in before if before[k] != after[k])
                        found["vn"] = vn_conversion(data, pk, pos, mask, pi)
                    found["keys"] = first_flight_keys_problem(ep, before, sim.decrypt_attempts[n_att:])
                res = run_scenario(sc, long_types, alter, True)
                stats["fresh-" + klass] = stats.get("fresh-" + klass, 0) + 1
                ctx.count(("fresh", sc.name(), ti, pos, mask), True)
                replay = {"scenario": sc.name() + " (handshake only, fresh endpoints)", "datagram_index": ti,
                          "receiver": found.get("receiver"), "packet": found.get("kind"), "field": klass, "byte": pos,
                          "xor": mask, "genuine_datagram": found.get("genuine"),
                          "procedure": "deliver the altered packet (alone, zero-padded) first, then the genuine datagram"}
                if found.get("skip") or "receiver" not in found:
                    ctx.broken.append({"kind": "broken-correspondence", "correspondence": "bitflip-fresh",
                                       "error": f"{sc.name()}: datagram #{ti} differs between runs"})
                    return
                if "changed" in found:
                    ctx.witness(f"first datagram to a fresh {found['receiver']} ({found['kind']} packet, field {klass}) with byte "
                                f"{pos} ^= {mask:#04x} was not discarded silently: changed {found['changed']}", replay,
                                {"oracle": "bitflip", "class": "version-to-vn" if found["vn"] else klass,
                                 "changed": ",".join(found["changed"][:3])})
                elif found.get("keys"):
                    ctx.witness(found["keys"], replay, {"oracle": "bitflip", "class": "first-flight-keys"})
                elif not res[0] or res[1] != control[1] or res[2] != control[2] or res[4]:
                    ctx.witness(f"the genuine {found['kind']} packet is not accepted after an altered copy (field {klass}, byte {pos} "
                                f"^= {mask:#04x}) was dropped by a fresh {found['receiver']}: handshake "
                                f"{'completed with different events' if res[0] else 'never completes'}",
                                dict(replay, completed=res[0], client_events=res[1], server_events=res[2],
                                     control_client=control[1], control_server=control[2], raised=res[4]),
                                {"oracle": "bitflip-genuine-after", "class": "first-datagram", "field": klass,
                                 "receiver": found["receiver"]})


LEADS = 20     # 0..15: the 16 sample bytes (pn_offset+4 …), 16..19: the four possible packet-number bytes


def test_lead_alterations(ctx, sc, long_types, passes, stats):
    """EXACTLY ONE altered copy of each packet, delivered right after the previous
    (different) genuine packet and IMMEDIATELY followed by the genuine one, on the
    live receiver.  The altered byte rotates over the 16 header-protection sample
    bytes and the packet-number bytes with the datagram ordinal and the pass, so
    that for every cipher suite every sample byte is hit on 1-RTT packets.  The
    altered copy must leave no trace; in the genuine datagram the same packets
    must authenticate as in the control run; the run must end as the control."""
    control = run_scenario(sc, long_types)
    if not control[0] or control[4]:
        ctx.broken.append({"kind": "broken-correspondence", "correspondence": "bitflip-control",
                           "error": f"control run of {sc.name()} did not complete: {control[4][:2]}"})
        return
    covered = set()
    for m in passes:
        state = {"violation": None, "log": {}}

        def alter(sim, i, d, m=m):
            if state["violation"]:
                return
            ep, data = d["dst"], d["data"]
            pkts, end = split_packets(data, long_types)
            k = (i + m) % LEADS
            for p in pkts:
                if p["pn"] is None or p["end"] - p["pn"] < 20:
                    continue
                pos = p["pn"] + 4 + k if k < 16 else p["pn"] + (k - 16)
                mask = 1 << ((i + m) % 8)
                alt = bytearray(data)
                alt[pos] ^= mask
                alt = bytes(alt[p["start"]:p["end"]]) + bytes(len(data) - (p["end"] - p["start"]))
                before = snapshot(ep)
                n_att = len(sim.decrypt_attempts)
                sim.api(ep, "receive_datagram", alt, d["from"], now=sim.now)
                after = snapshot(ep)
                stats["lead"] = stats.get("lead", 0) + 1
                ctx.count(("lead", sc.name(), m, i, pos), True)
                if p["kind"] == "1rtt":
                    covered.add(k)
                state["log"][i] = {"receiver": ep.name, "packet": p["kind"], "byte": pos, "xor": mask,
                                   "what": f"sample byte {k}" if k < 16 else f"pn byte {k - 16}", "genuine_datagram": data.hex()}
                kp = first_flight_keys_problem(ep, before, sim.decrypt_attempts[n_att:])
                if after != before or kp:
                    changed = sorted(x for x in before if before[x] != after[x])
                    state["violation"] = (i, kp or f"changed {changed}")
                    return

        res = run_scenario(sc, long_types, alter)
        replay = {"scenario": sc.name(), "pass": m,
                  "procedure": "before each datagram: ONE altered copy of each of its packets (alone, zero-padded), then the genuine datagram"}
        if state["violation"]:
            i, what = state["violation"]
            ctx.witness(f"datagram #{i}: a single altered copy ({state['log'][i]['what']}) was not discarded silently: {what}",
                        dict(replay, datagram_index=i, **state["log"][i]), {"oracle": "bitflip", "class": "lead-" + state["log"][i]["what"].split()[0]})
            continue
        mm = first_auth_mismatch(control[6], res[6])
        if mm:
            info = state["log"].get(mm[0], {})
            ctx.witness(f"genuine datagram #{mm[0]} to {mm[1][0]} ({'+'.join(mm[1][2])} packet): {mm[2][3]} packet(s) authenticated when it "
                        f"arrived right after ONE altered copy ({info.get('what')}, byte {info.get('byte')} ^= {info.get('xor')}) was "
                        f"dropped; {mm[1][3]} in the control run — the genuine packet is not accepted afterwards",
                        dict(replay, datagram_index=mm[0], **info), {"oracle": "bitflip-genuine-after", "class": "lead-not-authenticated",
                                                                     "suite": sc.suite})
        elif not res[0] or res[1] != control[1] or res[2] != control[2] or res[4]:
            ctx.witness(f"after single altered copies the run differs from the unaltered control run ({sc.name()}, pass {m})",
                        dict(replay, completed=res[0], client_events=res[1], server_events=res[2], raised=res[4]),
                        {"oracle": "bitflip-genuine-after", "class": "lead"})
    missing = sorted(set(range(LEADS)) - covered)
    stats.setdefault("lead_positions_covered_on_1rtt", {})[sc.suite] = LEADS - len(missing)
    if missing:
        ctx.broken.append({"kind": "broken-correspondence", "correspondence": "bitflip-lead-coverage",
                           "error": f"{sc.name()}: lead positions {missing} never hit a 1-RTT packet"})


def section_bitflip(ctx, tier, r):
    thorough = tier == "thorough"
    lt = long_types_from_tables()
    v1, v2 = sorted(lt.keys())
    stats = {}
    scenarios = []
    for suite in (4865, 4866, 4867):
        for v in (v1, v2):
            scenarios.append(Scenario(suite, v, False, 11 + suite))
    scenarios.append(Scenario(4865, v1, True, 5))
    scenarios.append(Scenario(4867, v2, True, 6))
    # one alteration per fresh pair of endpoints: first datagram at each endpoint / Retry
    both = ("server", "client")
    fresh = [(Scenario(4865, v1, False, 21), both), (Scenario(4867, v2, False, 22), both),
             (Scenario(4865, v1, True, 23, token=b"tok-" + bytes(range(4))), both), (Scenario(4866, v2, True, 24), both)]
    for sc, receivers in fresh:
        test_first_datagrams(ctx, sc, lt, thorough, stats, receivers)
    # exactly one altered copy, then the genuine packet: every scenario, every lead position for every datagram
    for sc in scenarios:
        test_lead_alterations(ctx, sc, lt, range(LEADS), stats)
    for sc in scenarios:
        test_scenario(ctx, sc, lt, thorough, r, stats)
    stats["key_phases_seen"] = sorted(stats.get("key_phases_seen", []))
    ctx.notes["bitflip_alterations_by_field"] = stats
    ctx.sample({"bitflip": f"{len(scenarios)} scenarios, alterations by field {stats}"})
